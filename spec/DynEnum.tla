------------------------------- MODULE DynEnum -------------------------------
(***************************************************************************)
(* Enum(values="name"): an enumeration whose members are the current       *)
(* contents of another attribute of the object (property C01, "enumeration *)
(* membership", for BaseEnum's dynamic form: _get / _set / _validate).     *)
(* The declared domain moves with the named list; the stored value stays.  *)
(*   st = [vals : a sequence of items, stored : an item or Unset]          *)
(***************************************************************************)
EXTENDS Integers, Sequences, TLC
Unset == 999
NoneV == 998                       \* Python None (what an empty enumeration reads as)
Bad == 997                         \* an unhashable / foreign value (a list)
Dflt == 996                        \* the trait's static default (not a member): what the first read leaves in the value slot
Members(st) == {st.vals[k] : k \in 1..Len(st.vals)}
InDomain(st, x) == x \in Members(st)
Out(st, exc, val) == [st |-> st, exc |-> exc, val |-> val]
\* _get: the stored value while it is still a member, else the first member (None for an empty enumeration)
Read(st) == Out([st EXCEPT !.stored = IF @ = Unset THEN Dflt ELSE @], "",
                IF st.stored # Unset /\ st.stored \in Members(st) THEN st.stored
                ELSE IF st.vals = <<>> THEN NoneV ELSE st.vals[1])
\* _set / _validate: a member of the enumeration as it is now
Assign(st, v) == IF v \in Members(st) THEN Out([st EXCEPT !.stored = v], "", 0) ELSE Out(st, "TraitError", 0)
Apply(st, op, v, vs) ==
  CASE op = "read" -> Read(st)
    [] op = "assign" -> Assign(st, v)
    [] op = "setvals" -> Out([st EXCEPT !.vals = vs], "", 0)
=============================================================================
