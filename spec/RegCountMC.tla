----------------------------- MODULE RegCountMC -----------------------------
EXTENDS RegCount
CONSTANT MaxDepth
VARIABLES st, last, depth
vars == <<st, last, depth>>
Init == st = St0 /\ last = [op |-> "init"] /\ depth = 0
Do(op, t, h) == LET r == Apply(st, op, t, h) IN
                st' = r.st /\ last' = [op |-> op, t |-> t, h |-> h, pre |-> st, exc |-> r.exc, calls |-> r.calls] /\ depth' = depth + 1
Next == depth < MaxDepth /\ \E t \in Targets, h \in Handlers :
          \/ (t \in st.alive /\ st.cnt[t][h] < 2 /\ Do("reg", t, h)) \/ (t \in st.alive /\ Do("unreg", t, h))
          \/ Do("change", "T1", "H1") \/ (t \in st.alive /\ Do("collect", t, "H1"))
Spec == Init /\ [][Next]_vars
\* n registrations and n removals leave everything as before; one removal more raises and changes nothing
Reversible == last.op = "unreg" /\ last.exc = "" => st.cnt[last.t][last.h] + 1 = last.pre.cnt[last.t][last.h]
ExtraRemovalRaises == last.op = "unreg" /\ last.pre.cnt[last.t][last.h] = 0 => last.exc = "NotifierNotFound" /\ st = last.pre
\* registrations on one object never answer for another one's, equal or not
PerObject == last.op = "change" => \A h \in Handlers : last.calls[h] = Cardinality({t \in last.pre.alive : last.pre.cnt[t][h] > 0})
OnlyOwnRegistrationsDie == last.op = "collect" => \A t \in Targets \ {last.t} : st.cnt[t] = last.pre.cnt[t]
=============================================================================
