----------------------------- MODULE RegCountMC -----------------------------
EXTENDS RegCount
CONSTANT MaxDepth
VARIABLES st, last, depth
vars == <<st, last, depth>>
Init == st = St0 /\ last = [op |-> "init"] /\ depth = 0
Do(op, t, h, m) == LET r == Apply(st, op, t, h, m) IN
                st' = r.st /\ last' = [op |-> op, t |-> t, h |-> h, m |-> m, pre |-> st, exc |-> r.exc, calls |-> r.calls] /\ depth' = depth + 1
Next == depth < MaxDepth /\ \E t \in Targets, h \in Handlers, m \in {1, 2, 3} :
          \/ (t \in st.alive /\ (\A g \in Graphs : st.cnt[t][h][g] < 2) /\ Do("reg", t, h, m)) \/ (t \in st.alive /\ Do("unreg", t, h, m))
          \/ Do("change", "T1", "H1", 1) \/ (t \in st.alive /\ Do("changetag", t, "H1", 1)) \/ (t \in st.alive /\ Do("collect", t, "H1", 1))
Spec == Init /\ [][Next]_vars
\* n registrations and n removals leave everything as before; one removal more raises and changes nothing
Reversible == last.op = "unreg" /\ last.exc = "" => \A g \in GraphsOf(last.m) : st.cnt[last.t][last.h][g] + 1 = last.pre.cnt[last.t][last.h][g]
ExtraRemovalRaises == last.op = "unreg" /\ (\E g \in GraphsOf(last.m) : last.pre.cnt[last.t][last.h][g] = 0) => last.exc = "NotifierNotFound" /\ st = last.pre
\* registrations on one object never answer for another one's, equal or not
PerObject == last.op = "change" => \A h \in Handlers : last.calls[h] = Cardinality({t \in last.pre.alive : last.pre.cnt[t][h][1] > 0})
OnlyOwnRegistrationsDie == last.op = "collect" => \A t \in Targets \ {last.t} : st.cnt[t] = last.pre.cnt[t]
=============================================================================
