------------------------------ MODULE RegCount ------------------------------
(***************************************************************************)
(* Registrations of observe() on SEVERAL observed objects that share a     *)
(* downstream object (property C09: "registering the same handler /        *)
(* expression / dispatch n times and unregistering it n times ...").       *)
(* A registration belongs to the object it was made on - that very object, *)
(* whatever it compares equal to.  Targets T1 and T2 are distinct objects  *)
(* that compare EQUAL (value-based __eq__ / __hash__), T3 differs; all     *)
(* three hold the same child, the expression is "child.value".             *)
(*   cnt[t][h][g] outstanding registrations of handler h made on target t   *)
(*               for graph g: 1 = "child.value", 2 = "tag" (a trait of the  *)
(*               target itself).  observe(h, ["child.value", "tag"]) makes  *)
(*               both registrations in one call, remove=True undoes both -  *)
(*               or, when one of them is missing, NEITHER                    *)
(*   alive       targets not yet garbage-collected                         *)
(***************************************************************************)
EXTENDS Integers, FiniteSets, TLC
Targets == {"T1", "T2", "T3"}
Handlers == {"H1", "H2"}
Graphs == {1, 2}
GraphsOf(mask) == IF mask = 3 THEN {1, 2} ELSE {mask}          \* mask 1 / 2: one expression; 3: the list of both
Out(st, exc, calls) == [st |-> st, exc |-> exc, calls |-> calls]
NoCalls == [h \in Handlers |-> 0]
\* a change of the shared child's value: every handler is called once per LIVE target it is registered on (however often
\* it was registered there)
CallsOnChange(st) == [h \in Handlers |-> Cardinality({t \in st.alive : st.cnt[t][h][1] > 0})]
\* a change of the target's own trait `tag`: the handlers registered on that target for it
CallsOnTag(st, t) == [h \in Handlers |-> IF t \in st.alive /\ st.cnt[t][h][2] > 0 THEN 1 ELSE 0]
Apply(st, op, t, h, mask) ==
  CASE op = "reg" -> Out([st EXCEPT !.cnt[t][h] = [g \in Graphs |-> IF g \in GraphsOf(mask) THEN @[g] + 1 ELSE @[g]]], "", NoCalls)
    \* a removal that cannot remove every graph of the call removes none (failure atomicity across the graphs of one call)
    [] op = "unreg" -> IF \E g \in GraphsOf(mask) : st.cnt[t][h][g] = 0 THEN Out(st, "NotifierNotFound", NoCalls)
                       ELSE Out([st EXCEPT !.cnt[t][h] = [g \in Graphs |-> IF g \in GraphsOf(mask) THEN @[g] - 1 ELSE @[g]]], "", NoCalls)
    [] op = "change" -> Out(st, "", CallsOnChange(st))
    [] op = "changetag" -> Out(st, "", CallsOnTag(st, t))
    \* the target is dropped and collected: its registrations are gone with it, nobody else's
    [] op = "collect" -> Out([st EXCEPT !.alive = @ \ {t}, !.cnt[t] = [x \in Handlers |-> [g \in Graphs |-> 0]]], "", NoCalls)
St0 == [cnt |-> [t \in Targets |-> [h \in Handlers |-> [g \in Graphs |-> 0]]], alive |-> Targets]
=============================================================================
