------------------------------ MODULE RegCount ------------------------------
(***************************************************************************)
(* Registrations of observe() on SEVERAL observed objects that share a     *)
(* downstream object (property C09: "registering the same handler /        *)
(* expression / dispatch n times and unregistering it n times ...").       *)
(* A registration belongs to the object it was made on - that very object, *)
(* whatever it compares equal to.  Targets T1 and T2 are distinct objects  *)
(* that compare EQUAL (value-based __eq__ / __hash__), T3 differs; all     *)
(* three hold the same child, the expression is "child.value".             *)
(*   cnt[t][h]   outstanding registrations of handler h made on target t   *)
(*   alive       targets not yet garbage-collected                         *)
(***************************************************************************)
EXTENDS Integers, FiniteSets, TLC
Targets == {"T1", "T2", "T3"}
Handlers == {"H1", "H2"}
Out(st, exc, calls) == [st |-> st, exc |-> exc, calls |-> calls]
NoCalls == [h \in Handlers |-> 0]
\* a change of the shared child's value: every handler is called once per LIVE target it is registered on (however often
\* it was registered there)
CallsOnChange(st) == [h \in Handlers |-> Cardinality({t \in st.alive : st.cnt[t][h] > 0})]
Apply(st, op, t, h) ==
  CASE op = "reg" -> Out([st EXCEPT !.cnt[t][h] = @ + 1], "", NoCalls)
    [] op = "unreg" -> IF st.cnt[t][h] = 0 THEN Out(st, "NotifierNotFound", NoCalls)
                       ELSE Out([st EXCEPT !.cnt[t][h] = @ - 1], "", NoCalls)
    [] op = "change" -> Out(st, "", CallsOnChange(st))
    \* the target is dropped and collected: its registrations are gone with it, nobody else's
    [] op = "collect" -> Out([st EXCEPT !.alive = @ \ {t}, !.cnt[t] = [x \in Handlers |-> 0]], "", NoCalls)
St0 == [cnt |-> [t \in Targets |-> [h \in Handlers |-> 0]], alive |-> Targets]
=============================================================================
