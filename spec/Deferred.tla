------------------------------- MODULE Deferred -------------------------------
(***************************************************************************)
(* DelegatesTo / PrototypedFrom (property C11).  A deferring object D with *)
(* the link `par` to one of the candidate delegates P1, P2 (or None), one  *)
(* deferring attribute per prefix style, and a second-level object D2      *)
(* whose attribute q defers to D.b (a chain of two renaming hops).         *)
(***************************************************************************)
EXTENDS Integers, Sequences, FiniteSets, TLC

Cands == {1, 2}                 \* candidate delegates P1, P2;  par = 0: None
Bad == 99                       \* a value the delegate's trait (Int) rejects
Absent == 1000                  \* no local value
\* deferring attribute -> [kind, target name on the delegate]
\*   same name | explicit name | 'pre_*' | '*' with __prefix__ = 'pp_'
\*   da / dpa: given to the deferring OBJECT at run time with add_trait (explicit names) - deferred traits like the others
Attrs == {"a", "b", "c", "e", "pa", "pb", "pc", "pe", "da", "dpa"}
Kind(x) == IF x \in {"a", "b", "c", "e", "da"} THEN "delegate" ELSE "prototype"
Target(x) == CASE x = "a" -> "a" [] x = "b" -> "tb" [] x = "c" -> "pre_c" [] x = "e" -> "pp_e"
               [] x = "pa" -> "pa" [] x = "pb" -> "ptb" [] x = "pc" -> "pre_pc" [] x = "pe" -> "pp_pe"
               [] x = "da" -> "xa" [] x = "dpa" -> "xpa"
Targets == {Target(x) : x \in Attrs}

\* state: [par : 0..2, val : [Cands -> [Targets -> Int]], local : [Attrs -> Int | Absent]]
Linked(st, x) == Kind(x) = "delegate" \/ st.local[x] = Absent
\* what reading D.x returns ("AttributeError" when there is no delegate to defer to)
ReadD(st, x) == IF ~Linked(st, x) THEN st.local[x]
                ELSE IF st.par = 0 THEN -1 ELSE st.val[st.par][Target(x)]          \* -1: the read raises
\* outcome of an operation: [st, exc, calls]: calls = the sequence of NEW values reported to a handler on D.x
Out(st, exc, calls) == [st |-> st, exc |-> exc, calls |-> calls]
\* assignment through the deferring object
SetViaD(st, x, v) ==
  IF st.par = 0 THEN Out(st, "Error", <<>>)                                     \* nothing to validate against
  ELSE IF v = Bad THEN Out(st, "TraitError", <<>>)                               \* validated by the delegate's / prototype's trait
  ELSE IF Kind(x) = "delegate"
       THEN Out([st EXCEPT !.val[st.par][Target(x)] = v], "",
                IF st.val[st.par][Target(x)] # v THEN <<v>> ELSE <<>>)           \* stored into the delegate ONLY
       ELSE Out([st EXCEPT !.local[x] = v], "", IF ReadD(st, x) # v THEN <<v>> ELSE <<>>)
\* assignment on a candidate delegate: reported to D.x handlers iff it is the CURRENT delegate and x is linked
SetOnP(st, p, x, v) ==
  IF v = Bad THEN Out(st, "TraitError", <<>>)
  ELSE Out([st EXCEPT !.val[p][Target(x)] = v], "",
           IF st.par = p /\ Linked(st, x) /\ st.val[p][Target(x)] # v THEN <<v>> ELSE <<>>)
\* assignment on a STRANGER: an object that is not a candidate delegate of D's attributes as D's class declares them (the
\* delegate named by a base-class declaration that the class of D overrides): D neither changes nor hears of it
SetOnStranger(st, x, v) == Out(st, IF v = Bad THEN "TraitError" ELSE "", <<>>)
\* deleting the local value of a prototyped attribute restores the link; deleting a DelegatesTo attribute is
\* forwarded to the delegate, whose attribute reverts to its default (whether the deletion itself notifies is open)
DefaultOnP == 1
DelLocal(st, x) == IF st.par = 0 THEN Out(st, "Error", <<>>)       \* the deferred-to object is resolved first, for both kinds
                   ELSE IF Kind(x) = "prototype" THEN Out([st EXCEPT !.local[x] = Absent], "", <<>>)
                   ELSE Out([st EXCEPT !.val[st.par][Target(x)] = DefaultOnP], "", <<>>)
Swap(st, p) == Out([st EXCEPT !.par = p], "", <<>>)                              \* (whether the swap itself notifies is open)
\* sx = DelegatesTo("spar", "nope"): the target name is NOT declared by the delegate's class, a strict one.  The name
\* is governed by the delegate's rule: writing through sx is rejected and stores nothing anywhere, reading raises
SetViaSx(st) == Out(st, "TraitError", <<>>)
\* chains of two hops from D2: q -> D.b -> par.tb;  q2 -> D.a -> par.a;  q3 -> D.c -> par.pre_c
Via(q) == CASE q = "q" -> "b" [] q = "q2" -> "a" [] q = "q3" -> "c"
ReadQ(st, q) == ReadD(st, Via(q))
SetViaQ(st, q, v) == SetViaD(st, Via(q), v)
=============================================================================
