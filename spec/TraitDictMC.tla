----------------------------- MODULE TraitDictMC -----------------------------
EXTENDS TraitDict
CONSTANTS MaxKeys, MaxPairs
VARIABLES d, modes, last
vars == <<d, modes, last>>

InitKeys == {1, 2, 3}
InitVals == {1, 2}
KArgs == {1, 4, 11, 99, 151}        \* 151: the float 1.0 (equal to the key 1, rejected by a validator)
VArgs == {2, 3, 12, 99}
Modes == {<<"id", "id">>, <<"coerce", "coerce">>, <<"coerce", "id">>, <<"id", "coerce">>}
Pair == KArgs \X VArgs
PairLists == UNION {[1..n -> Pair] : n \in 0..MaxPairs}
OrderedDicts == UNION {{q \in [1..n -> InitKeys \X InitVals] : WellFormed(q)} : n \in 0..MaxKeys}

Init == d \in OrderedDicts /\ modes \in Modes /\ last = [op |-> "init"]

Do(op, a, ps) ==
  LET r == Apply(op, d, modes[1], modes[2], a, ps) IN
  /\ modes[1] = "id" => (a[1] # 151 /\ \A i \in 1..Len(ps) : ps[i][1] # 151)
  /\ d' = r.post
  /\ last' = [op |-> op, a |-> a, ps |-> ps, kvm |-> modes[1], vvm |-> modes[2], pre |-> d,
              post |-> r.post, ret |-> r.ret, excs |-> r.excs,
              kf14 |-> (op = "setdefault" /\ KF14Guard(d, modes[1], modes[2], a[1], a[2]))]
  /\ UNCHANGED modes

\* mapping form of update cannot carry duplicate keys
NoDupKeys(ps) == \A i, j \in 1..Len(ps) : i # j => RawKey(ps[i][1]) # RawKey(ps[j][1])
SetItem    == \E k \in KArgs \cup {2}, v \in VArgs \cup {1} : Do("setitem", <<k, v, 0>>, <<>>)
DelItem    == \E k \in KArgs \cup {2} : Do("delitem", <<k, 0, 0>>, <<>>)
Update     == \E ps \in PairLists, form \in {0, 1} : (form = 1 \/ NoDupKeys(ps)) /\ Do("update", <<form, 0, 0>>, ps)
IOr        == \E ps \in PairLists, form \in {0, 1} : (form = 1 \/ NoDupKeys(ps)) /\ Do("ior", <<form, 0, 0>>, ps)
SetDefault == \E k \in KArgs \cup {2}, v \in VArgs : Do("setdefault", <<k, v, 0>>, <<>>)
Pop        == \E k \in KArgs \cup {2}, h \in {0, 1} : Do("pop", <<k, h, IF h = 1 THEN 3 ELSE 0>>, <<>>)
PopItem    == Do("popitem", <<0, 0, 0>>, <<>>)
Clear      == Do("clear", <<0, 0, 0>>, <<>>)
Construct  == d = <<>> /\ \E ps \in PairLists, form \in {0, 1} : (form = 1 \/ NoDupKeys(ps)) /\ Do("construct", <<form, 0, 0>>, ps)
Copy       == \E k \in {0, 1, 2} : Do("copy", <<k, 0, 0>>, <<>>)

Next == last.op = "init" /\ (SetItem \/ DelItem \/ Update \/ IOr \/ SetDefault \/ Pop \/ PopItem \/ Clear
                             \/ Construct \/ Copy)
Spec == Init /\ [][Next]_vars

IsCase == last.op # "init"
StaysWellFormed == WellFormed(d)
FailureAtomic == IsCase /\ last.excs # {""} /\ "" \notin last.excs => last.post = last.pre
OnlyValidated == /\ modes[1] = "coerce" => Keys(d) \subseteq Valid
                 /\ modes[2] = "coerce" => \A i \in 1..Len(d) : d[i][2] \in Valid
\* the canonical event (what changed, computed from pre/post) satisfies the law and reconstructs pre
Canon(pre, post) ==
  [removed |-> SelectSeq(pre, LAMBDA p : ~Has(post, p[1])),
   added   |-> SelectSeq(post, LAMBDA p : ~Has(pre, p[1])),
   changed |-> SelectSeq(pre, LAMBDA p : Has(post, p[1]) /\ Get(post, p[1]) # p[2])]
LawSatisfiable == IsCase /\ ~DictEq(last.pre, last.post) =>
                    EventsOK(last.pre, <<Canon(last.pre, last.post)>>, last.post)
Reconstructs == IsCase /\ ~DictEq(last.pre, last.post) =>
                    Reconstruct(last.post, Canon(last.pre, last.post)) = AsFn(last.pre)
=============================================================================
