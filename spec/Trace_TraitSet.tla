---------------------------- MODULE Trace_TraitSet ----------------------------
EXTENDS TraitSet, Json, IOUtils
Trace == ndJsonDeserialize(IOEnv.TRACE_FILE)
N == Len(Trace)
VARIABLE i
NB == 64
BSize == (N + NB - 1) \div NB
Init == i = 0
Next == \/ i = 0 /\ i' \in {-b : b \in 1..NB}
        \/ i < 0 /\ i' \in (((-i) - 1) * BSize + 1)..(IF (-i) * BSize < N THEN (-i) * BSize ELSE N)
Spec == Init /\ [][Next]_i
S(q) == {q[k] : k \in 1..Len(q)}
SS(qs) == [k \in 1..Len(qs) |-> S(qs[k])]
Outcome(c, r) ==
     (IF c.exc \in r.excs THEN {} ELSE {"exception"})
     \cup (IF S(c.post) = r.post THEN {} ELSE {"contents"})
     \cup (IF c.ret = r.ret THEN {} ELSE {"return"})
Clauses(c) ==
  LET pre == S(c.pre)  As == SS(c.args)
      r  == Apply(c.op, pre, c.vm, c.a, As, c.ret)
      kf == IsXor(c.op) /\ KF15Guard(pre, c.vm, As[1])
      o1 == Outcome(c, r)
      o2 == IF kf THEN Outcome(c, OpSymDiff_KF15(pre, c.vm, As[1])) ELSE o1
      kf24 == c.op = "copyadd" /\ KF24Guard(c.a)
      o3 == IF kf24 THEN Outcome(c, OpAdd(pre, "id", c.a[2])) ELSE o1
      evs == [k \in 1..Len(c.evs) |-> [removed |-> S(c.evs[k].removed), added |-> S(c.evs[k].added)]]
  IN (IF o1 = {} THEN {} ELSE IF kf /\ o2 = {} THEN {"KF15"} ELSE IF kf24 /\ o3 = {} THEN {"KF24"} ELSE o1)
     \* the exception class of the builtin set on the same (validated) arguments is one the specification allows
     \cup (IF "bexc" \notin DOMAIN c \/ c.bexc = "" \/ c.bexc \in r.excs THEN {} ELSE {"spec-vs-builtin-exception"})
     \cup (IF "suite" \in DOMAIN c \/ S(c.builtin) = r.post THEN {} ELSE {"spec-vs-builtin-set"})   \* (test-suite records carry no builtin twin)
     \cup (IF (IF c.op \in {"construct", "copyadd"} THEN c.evs = <<>> ELSE EventsOK(pre, evs, S(c.post)))
           THEN {} ELSE {"event-law"})
Judge == i <= 0 \/ LET f == Clauses(Trace[i]) IN IF f = {} THEN TRUE ELSE PrintT(<<"REJECT", i, f>>)
AllJudged == TLCGet("distinct") = N + NB + 1
=============================================================================
