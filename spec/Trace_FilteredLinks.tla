------------------------- MODULE Trace_FilteredLinks -------------------------
EXTENDS FilteredLinks, Sequences, Json, IOUtils
Trace == ndJsonDeserialize(IOEnv.TRACE_FILE)
N == Len(Trace)
VARIABLE i
NB == 64
BSize == (N + NB - 1) \div NB
Init == i = 0
Next == \/ i = 0 /\ i' \in {-b : b \in 1..NB}
        \/ i < 0 /\ i' \in (((-i) - 1) * BSize + 1)..(IF (-i) * BSize < N THEN (-i) * BSize ELSE N)
Spec == Init /\ [][Next]_i
StOf(c) == [t |-> [k \in 1..3 |-> c.pre.t[k]], has3 |-> c.pre.has3 = 1, reg |-> c.pre.reg]
Clauses(c) ==
  LET r == Apply(StOf(c), c.op, c.k, c.c) IN
     (IF c.exc = r.exc THEN {} ELSE {"C08-outcome"})
     \cup (IF c.calls = r.calls THEN {} ELSE {"C08-calls-during-step"})
     \cup (IF \A x \in Children : c.probe[x] = Probe(r.st)[x] THEN {} ELSE {"C08-reachability-probe"})
Judge == i <= 0 \/ LET f == Clauses(Trace[i]) IN IF f = {} THEN TRUE ELSE PrintT(<<"REJECT", i, f>>)
AllJudged == TLCGet("distinct") = N + NB + 1
=============================================================================
