-------------------------- MODULE Trace_ArrayTrait --------------------------
(* Judge of recorded assignments to real Array / CArray / ArrayOrNone traits built from the configuration *)
EXTENDS ArrayTrait, Json, IOUtils
Trace == ndJsonDeserialize(IOEnv.TRACE_FILE)
N == Len(Trace)
VARIABLE i
NB == 64
BSize == (N + NB - 1) \div NB
Init == i = 0
Next == \/ i = 0 /\ i' \in {-b : b \in 1..NB}
        \/ i < 0 /\ i' \in (((-i) - 1) * BSize + 1)..(IF (-i) * BSize < N THEN (-i) * BSize ELSE N)
Spec == Init /\ [][Next]_i
Clauses(c) ==
  IF c.a.tag = "nodef" THEN {"default-refused-by-its-own-trait"} ELSE     \* (the class could not even be defined)
  LET r == Py(c.cfg, c.v) IN
     (IF c.a.tag # r.tag THEN {"assign-outcome"}
      ELSE IF r.tag = "store" /\ c.a.w # r.w THEN {"assign-value"}
      ELSE IF r.tag = "store" /\ c.a.same # r.same THEN {"assign-identity"}
      ELSE IF r.tag = "store" /\ c.a.eq # r.eq THEN {"assign-contents"} ELSE {})
     \* C01 on the observed value itself, whatever the transcription says
     \cup (IF c.a.tag = "store" /\ ~InDomain(c.cfg, c.a.w) THEN {"C01-stored-outside-domain"} ELSE {})
     \cup (IF c.a.tag = "prop" THEN {"C01-foreign-exception"} ELSE {})
     \cup (IF c.a.tag # "store" /\ c.frame = 0 THEN {"C01-failed-assignment-had-effect"} ELSE {})
     \cup (IF c.a.tag = "store" /\ c.frame = 0 THEN {"C01-other-attribute-changed"} ELSE {})
     \cup (IF c.a.tag = "reject" /\ c.msg = 0 THEN {"C01-error-does-not-name-attribute"} ELSE {})
     \* the documented default: zeros(min(shape)), in the domain, computed once per instance, not shared
     \cup (IF c.d.w # Default(c.cfg) THEN {"default-value"} ELSE {})
     \cup (IF ~InDomain(c.cfg, c.d.w) THEN {"C01-default-outside-domain"} ELSE {})
     \cup (IF c.d.zero = 0 THEN {"default-not-zeros"} ELSE {})
     \cup (IF c.d.stable = 0 \/ c.d.fresh = 0 THEN {"default-identity"} ELSE {})
Judge == i <= 0 \/ LET f == Clauses(Trace[i]) IN IF f = {} THEN TRUE ELSE PrintT(<<"REJECT", i, f>>)
AllJudged == TLCGet("distinct") = N + NB + 1
=============================================================================
