-------------------------------- MODULE Notify --------------------------------
(***************************************************************************)
(* Change notification of one HasTraits attribute (property C02), written  *)
(* as the code is structured: the C pre-filter of setattr_trait (identity, *)
(* or always for comparison mode none), then each mechanism's own filter   *)
(* (static / on_trait_change wrappers: `old != new`; observe:              *)
(* `old == new`), exceptions of handlers contained.  The property          *)
(* (IsChange, ExactlyOnce) is stated separately and checked by TLC.        *)
(***************************************************************************)
EXTENDS Integers, Sequences, FiniteSets, TLC

\* ---- value tokens with their identity / equality structure
\* v1e is equal to v1 but a different object; nanA, nanB are two NaN objects; er is an object whose
\* == and != raise; dflt is the declared default; bad is rejected by the typed trait;
\* undef is traits' Undefined (old value reported by Event traits); unset: never assigned nor read
\* arrA, arrB: numpy arrays with two elements: == / != return an array whose truth value raises
Tokens == {"v1", "v1e", "v2", "nanA", "nanB", "er", "arrA", "arrB", "none", "dflt", "bad"}
Raiser(a) == a \in {"er", "arrA", "arrB"}
EqClass(a) == IF a \in {"v1", "v1e"} THEN "v1" ELSE a
IsNaN(a) == a \in {"nanA", "nanB"}
PyEq(a, b) == IF Raiser(a) \/ Raiser(b) THEN (IF a = b THEN "true" ELSE "raises")    \* `is` shortcut does not apply to ==: see note
              ELSE IF IsNaN(a) \/ IsNaN(b) THEN "false"
              ELSE IF EqClass(a) = EqClass(b) THEN "true" ELSE "false"
\* note: for two *different* objects Python calls __eq__ / __ne__; for the identical object the C
\* pre-filter has already decided, so PyEq/PyNe of identical tokens is never consulted below.
PyNe(a, b) == IF Raiser(a) \/ Raiser(b) THEN (IF a = b THEN "false" ELSE "raises")
              ELSE IF IsNaN(a) \/ IsNaN(b) THEN "true"
              ELSE IF EqClass(a) = EqClass(b) THEN "false" ELSE "true"

Modes == {"none", "identity", "equality"}
Kinds == {"trait", "event"}
\* static: _x_changed/_x_fired method; any: _anytrait_changed method; dynamic: obj.on_trait_change(h, "x");
\* observe: obj.observe(h, "x"); anydyn: obj.on_trait_change(h) (every trait of the object);
\* decorated: an @observe("x")-decorated method with the magic name _x_changed, defined in a BASE class of the object's class
\* anydyn2: a second obj.on_trait_change(h2) handler (object level, registered after the first)
Mechs == {"static", "any", "dynamic", "observe", "anydyn", "anydyn2", "decorated"}
Dynamic == {"dynamic", "observe", "anydyn", "anydyn2"}          \* registered and removed at run time; the others belong to the class
\* plain: static + any; inherited: decorated (in a base class) + any; bare: no handler methods; wild: as plain, but the
\* attribute is not declared by name: the class declares the wildcard x_ = <trait> and the names x and x2 both fall under it
Shapes == {"plain", "inherited", "bare", "wild"}
ObserveLike(m) == m \in {"observe", "decorated"}
\* who is registered: cfg.shape decides the class-level handlers, regs (a set of Dynamic) the run-time ones
Registered(cfg, regs, m) ==
  CASE m = "static"    -> cfg.shape \in {"plain", "wild"}
    [] m = "decorated" -> cfg.shape = "inherited"
    [] m = "any"       -> cfg.shape # "bare"
    [] OTHER           -> m \in regs
\* as the code is structured: trait-level handlers sit in the (instance) trait's notifier list, object-level ones in the
\* object's list; call_notifiers is guarded by "either list is non-empty".  The trait's list, once created for a dynamic
\* handler, stays (empty) after the handler is removed: `mat`.  None of this may influence who is called.
TraitLevel == {"static", "dynamic", "observe", "decorated"}
ObjectLevel == {"any", "anydyn", "anydyn2"}
HasNotifiers(cfg, regs) == \E m \in Mechs : Registered(cfg, regs, m)

\* ---- the property's notion of change (the statement of C02)
IsChange(mode, old, new) ==
  CASE mode = "none"     -> TRUE
    [] mode = "identity" -> old # new
    [] mode = "equality" -> old # new /\ PyNe(old, new) \in {"true", "raises"}

\* ---- the code's structure
CPass(mode, old, new) == mode = "none" \/ old # new                                  \* setattr_trait
WrapperAccepts(mode, old, new) ==                                                    \* _change_accepted
  mode # "equality" \/ PyNe(old, new) \in {"true", "raises"}
ObservePrevents(mode, old, new) == mode = "equality" /\ PyEq(old, new) = "true"      \* ctrait_prevent_event
Fires(mech, mode, old, new) ==
  CPass(mode, old, new) /\ (IF ObserveLike(mech) THEN ~ObservePrevents(mode, old, new)
                            ELSE WrapperAccepts(mode, old, new))

Readable(val) == IF val = "unset" THEN "dflt" ELSE val

\* outcome of an operation: [val (new stored value or "unset"), exc, calls (per mechanism: sequence of <<old, new>>)]
NoCalls == [m \in Mechs |-> <<>>]
Out(val, exc, calls) == [val |-> val, exc |-> exc, calls |-> calls]

\* cfg = [mode, kind, typed, shape]; raising handlers do not matter for who is called: exceptions are contained
Calls(cfg, regs, f(_)) == [m \in Mechs |-> IF Registered(cfg, regs, m) /\ HasNotifiers(cfg, regs) THEN f(m) ELSE <<>>]
Assign(cfg, val, v, regs) ==
  IF cfg.typed /\ v = "bad" THEN Out(val, "TraitError", NoCalls)
  ELSE IF cfg.kind = "event" THEN Out(val, "", Calls(cfg, regs, LAMBDA m : <<<<"undef", v>>>>))      \* every assignment, old Undefined
  ELSE LET old == Readable(val) IN
       Out(v, "", Calls(cfg, regs, LAMBDA m : IF Fires(m, cfg.mode, old, v) THEN <<<<old, v>>>> ELSE <<>>))
\* reading: the first read of a never-assigned attribute materialises the default, silently
Read(cfg, val) ==
  IF cfg.kind = "event" THEN Out(val, "AttributeError", NoCalls)
  ELSE Out(Readable(val), "", NoCalls)
\* del obj.x: the attribute reverts to its default; reported like an assignment of the default
Delete(cfg, val, regs) ==
  IF cfg.kind = "event" \/ val = "unset" THEN Out(val, "", NoCalls)
  ELSE Out("dflt", "", Calls(cfg, regs, LAMBDA m : IF Fires(m, cfg.mode, val, "dflt") THEN <<<<val, "dflt">>>> ELSE <<>>))
\* obj.trait_setq(x=v) / trait_set(trait_change_notify=False, x=v): stores without telling anybody; a rejected value
\* raises and - like everything here - leaves the object notifying as before (the next operations are judged as usual)
SetQuiet(cfg, val, v) ==
  IF cfg.typed /\ v = "bad" THEN Out(val, "TraitError", NoCalls)
  ELSE IF cfg.kind = "event" THEN Out(val, "", NoCalls)
  ELSE Out(v, "", NoCalls)
\* obj.trait_setq(x=v, y=<rejected>): a series of quiet assignments, the second one fails
SetQuietThenReject(cfg, val, v) ==
  LET r == SetQuiet(cfg, val, v) IN Out(r.val, "TraitError", NoCalls)

\* "assign1": an assignment while every run-time handler is ONE-SHOT (it removes its own registration when it is called).
\* Who is called is decided when the assignment is made: a handler unregistering itself (or another) during the
\* notification takes nobody's call away.
Apply(op, cfg, val, v, regs) ==
  CASE op \in {"assign", "assign1"} -> Assign(cfg, val, v, regs)
    [] op = "read"   -> Read(cfg, val)
    [] op = "delete" -> Delete(cfg, val, regs)
    [] op = "setq"   -> SetQuiet(cfg, val, v)
    [] op = "setq2"  -> SetQuietThenReject(cfg, val, v)
    [] op \in {"reg", "unreg"} -> Out(val, "", NoCalls)       \* registration itself calls nobody and changes nothing
\* registration state after the operation (v names the mechanism for reg / unreg)
RegsAfter(op, regs, v) == IF op = "reg" THEN regs \cup {v} ELSE IF op = "unreg" THEN regs \ {v} ELSE regs
\* ... and after a one-shot assignment the run-time handlers that were called are gone
RegsAfterCalls(op, regs, v, calls) ==
  IF op = "assign1" THEN regs \ {m \in Dynamic : calls[m] # <<>>} ELSE RegsAfter(op, regs, v)
=============================================================================
