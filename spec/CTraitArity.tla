----------------------------- MODULE CTraitArity -----------------------------
(* One state per call _trait_set_property(get, get_n, set, set_n, validate | None, validate_n) over arities -1..6:     *)
(* acc = the arity guard of CTraitTables.tla.  The C18 driver makes every call on the real CTrait in a forked child:     *)
(* accepted iff acc, refused with ValueError otherwise - never a crash.                                                  *)
EXTENDS CTraitTables
VARIABLES c, acc
Init2 == c \in ArityCases /\ acc = ArityGuard(c[1], c[2], c[3], c[4]) /\ h = Kind(0) /\ st = GetState(h)
Next2 == UNCHANGED <<c, acc, h, st>>
Spec2 == Init2 /\ [][Next2]_<<c, acc, h, st>>
=============================================================================
