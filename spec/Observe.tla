------------------------------- MODULE Observe -------------------------------
(***************************************************************************)
(* The observe framework, declaratively (properties C08, C09, C12, C16).   *)
(* A pool of HasTraits objects 1..NObj (0 = None) linked by                *)
(*   child : Instance   kids : List(Instance)   d : Dict(CStr, Instance)   *)
(*   s : Set(Instance)  dl : Dict(CStr, List(Instance)) (nested container) *)
(* a leaf trait value, and a dynamic leaf trait `extra` that add_trait     *)
(* gives to individual objects at run time.  Object NoVal (if > 0) is of a class WITHOUT    *)
(* the trait `value` (registration failures).                              *)
(* An expression denotes a set of paths (as in ObserveDSL); a path is a    *)
(* sequence of steps [k, n, notify].  Reach computes FROM SCRATCH which    *)
(* observables an expression covers in a heap; a change calls a handler    *)
(* once iff it hits a notifying observable of one of its registrations.    *)
(***************************************************************************)
EXTENDS Integers, Sequences, FiniteSets, TLC
L == INSTANCE TraitList
D == INSTANCE TraitDict
TS == INSTANCE TraitSet

CONSTANTS NObj, NoVal
Obj == 1..NObj
NoneO == 0
Root == 1

\* ---- expressions: the catalogue (bound to the real parser by the harness: compile_str(text) must
\* project to exactly these paths)
T(n, nf) == [k |-> "trait", n |-> n, notify |-> nf]
I(nf)    == [k |-> "items", n |-> "", notify |-> nf]
M(nf)    == [k |-> "meta", n |-> "tracked", notify |-> nf]     \* +tracked: the traits carrying that metadata (child)
ML(nf)   == [k |-> "meta", n |-> "ltracked", notify |-> nf]    \* +ltracked: kids
A(nf)    == [k |-> "any", n |-> "", notify |-> nf]             \* *
\* list_items() as written with the expression API, NOT optional: the value must be a list (registration and removal
\* raise where it is not).  The text form "items" is always optional.
LI(nf)   == [k |-> "litems", n |-> "", notify |-> nf]
Paths(e) ==
  CASE e = "value"                    -> {<<T("value", TRUE)>>}
    [] e = "child.value"              -> {<<T("child", TRUE), T("value", TRUE)>>}
    [] e = "child:value"              -> {<<T("child", FALSE), T("value", TRUE)>>}
    [] e = "child.child.value"        -> {<<T("child", TRUE), T("child", TRUE), T("value", TRUE)>>}
    [] e = "kids.items.value"         -> {<<T("kids", TRUE), I(TRUE), T("value", TRUE)>>}
    [] e = "kids:items:value"         -> {<<T("kids", FALSE), I(FALSE), T("value", TRUE)>>}
    [] e = "kids:items.value"         -> {<<T("kids", FALSE), I(TRUE), T("value", TRUE)>>}
    [] e = "child.kids.items.value"   -> {<<T("child", TRUE), T("kids", TRUE), I(TRUE), T("value", TRUE)>>}
    [] e = "[child,kids.items].value" -> {<<T("child", TRUE), T("value", TRUE)>>, <<T("kids", TRUE), I(TRUE), T("value", TRUE)>>}
    [] e = "kids.items.child.value"   -> {<<T("kids", TRUE), I(TRUE), T("child", TRUE), T("value", TRUE)>>}
    [] e = "d.items.value"            -> {<<T("d", TRUE), I(TRUE), T("value", TRUE)>>}
    [] e = "child.d:items.value"      -> {<<T("child", TRUE), T("d", FALSE), I(TRUE), T("value", TRUE)>>}
    [] e = "+tracked.value"           -> {<<M(TRUE), T("value", TRUE)>>}
    [] e = "+tracked:kids.items"      -> {<<M(FALSE), T("kids", TRUE), I(TRUE)>>}
    [] e = "+ltracked:items.value"    -> {<<ML(FALSE), I(TRUE), T("value", TRUE)>>}
    [] e = "child.*"                  -> {<<T("child", TRUE), A(TRUE)>>}
    [] e = "kids.items"               -> {<<T("kids", TRUE), I(TRUE)>>}
    [] e = "d.items"                  -> {<<T("d", TRUE), I(TRUE)>>}
    [] e = "child"                    -> {<<T("child", TRUE)>>}
    [] e = "s.items.value"            -> {<<T("s", TRUE), I(TRUE), T("value", TRUE)>>}
    [] e = "s.items"                  -> {<<T("s", TRUE), I(TRUE)>>}
    [] e = "child.s:items.value"      -> {<<T("child", TRUE), T("s", FALSE), I(TRUE), T("value", TRUE)>>}
    [] e = "dl.items.items.value"     -> {<<T("dl", TRUE), I(TRUE), I(TRUE), T("value", TRUE)>>}
    [] e = "dl.items.items"           -> {<<T("dl", TRUE), I(TRUE), I(TRUE)>>}
    \* box : Union(List(Instance), Int) - holds a list or the int 5; observed through the expression API
    [] e = "box!items.value"          -> {<<T("box", TRUE), LI(TRUE), T("value", TRUE)>>}
    [] e = "box!items"                -> {<<T("box", TRUE), LI(TRUE)>>}
    [] e = "csnap"                    -> {<<T("csnap", TRUE)>>}       \* observed properties of the root (C12)
    [] e = "chv"                      -> {<<T("chv", TRUE)>>}
    [] e = "cfirst"                   -> {<<T("cfirst", TRUE)>>}
    [] e = "dlsnap"                   -> {<<T("dlsnap", TRUE)>>}
Exprs == {"csnap", "chv", "cfirst", "dlsnap", "d.items", "kids:items.value", "value", "child.value", "child:value", "child.child.value", "kids.items.value", "kids:items:value",
          "child.kids.items.value", "[child,kids.items].value", "kids.items.child.value", "d.items.value",
          "child.d:items.value", "+tracked.value", "+tracked:kids.items", "+ltracked:items.value", "child.*", "kids.items",
          "child", "s.items.value", "s.items", "child.s:items.value", "dl.items.items.value", "dl.items.items",
          "box!items.value", "box!items"}

\* (and box : [Obj -> Seq(Obj)], boxi : [Obj -> 0..1] - 1: box holds the int)
\* ---- heap: [child : [Obj -> 0..NObj], kids : [Obj -> Seq(Obj)], d : [Obj -> pair sequence key -> Obj], vals,
\*              s : [Obj -> SUBSET Obj], dl : [Obj -> pair sequence key -> Seq(Obj)], hasx : [Obj -> 0..1], xv : [Obj -> Nat]]
SeqSet(q) == {q[i] : i \in 1..Len(q)}
DVals(dd) == {dd[i][2] : i \in 1..Len(dd)}
DKeys(dd) == {dd[i][1] : i \in 1..Len(dd)}
DLGet(dd, k) == dd[CHOOSE i \in 1..Len(dd) : dd[i][1] = k][2]
DLMembers(dd) == UNION {SeqSet(dd[i][2]) : i \in 1..Len(dd)}
\* (trait_added: the Event every HasTraits object fires when add_trait gives it a new trait; `*` matches it like any trait,
\* and it is how a `*` registration learns about traits added later)
StaticNames == {"child", "kids", "d", "value", "s", "dl", "trait_added", "box"}
TraitNamesOf(h, x) == StaticNames \cup (IF h.hasx[x] = 1 THEN {"extra"} ELSE {})
HasTrait(h, x, n) == (n = "value" => x # NoVal) /\ (n = "extra" => h.hasx[x] = 1)
TrackedBy(md) == IF md = "tracked" THEN {"child"} ELSE IF md = "ltracked" THEN {"kids"} ELSE {}

\* things at a level: <<"o", x>> an object, <<"l", x>> the kids list of x, <<"m", x>> the dict d of x, <<"s", x>> the set s of x,
\*   <<"M", x>> the dict dl of x, <<"L", 100 * x + k>> the list stored under key k in the dict dl of x
\* observables: <<"trait", x, n>> the trait n of object x; a container thing itself stands for its items
Inner(x, k) == <<"L", 100 * x + k>>
NamesOf(h, th, st) == IF st.k = "trait" THEN {st.n} ELSE IF st.k = "meta" THEN TrackedBy(st.n)
                      ELSE IF st.k = "any" THEN TraitNamesOf(h, th[2]) ELSE {}
\* the observables step st contributes from thing th (whether they exist at all is FailsAt's business)
ObsOf(h, th, st) ==
  IF th[1] = "o" THEN {<<"trait", th[2], n>> : n \in {m \in NamesOf(h, th, st) : HasTrait(h, th[2], m)}}
  ELSE IF st.k \in {"items", "litems"} /\ ~(th[1] = "b" /\ h.boxi[th[2]] = 1) THEN {th} ELSE {}
\* the things one level further
NextOf(h, th, st) ==
  IF th[1] = "o"
  THEN LET x == th[2] IN
       UNION {CASE n = "child" -> IF h.child[x] = NoneO THEN {} ELSE {<<"o", h.child[x]>>}
                [] n = "kids"  -> {<<"l", x>>}
                [] n = "d"     -> {<<"m", x>>}
                [] n = "s"     -> {<<"s", x>>}
                [] n = "dl"    -> {<<"M", x>>}
                [] n = "box"   -> {<<"b", x>>}
                [] OTHER       -> {}
              : n \in NamesOf(h, th, st)}
  ELSE IF st.k \notin {"items", "litems"} THEN {}
  ELSE IF th[1] = "b" THEN (IF h.boxi[th[2]] = 1 THEN {} ELSE {<<"o", y>> : y \in SeqSet(h.box[th[2]])})
  ELSE IF th[1] = "l" THEN {<<"o", y>> : y \in SeqSet(h.kids[th[2]])}
  ELSE IF th[1] = "m" THEN {<<"o", y>> : y \in DVals(h.d[th[2]])}
  ELSE IF th[1] = "s" THEN {<<"o", y>> : y \in h.s[th[2]]}
  ELSE IF th[1] = "M" THEN {Inner(th[2], k) : k \in DKeys(h.dl[th[2]])}
  ELSE LET x == th[2] \div 100  k == th[2] % 100 IN {<<"o", y>> : y \in SeqSet(DLGet(h.dl[x], k))}

\* Level(h, p, k): the things the first k steps of path p lead to from the root
RECURSIVE Level(_, _, _)
Level(h, p, k) == IF k = 0 THEN {<<"o", Root>>}
                  ELSE UNION {NextOf(h, th, p[k]) : th \in Level(h, p, k - 1)}
\* all observables of path p, with the notify flag of the step that covers them
Covered(h, p) == UNION {{<<ob, p[k].notify>> : ob \in UNION {ObsOf(h, th, p[k]) : th \in Level(h, p, k - 1)}} : k \in 1..Len(p)}
Notifying(h, e) == {c[1] : c \in {c \in UNION {Covered(h, p) : p \in Paths(e)} : c[2]}}
AllCovered(h, e) == {c[1] : c \in UNION {Covered(h, p) : p \in Paths(e)}}

\* a registration of e fails iff the walk meets an object lacking a required (non-optional) named trait
FailsPath(h, p) == \E k \in 1..Len(p) :
                      \/ p[k].k = "trait" /\ \E th \in Level(h, p, k - 1) : th[1] = "o" /\ ~HasTrait(h, th[2], p[k].n)
                      \* ... or a value that is not a list where list items are required
                      \/ p[k].k = "litems" /\ \E th \in Level(h, p, k - 1) : th[1] = "b" /\ h.boxi[th[2]] = 1
Fails(h, e) == \E p \in Paths(e) : FailsPath(h, p)

\* ---- mutations.  m = [op, x, a, xs, ps]; kids operations are those of TraitList on object numbers,
\* d operations those of TraitDict with coercing keys (11 |-> 1: the int 1 for the key "1")
SameSeq(a, b) == a = b
MutKids(h, m) == L!Apply(m.op, h.kids[m.x], "id", m.a, m.xs)
MutD(h, m) == D!Apply(m.op, h.d[m.x], "coerce", "id", m.a, m.ps)
\* set operations: m.xs the argument items (one argument set); pop is not used (it removes an arbitrary member)
MutS(h, m) == TS!Apply(m.op, h.s[m.x], "id", m.a, <<SeqSet(m.xs)>>, 0)
\* dl: m.a[1] the key (coerced like the keys of d); setitem stores the list m.xs; "dlin": an operation of TraitList on the
\* inner list under key m.a[4] (m.a[1..3] its integer arguments, m.xs its items)
CK(k) == D!V("coerce", k)
DLHas(dd, k) == k \in DKeys(dd)
DLPut(dd, k, q) == IF DLHas(dd, k) THEN [i \in 1..Len(dd) |-> IF dd[i][1] = k THEN <<k, q>> ELSE dd[i]] ELSE Append(dd, <<k, q>>)
DLDel(dd, k) == SelectSeq(dd, LAMBDA p : p[1] # k)
\* (a key that is not there: KeyError, nothing happens)
InnerOK(h, m) == DLHas(h.dl[m.x], m.a[4])
MutInner(h, m) == IF InnerOK(h, m) THEN L!Apply(m.op, DLGet(h.dl[m.x], m.a[4]), "id", <<m.a[1], m.a[2], m.a[3]>>, m.xs)
                  ELSE [post |-> <<>>, ret |-> 0, excs |-> {"KeyError"}]
DLEq(a, b) == DKeys(a) = DKeys(b) /\ \A k \in DKeys(a) : DLGet(a, k) = DLGet(b, k)
Mutate(h, m) ==
  CASE m.t = "child" -> [h EXCEPT !.child[m.x] = m.a[1]]
    [] m.t = "kidsassign" -> [h EXCEPT !.kids[m.x] = m.xs]
    [] m.t = "kids" -> [h EXCEPT !.kids[m.x] = MutKids(h, m).post]
    [] m.t = "dassign" -> [h EXCEPT !.d[m.x] = D!PutAll(<<>>, D!VPairs("coerce", "id", m.ps))]
    [] m.t = "d" -> [h EXCEPT !.d[m.x] = MutD(h, m).post]
    [] m.t = "value" -> [h EXCEPT !.vals[m.x] = @ + 1]
    [] m.t = "sassign" -> [h EXCEPT !.s[m.x] = SeqSet(m.xs)]
    [] m.t = "s" -> [h EXCEPT !.s[m.x] = MutS(h, m).post]
    [] m.t = "dlassign" -> [h EXCEPT !.dl[m.x] = m.ps]                         \* m.ps: <<key, list>> pairs, distinct valid keys
    [] m.t = "dl" -> [h EXCEPT !.dl[m.x] = CASE m.op = "setitem" -> DLPut(@, CK(m.a[1]), m.xs)
                                             [] m.op = "delitem" -> DLDel(@, m.a[1])         \* (absent key: KeyError, no change)
                                             [] m.op = "clear" -> <<>>]
    [] m.t = "dlin" -> IF InnerOK(h, m) THEN [h EXCEPT !.dl[m.x] = DLPut(@, m.a[4], MutInner(h, m).post)] ELSE h
    \* box: whole-value assignment of a list; in-place list operations; the int 5 assigned (m.a[2] = 1: QUIETLY, with
    \* trait_setq - nobody is told, the hooks stay where they were)
    [] m.t = "boxassign" -> [h EXCEPT !.box[m.x] = m.xs, !.boxi[m.x] = 0]
    [] m.t = "box" -> [h EXCEPT !.box[m.x] = L!Apply(m.op, h.box[m.x], "id", m.a, m.xs).post]
    [] m.t = "boxint" -> [h EXCEPT !.box[m.x] = <<>>, !.boxi[m.x] = 1]
    \* del obj.<link> (also reset_traits): the attribute is back at its default - None, a FRESH empty container - which
    \* takes the place of the former value in every observed path
    [] m.t = "del" -> (CASE m.op = "child" -> [h EXCEPT !.child[m.x] = NoneO]
                         [] m.op = "kids"  -> [h EXCEPT !.kids[m.x] = <<>>]
                         [] m.op = "d"     -> [h EXCEPT !.d[m.x] = <<>>]
                         [] m.op = "s"     -> [h EXCEPT !.s[m.x] = {}]
                         [] m.op = "dl"    -> [h EXCEPT !.dl[m.x] = <<>>])
    [] m.t = "addx" -> [h EXCEPT !.hasx[m.x] = 1]                              \* add_trait("extra", ...) on object m.x
    [] m.t = "xv" -> [h EXCEPT !.xv[m.x] = @ + 1]                              \* obj.extra += 1
\* the observable a mutation hits, and whether it is a real change (must notify) / may notify
Hit(m) == CASE m.t = "child" -> <<"trait", m.x, "child">> [] m.t = "kidsassign" -> <<"trait", m.x, "kids">>
            [] m.t = "kids" -> <<"l", m.x>> [] m.t = "dassign" -> <<"trait", m.x, "d">> [] m.t = "d" -> <<"m", m.x>>
            [] m.t = "value" -> <<"trait", m.x, "value">>
            [] m.t = "sassign" -> <<"trait", m.x, "s">> [] m.t = "s" -> <<"s", m.x>>
            [] m.t = "dlassign" -> <<"trait", m.x, "dl">> [] m.t = "dl" -> <<"M", m.x>> [] m.t = "dlin" -> Inner(m.x, m.a[4])
            [] m.t = "addx" -> <<"trait", m.x, "trait_added">>
            [] m.t = "xv" -> <<"trait", m.x, "extra">>
            [] m.t = "del" -> <<"trait", m.x, m.op>>
            [] m.t \in {"boxassign", "boxint"} -> <<"trait", m.x, "box">> [] m.t = "box" -> <<"b", m.x>>
IsChange(h, m) ==
  CASE m.t = "child" -> TRUE                                     \* comparison mode none: every assignment
    [] m.t = "kidsassign" -> h.kids[m.x] # m.xs                   \* equality mode: an equal list is no change
    [] m.t = "kids" -> MutKids(h, m).post # h.kids[m.x]
    [] m.t = "dassign" -> ~D!DictEq(h.d[m.x], Mutate(h, m).d[m.x])
    [] m.t = "d" -> ~D!DictEq(h.d[m.x], MutD(h, m).post)
    [] m.t = "value" -> TRUE
    [] m.t = "sassign" -> TRUE                                    \* identity mode: another set object, equal or not, is a change
    [] m.t = "s" -> MutS(h, m).post # h.s[m.x]
    [] m.t = "dlassign" -> ~DLEq(h.dl[m.x], m.ps)
    [] m.t = "dl" -> ~DLEq(h.dl[m.x], Mutate(h, m).dl[m.x])
    [] m.t = "dlin" -> InnerOK(h, m) /\ MutInner(h, m).post # DLGet(h.dl[m.x], m.a[4])
    [] m.t = "addx" -> TRUE                     \* an Event: every firing is a change
    [] m.t = "xv" -> TRUE
    [] m.t = "boxassign" -> h.boxi[m.x] = 1 \/ h.box[m.x] # m.xs
    [] m.t = "box" -> L!Apply(m.op, h.box[m.x], "id", m.a, m.xs).post # h.box[m.x]
    [] m.t = "boxint" -> h.boxi[m.x] = 0 /\ m.a[2] = 0
    \* a deletion is a change from the former value to the default (whether deleting a value equal to the default
    \* notifies is left open)
    [] m.t = "del" -> (CASE m.op = "child" -> h.child[m.x] # NoneO [] m.op = "kids" -> h.kids[m.x] # <<>>
                         [] m.op = "d" -> h.d[m.x] # <<>> [] m.op = "s" -> h.s[m.x] # {} [] m.op = "dl" -> h.dl[m.x] # <<>>)
\* container operations that change nothing may still emit an identity event (C05/C06 leave it open)
\* (sets: operations that change nothing are silent - C07; storing an equal list under an existing key of dl is a dict event)
MayNotify(h, m) == IsChange(h, m) \/ (m.t \in {"kids", "d"} /\ (IF m.t = "kids" THEN MutKids(h, m) ELSE MutD(h, m)).excs = {""})
                   \/ (m.t = "dl" /\ m.op = "setitem") \/ (m.t = "dlin" /\ MutInner(h, m).excs = {""})
                   \/ m.t = "del" \/ (m.t = "box" /\ L!Apply(m.op, h.box[m.x], "id", m.a, m.xs).excs = {""})

\* ---- observed properties (C12): name -> dependency expression; value computed from the heap
\* cfirst: a CACHED property whose value is None (-2 here) while the root has no child - "not computed yet" and
\* "computed: None" are different things
\* dlsnap: a cached property over the nested container (the keys of dl with the lists stored under them)
Props == {"csnap", "chv", "cfirst", "dlsnap"}
CachedProps == {"csnap", "cfirst", "dlsnap"}
DepOf(p) == IF p = "csnap" THEN "kids.items.value" ELSE IF p = "dlsnap" THEN "dl.items.items" ELSE "child.value"
ValOf(h, x) == IF x = NoVal THEN -1 ELSE h.vals[x]
PropValue(h, p) == IF p = "csnap" THEN [i \in 1..Len(h.kids[Root]) |-> <<h.kids[Root][i], ValOf(h, h.kids[Root][i])>>]
                   ELSE IF p = "dlsnap" THEN h.dl[Root]
                   ELSE IF p = "cfirst" THEN (IF h.child[Root] = NoneO THEN <<-2>> ELSE <<ValOf(h, h.child[Root])>>)
                   ELSE IF h.child[Root] = NoneO THEN <<>> ELSE <<h.child[Root], ValOf(h, h.child[Root])>>
\* a mutation is relevant to a property iff it hits an observable its dependency expression covers with notify
Relevant(h, p, m) == Hit(m) \in Notifying(h, DepOf(p))

\* expected call of a handler registered for e, during mutation m from heap h
Called(h, e, m) == Hit(m) \in Notifying(h, e)
\* ... and through a property: the dependency change is announced as a change of the property itself
CalledViaProp(h, e, m) == e \in Props /\ Relevant(h, e, m)

\* ---- known finding F8 (found by TLC on ObserveImpl.tla): a link of an object that lies on a cycle of the
\* heap is mutated - the maintainers' removal walk from the old value re-reads the object's new link
Succs(h, x) == (IF h.child[x] = NoneO THEN {} ELSE {h.child[x]}) \cup SeqSet(h.kids[x]) \cup DVals(h.d[x])
               \cup h.s[x] \cup DLMembers(h.dl[x]) \cup SeqSet(h.box[x])
RECURSIVE Closure(_, _)
Closure(h, Q) == LET Q2 == Q \cup UNION {Succs(h, x) : x \in Q} IN IF Q2 = Q THEN Q ELSE Closure(h, Q2)
OnCycle(h, x) == x \in Closure(h, Succs(h, x))
=============================================================================
