------------------------------- MODULE Observe -------------------------------
(***************************************************************************)
(* The observe framework, declaratively (properties C08, C09, C12, C16).   *)
(* A pool of HasTraits objects 1..NObj (0 = None) linked by                *)
(*   child : Instance   kids : List(Instance)   d : Dict(CStr, Instance)   *)
(* and a leaf trait value.  Object NoVal (if > 0) is of a class WITHOUT    *)
(* the trait `value` (registration failures).                              *)
(* An expression denotes a set of paths (as in ObserveDSL); a path is a    *)
(* sequence of steps [k, n, notify].  Reach computes FROM SCRATCH which    *)
(* observables an expression covers in a heap; a change calls a handler    *)
(* once iff it hits a notifying observable of one of its registrations.    *)
(***************************************************************************)
EXTENDS Integers, Sequences, FiniteSets, TLC
L == INSTANCE TraitList
D == INSTANCE TraitDict

CONSTANTS NObj, NoVal
Obj == 1..NObj
NoneO == 0
Root == 1

\* ---- expressions: the catalogue (bound to the real parser by the harness: compile_str(text) must
\* project to exactly these paths)
T(n, nf) == [k |-> "trait", n |-> n, notify |-> nf]
I(nf)    == [k |-> "items", n |-> "", notify |-> nf]
M(nf)    == [k |-> "meta", n |-> "tracked", notify |-> nf]     \* +tracked: the traits carrying that metadata (child)
ML(nf)   == [k |-> "meta", n |-> "ltracked", notify |-> nf]    \* +ltracked: kids
A(nf)    == [k |-> "any", n |-> "", notify |-> nf]             \* *
Paths(e) ==
  CASE e = "value"                    -> {<<T("value", TRUE)>>}
    [] e = "child.value"              -> {<<T("child", TRUE), T("value", TRUE)>>}
    [] e = "child:value"              -> {<<T("child", FALSE), T("value", TRUE)>>}
    [] e = "child.child.value"        -> {<<T("child", TRUE), T("child", TRUE), T("value", TRUE)>>}
    [] e = "kids.items.value"         -> {<<T("kids", TRUE), I(TRUE), T("value", TRUE)>>}
    [] e = "kids:items:value"         -> {<<T("kids", FALSE), I(FALSE), T("value", TRUE)>>}
    [] e = "kids:items.value"         -> {<<T("kids", FALSE), I(TRUE), T("value", TRUE)>>}
    [] e = "child.kids.items.value"   -> {<<T("child", TRUE), T("kids", TRUE), I(TRUE), T("value", TRUE)>>}
    [] e = "[child,kids.items].value" -> {<<T("child", TRUE), T("value", TRUE)>>, <<T("kids", TRUE), I(TRUE), T("value", TRUE)>>}
    [] e = "kids.items.child.value"   -> {<<T("kids", TRUE), I(TRUE), T("child", TRUE), T("value", TRUE)>>}
    [] e = "d.items.value"            -> {<<T("d", TRUE), I(TRUE), T("value", TRUE)>>}
    [] e = "child.d:items.value"      -> {<<T("child", TRUE), T("d", FALSE), I(TRUE), T("value", TRUE)>>}
    [] e = "+tracked.value"           -> {<<M(TRUE), T("value", TRUE)>>}
    [] e = "+tracked:kids.items"      -> {<<M(FALSE), T("kids", TRUE), I(TRUE)>>}
    [] e = "+ltracked:items.value"    -> {<<ML(FALSE), I(TRUE), T("value", TRUE)>>}
    [] e = "child.*"                  -> {<<T("child", TRUE), A(TRUE)>>}
    [] e = "kids.items"               -> {<<T("kids", TRUE), I(TRUE)>>}
    [] e = "d.items"                  -> {<<T("d", TRUE), I(TRUE)>>}
    [] e = "child"                    -> {<<T("child", TRUE)>>}
    [] e = "csnap"                    -> {<<T("csnap", TRUE)>>}       \* observed properties of the root (C12)
    [] e = "chv"                      -> {<<T("chv", TRUE)>>}
Exprs == {"csnap", "chv", "d.items", "kids:items.value", "value", "child.value", "child:value", "child.child.value", "kids.items.value", "kids:items:value",
          "child.kids.items.value", "[child,kids.items].value", "kids.items.child.value", "d.items.value",
          "child.d:items.value", "+tracked.value", "+tracked:kids.items", "+ltracked:items.value", "child.*", "kids.items",
          "child"}

\* ---- heap: [child : [Obj -> 0..NObj], kids : [Obj -> Seq(Obj)], d : [Obj -> pair sequence key -> Obj]]
SeqSet(q) == {q[i] : i \in 1..Len(q)}
DVals(dd) == {dd[i][2] : i \in 1..Len(dd)}
TraitNames == {"child", "kids", "d", "value"}
HasTrait(x, n) == n # "value" \/ x # NoVal
TrackedBy(md) == IF md = "tracked" THEN {"child"} ELSE IF md = "ltracked" THEN {"kids"} ELSE {}

\* things at a level: <<"o", x>> an object, <<"l", x>> the kids list of x, <<"m", x>> the dict d of x
\* observables: <<"trait", x, n>> the trait n of object x; <<"l", x>> / <<"m", x>> the items of a container
NamesOf(st) == IF st.k = "trait" THEN {st.n} ELSE IF st.k = "meta" THEN TrackedBy(st.n) ELSE IF st.k = "any" THEN TraitNames ELSE {}
\* the observables step st contributes from thing th (whether they exist at all is FailsAt's business)
ObsOf(h, th, st) ==
  IF th[1] = "o" THEN {<<"trait", th[2], n>> : n \in {m \in NamesOf(st) : HasTrait(th[2], m)}}
  ELSE IF st.k = "items" THEN {th} ELSE {}
\* the things one level further
NextOf(h, th, st) ==
  IF th[1] = "o"
  THEN LET x == th[2] IN
       UNION {CASE n = "child" -> IF h.child[x] = NoneO THEN {} ELSE {<<"o", h.child[x]>>}
                [] n = "kids"  -> {<<"l", x>>}
                [] n = "d"     -> {<<"m", x>>}
                [] OTHER       -> {}
              : n \in NamesOf(st)}
  ELSE IF st.k # "items" THEN {}
  ELSE IF th[1] = "l" THEN {<<"o", y>> : y \in SeqSet(h.kids[th[2]])}
  ELSE {<<"o", y>> : y \in DVals(h.d[th[2]])}

\* Level(h, p, k): the things the first k steps of path p lead to from the root
RECURSIVE Level(_, _, _)
Level(h, p, k) == IF k = 0 THEN {<<"o", Root>>}
                  ELSE UNION {NextOf(h, th, p[k]) : th \in Level(h, p, k - 1)}
\* all observables of path p, with the notify flag of the step that covers them
Covered(h, p) == UNION {{<<ob, p[k].notify>> : ob \in UNION {ObsOf(h, th, p[k]) : th \in Level(h, p, k - 1)}} : k \in 1..Len(p)}
Notifying(h, e) == {c[1] : c \in {c \in UNION {Covered(h, p) : p \in Paths(e)} : c[2]}}
AllCovered(h, e) == {c[1] : c \in UNION {Covered(h, p) : p \in Paths(e)}}

\* a registration of e fails iff the walk meets an object lacking a required (non-optional) named trait
FailsPath(h, p) == \E k \in 1..Len(p) : p[k].k = "trait" /\ \E th \in Level(h, p, k - 1) : th[1] = "o" /\ ~HasTrait(th[2], p[k].n)
Fails(h, e) == \E p \in Paths(e) : FailsPath(h, p)

\* ---- mutations.  m = [op, x, a, xs, ps]; kids operations are those of TraitList on object numbers,
\* d operations those of TraitDict with coercing keys (11 |-> 1: the int 1 for the key "1")
SameSeq(a, b) == a = b
MutKids(h, m) == L!Apply(m.op, h.kids[m.x], "id", m.a, m.xs)
MutD(h, m) == D!Apply(m.op, h.d[m.x], "coerce", "id", m.a, m.ps)
Mutate(h, m) ==
  CASE m.t = "child" -> [h EXCEPT !.child[m.x] = m.a[1]]
    [] m.t = "kidsassign" -> [h EXCEPT !.kids[m.x] = m.xs]
    [] m.t = "kids" -> [h EXCEPT !.kids[m.x] = MutKids(h, m).post]
    [] m.t = "dassign" -> [h EXCEPT !.d[m.x] = D!PutAll(<<>>, D!VPairs("coerce", "id", m.ps))]
    [] m.t = "d" -> [h EXCEPT !.d[m.x] = MutD(h, m).post]
    [] m.t = "value" -> [h EXCEPT !.vals[m.x] = @ + 1]
\* the observable a mutation hits, and whether it is a real change (must notify) / may notify
Hit(m) == CASE m.t = "child" -> <<"trait", m.x, "child">> [] m.t = "kidsassign" -> <<"trait", m.x, "kids">>
            [] m.t = "kids" -> <<"l", m.x>> [] m.t = "dassign" -> <<"trait", m.x, "d">> [] m.t = "d" -> <<"m", m.x>>
            [] m.t = "value" -> <<"trait", m.x, "value">>
IsChange(h, m) ==
  CASE m.t = "child" -> TRUE                                     \* comparison mode none: every assignment
    [] m.t = "kidsassign" -> h.kids[m.x] # m.xs                   \* equality mode: an equal list is no change
    [] m.t = "kids" -> MutKids(h, m).post # h.kids[m.x]
    [] m.t = "dassign" -> ~D!DictEq(h.d[m.x], Mutate(h, m).d[m.x])
    [] m.t = "d" -> ~D!DictEq(h.d[m.x], MutD(h, m).post)
    [] m.t = "value" -> TRUE
\* container operations that change nothing may still emit an identity event (C05/C06 leave it open)
MayNotify(h, m) == IsChange(h, m) \/ (m.t \in {"kids", "d"} /\ (IF m.t = "kids" THEN MutKids(h, m) ELSE MutD(h, m)).excs = {""})

\* ---- observed properties (C12): name -> dependency expression; value computed from the heap
Props == {"csnap", "chv"}
DepOf(p) == IF p = "csnap" THEN "kids.items.value" ELSE "child.value"
ValOf(h, x) == IF x = NoVal THEN -1 ELSE h.vals[x]
PropValue(h, p) == IF p = "csnap" THEN [i \in 1..Len(h.kids[Root]) |-> <<h.kids[Root][i], ValOf(h, h.kids[Root][i])>>]
                   ELSE IF h.child[Root] = NoneO THEN <<>> ELSE <<h.child[Root], ValOf(h, h.child[Root])>>
\* a mutation is relevant to a property iff it hits an observable its dependency expression covers with notify
Relevant(h, p, m) == Hit(m) \in Notifying(h, DepOf(p))

\* expected call of a handler registered for e, during mutation m from heap h
Called(h, e, m) == Hit(m) \in Notifying(h, e)
\* ... and through a property: the dependency change is announced as a change of the property itself
CalledViaProp(h, e, m) == e \in Props /\ Relevant(h, e, m)

\* ---- known finding F8 (found by TLC on ObserveImpl.tla): a link of an object that lies on a cycle of the
\* heap is mutated - the maintainers' removal walk from the old value re-reads the object's new link
Succs(h, x) == (IF h.child[x] = NoneO THEN {} ELSE {h.child[x]}) \cup SeqSet(h.kids[x]) \cup DVals(h.d[x])
RECURSIVE Closure(_, _)
Closure(h, S) == LET S2 == S \cup UNION {Succs(h, x) : x \in S} IN IF S2 = S THEN S ELSE Closure(h, S2)
OnCycle(h, x) == x \in Closure(h, Succs(h, x))
=============================================================================
