---------------------------- MODULE CTraitTables ----------------------------
(***************************************************************************)
(* The handler-pointer state of a CTrait and its pickling protocol         *)
(* (properties C14 "trait definition objects survive a round trip" and the *)
(* table-index part of C18).  The five tables of ctraits.c are transcribed *)
(* as sequences of function names; __getstate__ stores, for each handler,  *)
(* the index found by func_index - a linear search WITHOUT a bound - and   *)
(* __setstate__ indexes the table.  TLC checks, for every handler          *)
(* assignment reachable through the API (trait kinds 0-8, property traits  *)
(* with/without a validator, set_validate kinds, post_setattr, delegate    *)
(* prefix types, clone), that every search terminates inside its table and *)
(* that setstate(getstate(t)) restores the same handlers.                  *)
(* With Repaired = FALSE the setattr table is the one before the repair of *)
(* finding F3 (setattr_validate_property missing): TLC reports the         *)
(* overflow for a validated Property.                                      *)
(***************************************************************************)
EXTENDS Integers, Sequences, FiniteSets, TLC
CONSTANT Repaired
NULL == "NULL"
GetattrTable == <<"getattr_trait", "getattr_python", "getattr_event", "getattr_delegate", "getattr_event",
                  "getattr_disallow", "getattr_trait", "getattr_constant", "getattr_generic",
                  "getattr_property0", "getattr_property1", "getattr_property2", "getattr_property3", NULL>>
SetattrTable == <<"setattr_trait", "setattr_python", "setattr_event", "setattr_delegate", "setattr_event",
                  "setattr_disallow", "setattr_readonly", "setattr_constant", "setattr_generic",
                  "setattr_property0", "setattr_property1", "setattr_property2", "setattr_property3">>
                \o (IF Repaired THEN <<"setattr_validate_property">> ELSE <<>>) \o <<NULL>>
SetattrPropertyTable == <<"setattr_property0", "setattr_property1", "setattr_property2", "setattr_property3",
                          "post_setattr_trait_python", NULL>>
ValidateTable == <<"validate_trait_type", "validate_trait_instance", "validate_trait_self_type", NULL,
                   "validate_trait_float_range", "validate_trait_enum", "validate_trait_map", "validate_trait_complex",
                   NULL, "validate_trait_tuple", NULL, "validate_trait_coerce_type", "validate_trait_cast_type",
                   "validate_trait_function", "validate_trait_python",
                   "setattr_validate0", "setattr_validate1", "setattr_validate2", "setattr_validate3",
                   "validate_trait_adapt", "validate_trait_integer", "validate_trait_float", "validate_trait_callable",
                   "validate_trait_complex_number">>
DelegateNameTable == <<"delegate_attr_name_name", "delegate_attr_name_prefix", "delegate_attr_name_prefix_name",
                       "delegate_attr_name_class_name", NULL>>

\* func_index: the first i with table[i] = f; 0 when the search runs off the table (out-of-bounds read)
FuncIndex(f, table) == IF \E i \in 1..Len(table) : table[i] = f
                       THEN CHOOSE i \in 1..Len(table) : table[i] = f /\ \A j \in 1..(i - 1) : table[j] # f
                       ELSE 0

\* ---- handler states reachable through the API
Handlers == [getattr : STRING, setattr : STRING, post : STRING, validate : STRING, dname : STRING]
Kind(k) == [getattr |-> GetattrTable[k + 1], setattr |-> SetattrTable[k + 1], post |-> NULL, validate |-> NULL, dname |-> NULL]
WithValidate(h, vk) == [h EXCEPT !.validate = ValidateTable[vk + 1]]                    \* CTrait.set_validate kinds
ValidateKinds == {0, 1, 2, 4, 5, 6, 7, 9, 11, 12, 13, 14, 19, 20, 21, 22, 23}
WithPost(h) == [h EXCEPT !.post = "post_setattr_trait_python"]                          \* handler.post_setattr present
WithDelegate(h, pt) == [h EXCEPT !.dname = DelegateNameTable[pt + 1]]                   \* CTrait.delegate(prefix_type)
\* _trait_set_property(get_n, set_n, validate_n | none)
Property(gn, sn, vn) ==
  IF vn = -1 THEN [getattr |-> "getattr_property" \o ToString(gn), setattr |-> "setattr_property" \o ToString(sn),
                   post |-> NULL, validate |-> NULL, dname |-> NULL]
  ELSE [getattr |-> "getattr_property" \o ToString(gn), setattr |-> "setattr_validate_property",
        post |-> "setattr_property" \o ToString(sn), validate |-> "setattr_validate" \o ToString(vn), dname |-> NULL]
Reachable ==
       {Kind(k) : k \in 0..8}
  \cup {WithValidate(Kind(0), vk) : vk \in ValidateKinds}
  \cup {WithPost(WithValidate(Kind(0), vk)) : vk \in {6, 7, 14}}
  \cup {WithDelegate(Kind(3), pt) : pt \in 0..3}
  \cup {Property(gn, sn, vn) : gn \in 0..3, sn \in 0..3, vn \in -1..3}

GetState(h) == [g |-> FuncIndex(h.getattr, GetattrTable), s |-> FuncIndex(h.setattr, SetattrTable),
                p |-> FuncIndex(h.post, SetattrPropertyTable), v |-> FuncIndex(h.validate, ValidateTable),
                d |-> FuncIndex(h.dname, DelegateNameTable)]
SetState(gs) == [getattr |-> GetattrTable[gs.g], setattr |-> SetattrTable[gs.s], post |-> SetattrPropertyTable[gs.p],
                 validate |-> ValidateTable[gs.v], dname |-> DelegateNameTable[gs.d]]

\* ---- the arity guard of _trait_set_property: the accessors are dispatched through tables indexed by their number of
\* arguments - getattr_property0..3, setattr_property0..3 (the FIRST FOUR entries of SetattrPropertyTable; the two behind
\* them serve __getstate__ only), setattr_validate0..3 (ValidateTable 16..19).  Arities outside 0..MaxArity must be
\* rejected (ValueError) BEFORE any table is read.
MaxArity == 3
\* (validate_n is checked whether or not a validator is given)
ArityGuard(gn, sn, vn, hasv) == gn \in 0..MaxArity /\ sn \in 0..MaxArity /\ vn \in 0..MaxArity
Arities == -1..6
GetattrPropertySlots == 4    SetattrPropertySlots == 4    ValidatePropertySlots == 4
ArityCases == {<<gn, sn, vn, hv>> \in Arities \X Arities \X Arities \X BOOLEAN : TRUE}
\* whatever the guard lets through indexes inside its table
GuardKeepsIndicesInTables == \A c \in ArityCases : ArityGuard(c[1], c[2], c[3], c[4]) =>
   c[1] + 1 <= GetattrPropertySlots /\ c[2] + 1 <= SetattrPropertySlots /\ (c[4] => c[3] + 1 <= ValidatePropertySlots)
   /\ GetattrTable[9 + c[1] + 1] = "getattr_property" \o ToString(c[1])
   /\ SetattrPropertyTable[c[2] + 1] = "setattr_property" \o ToString(c[2])
   /\ (c[4] => ValidateTable[15 + c[3] + 1] = "setattr_validate" \o ToString(c[3]))

VARIABLES h, st               \* st: the indices __getstate__ stores (mode A: compared with the real CTrait.__getstate__())
Init == h \in Reachable /\ st = GetState(h)
Next == UNCHANGED <<h, st>>
Spec == Init /\ [][Next]_<<h, st>>
\* every search terminates inside its table (no read past the end)
SearchInBounds == LET gs == GetState(h) IN gs.g # 0 /\ gs.s # 0 /\ gs.p # 0 /\ gs.v # 0 /\ gs.d # 0
\* the round trip restores the same handlers (clone copies them verbatim)
RoundTrip == SearchInBounds => SetState(GetState(h)) = h
=============================================================================
