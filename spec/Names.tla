-------------------------------- MODULE Names --------------------------------
(***************************************************************************)
(* Which trait governs an attribute name, and the access policy it         *)
(* enforces (property C13).  Names are sequences of characters (TLC has no *)
(* substring operations on strings).  One name of one instance is followed *)
(* through a history of get / set / del / add_trait / remove_trait.        *)
(***************************************************************************)
EXTENDS Integers, Sequences, FiniteSets, TLC

\* class configuration: base in {"plain","strict","private"} (HasTraits / HasStrictTraits /
\* HasPrivateTraits); user wildcards wf (prefix f -> Int), wfo (prefix fo -> Str), wu (prefix _ -> Int),
\* each "absent" | "base" | "sub" (declared in the base class or in the subclass under test);
\* explicit: the explicit traits foo = Int (base), r = ReadOnly, k = Constant, e = Event are declared
HasPrefix(name, p) == Len(p) <= Len(name) /\ SubSeq(name, 1, Len(p)) = p
IsDunder(name) == Len(name) >= 2 /\ SubSeq(name, 1, 2) = <<"_", "_">>
                  /\ SubSeq(name, Len(name) - 1, Len(name)) = <<"_", "_">>

NFoo == <<"f", "o", "o">>
ExplicitPolicy(name) == CASE name = NFoo -> "int" [] name = <<"r">> -> "readonly"
                          [] name = <<"k">> -> "constant" [] name = <<"e">> -> "event" [] OTHER -> "none"

\* the effective wildcard table: prefix -> policy.  Declarations of the class itself override inherited
\* ones for the same prefix; the class default is the wildcard with the empty prefix.
BaseDefault(cfg) == IF cfg.base = "plain" THEN "python" ELSE "disallow"
\* dyn: wildcards added to the class at run time with add_class_trait (same prefixes, same policies)
Wild(cfg, dyn) ==
  [p \in {<<>>} \cup (IF cfg.wf # "absent" THEN {<<"f">>} ELSE {})
               \cup (IF cfg.wfo # "absent" THEN {<<"f", "o">>} ELSE {})
               \cup dyn
               \cup (IF cfg.wu # "absent" \/ cfg.base = "private" THEN {<<"_">>} ELSE {})
   |-> CASE p = <<>> -> BaseDefault(cfg)
         [] p = <<"f">> -> "int"
         [] p = <<"f", "o">> -> "str"
         [] p = <<"_">> -> IF cfg.wu # "absent" THEN "int" ELSE "any"]     \* HasPrivateTraits: __ = Any(private)
LongestPrefix(cfg, dyn, name) ==
  CHOOSE p \in DOMAIN Wild(cfg, dyn) : HasPrefix(name, p) /\ \A q \in DOMAIN Wild(cfg, dyn) : HasPrefix(name, q) => Len(q) <= Len(p)
WildPolicy(cfg, dyn, name) == Wild(cfg, dyn)[LongestPrefix(cfg, dyn, name)]
PrefixOf(arg) == IF arg = "f" THEN <<"f">> ELSE <<"f", "o">>
Declared(cfg, p) == IF p = <<"f">> THEN cfg.wf # "absent" ELSE cfg.wfo # "absent"

\* ---- the statement: instance trait > class trait (own or inherited) > longest wildcard > class default.
\* state of the name: [itrait, stored, cpol, dyn]; cpol: the policy resolved through a wildcard at the first access and kept
\* under the exact name in the class ("none": not yet) - a wildcard added later does not re-govern such a name
Governing(cfg, st, name) ==
  IF st.itrait # "none" THEN st.itrait
  ELSE IF cfg.explicit /\ ExplicitPolicy(name) # "none" THEN ExplicitPolicy(name)
  ELSE IF IsDunder(name) THEN "dunder"           \* __x__: always settable, readable once set (documented)
  ELSE IF st.cpol # "none" THEN st.cpol
  ELSE WildPolicy(cfg, st.dyn, name)
\* A dunder name that has been written or deleted once is from then on an ordinary untyped attribute
\* (the any_trait chosen by __prefix_trait__(is_set=True) is kept under the name)
Effective(cfg, st, name) ==
  LET g == Governing(cfg, st, name) IN IF g = "dunder" /\ st.cpol # "none" THEN "any" ELSE g
HasExactTrait(cfg, st, name) ==      \* what obj._trait(name, 0) finds (incl. the class-level cache)
  st.itrait # "none" \/ (cfg.explicit /\ ExplicitPolicy(name) # "none") \/ st.cpol # "none"

\* ---- values: "i5" (the int 5), "s" (a str); defaults materialised by a read: d_int (0), d_str (""),
\* d_ro (Undefined), d_any (None); "c": the Constant's value
DefaultOf(pol) == CASE pol = "int" -> "d_int" [] pol = "str" -> "d_str" [] pol = "readonly" -> "d_ro"
                    [] pol = "any" -> "d_any" [] pol = "constant" -> "c" [] OTHER -> "none"
Accepts(pol, v) == CASE pol = "int" -> v = "i5" [] pol = "str" -> v = "s" [] OTHER -> TRUE

\* outcome: [st, res]  (res: a value token, "ok", or an exception class)
Out(st, res) == [st |-> st, res |-> res]
ThroughWildcard(cfg, st, name) == st.itrait = "none" /\ ~(cfg.explicit /\ ExplicitPolicy(name) # "none") /\ ~IsDunder(name)
Resolve(cfg, st, name) ==   \* any access through a wildcard keeps the resolved trait under the name
  IF ThroughWildcard(cfg, st, name) /\ st.cpol = "none" THEN [st EXCEPT !.cpol = WildPolicy(cfg, st.dyn, name)] ELSE st
\* cfg.admit: the class has a trait_added listener that answers the first resolution of an undeclared name by
\* add_trait(name, Int()): the pending access itself is already governed by the new instance trait
Admitted(cfg, st, name) ==
  IF cfg.admit /\ ThroughWildcard(cfg, st, name) /\ st.cpol = "none"
  THEN [Resolve(cfg, st, name) EXCEPT !.itrait = "int"] ELSE st

Get(cfg, st0, name) ==
  LET st == Admitted(cfg, st0, name)  pol == Effective(cfg, st, name) IN
  IF st.stored # "unset" THEN Out(st, st.stored)            \* the instance dictionary is consulted first
  ELSE CASE pol \in {"int", "str", "any", "readonly"} ->    \* the default is materialised by the read
              Out([Resolve(cfg, st, name) EXCEPT !.stored = DefaultOf(pol)], DefaultOf(pol))
         [] pol = "constant" -> Out(Resolve(cfg, st, name), "c")
         [] pol = "property" -> Out(st, "p")                   \* a getter-only Property: computed, never stored
         [] pol \in {"event", "disallow", "python", "dunder"} -> Out(Resolve(cfg, st, name), "AttributeError")
Set(cfg, st0, name, v) ==
  LET st == Admitted(cfg, st0, name)  pol == Effective(cfg, st, name)
      r == IF pol = "dunder" THEN [st EXCEPT !.cpol = "any"] ELSE Resolve(cfg, st, name) IN
  CASE pol \in {"int", "str", "any", "python", "dunder"} ->
         IF Accepts(pol, v) THEN Out([r EXCEPT !.stored = v], "ok") ELSE Out(r, "TraitError")
    [] pol = "readonly" -> IF st.stored \in {"unset", "d_ro"} THEN Out([r EXCEPT !.stored = v], "ok") ELSE Out(r, "TraitError")
    [] pol \in {"constant", "disallow", "property"} -> Out(r, "TraitError")
    [] pol = "event" -> Out(r, "ok")                             \* write-only: nothing is stored
Del(cfg, st0, name) ==
  LET st == Admitted(cfg, st0, name)  pol == Effective(cfg, st, name)
      r == IF pol = "dunder" THEN [st EXCEPT !.cpol = "any"] ELSE Resolve(cfg, st, name) IN
  CASE pol \in {"int", "str", "any", "dunder", "event"} -> Out([r EXCEPT !.stored = IF pol = "event" THEN @ ELSE "unset"], "ok")
    [] pol = "python" -> IF st.stored = "unset" THEN Out(r, "AttributeError") ELSE Out([r EXCEPT !.stored = "unset"], "ok")
    [] pol \in {"readonly", "constant", "disallow", "property"} -> Out(r, "TraitError")
AddTrait(cfg, st, name, pol) == Out([st EXCEPT !.itrait = pol], "ok")
\* remove_trait: drops the instance trait (result True iff there was one) and, whenever a trait of
\* exactly this name exists, the stored value
RemoveTrait(cfg, st, name) ==
  Out([st EXCEPT !.itrait = "none",
                 !.stored = IF HasExactTrait(cfg, st, name) THEN "unset" ELSE @],
      IF st.itrait # "none" THEN "true" ELSE "false")

Apply(op, cfg, st, name, arg) ==
  CASE op = "get" -> Get(cfg, st, name)
    [] op = "set" -> Set(cfg, st, name, arg)
    [] op = "del" -> Del(cfg, st, name)
    [] op = "add_trait" -> AddTrait(cfg, st, name, arg)
    [] op = "remove_trait" -> RemoveTrait(cfg, st, name)
    \* type(obj).add_class_trait("f_" | "fo_", ...) at run time (only for a prefix the classes do not declare)
    [] op = "add_wild" -> Out([st EXCEPT !.dyn = @ \cup {PrefixOf(arg)}], "ok")
    \* obj.on_trait_change(h, name) followed by its removal: registering and unregistering a handler governs nothing
    [] op = "listen" -> Out(st, "ok")
St0 == [itrait |-> "none", stored |-> "unset", cpol |-> "none", dyn |-> {}]
=============================================================================
