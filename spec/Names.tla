-------------------------------- MODULE Names --------------------------------
(***************************************************************************)
(* Which trait governs an attribute name, and the access policy it         *)
(* enforces (property C13).  Names are sequences of characters (TLC has no *)
(* substring operations on strings).  One name of one instance is followed *)
(* through a history of get / set / del / add_trait / remove_trait.        *)
(***************************************************************************)
EXTENDS Integers, Sequences, FiniteSets, TLC

\* class configuration: base in {"plain","strict","private"} (HasTraits / HasStrictTraits /
\* HasPrivateTraits); user wildcards wf (prefix f -> Int), wfo (prefix fo -> Str), wu (prefix _ -> Int),
\* each "absent" | "base" | "sub" (declared in the base class or in the subclass under test);
\* explicit: the explicit traits foo = Int (base), r = ReadOnly, k = Constant, e = Event are declared
HasPrefix(name, p) == Len(p) <= Len(name) /\ SubSeq(name, 1, Len(p)) = p
IsDunder(name) == Len(name) >= 2 /\ SubSeq(name, 1, 2) = <<"_", "_">>
                  /\ SubSeq(name, Len(name) - 1, Len(name)) = <<"_", "_">>

NFoo == <<"f", "o", "o">>
ExplicitPolicy(name) == CASE name = NFoo -> "int" [] name = <<"r">> -> "readonly"
                          [] name = <<"k">> -> "constant" [] name = <<"e">> -> "event" [] OTHER -> "none"

\* the effective wildcard table: prefix -> policy.  Declarations of the class itself override inherited
\* ones for the same prefix; the class default is the wildcard with the empty prefix.
BaseDefault(cfg) == IF cfg.base = "plain" THEN "python" ELSE "disallow"
Wild(cfg) ==
  [p \in {<<>>} \cup (IF cfg.wf # "absent" THEN {<<"f">>} ELSE {})
               \cup (IF cfg.wfo # "absent" THEN {<<"f", "o">>} ELSE {})
               \cup (IF cfg.wu # "absent" \/ cfg.base = "private" THEN {<<"_">>} ELSE {})
   |-> CASE p = <<>> -> BaseDefault(cfg)
         [] p = <<"f">> -> "int"
         [] p = <<"f", "o">> -> "str"
         [] p = <<"_">> -> IF cfg.wu # "absent" THEN "int" ELSE "any"]     \* HasPrivateTraits: __ = Any(private)
LongestPrefix(cfg, name) ==
  CHOOSE p \in DOMAIN Wild(cfg) : HasPrefix(name, p) /\ \A q \in DOMAIN Wild(cfg) : HasPrefix(name, q) => Len(q) <= Len(p)

\* ---- the statement: instance trait > class trait (own or inherited) > longest wildcard > class default
Governing(cfg, itrait, name) ==
  IF itrait # "none" THEN itrait
  ELSE IF cfg.explicit /\ ExplicitPolicy(name) # "none" THEN ExplicitPolicy(name)
  ELSE IF IsDunder(name) THEN "dunder"           \* __x__: always settable, readable once set (documented)
  ELSE Wild(cfg)[LongestPrefix(cfg, name)]
\* A dunder name that has been written or deleted once is from then on an ordinary untyped attribute
\* (the any_trait chosen by __prefix_trait__(is_set=True) is kept under the name)
Effective(cfg, st, name) ==
  LET g == Governing(cfg, st.itrait, name) IN IF g = "dunder" /\ st.cached THEN "any" ELSE g
HasExactTrait(cfg, itrait, name, cached) ==      \* what obj._trait(name, 0) finds (incl. the class-level cache)
  itrait # "none" \/ (cfg.explicit /\ ExplicitPolicy(name) # "none") \/ cached

\* ---- values: "i5" (the int 5), "s" (a str); defaults materialised by a read: d_int (0), d_str (""),
\* d_ro (Undefined), d_any (None); "c": the Constant's value
DefaultOf(pol) == CASE pol = "int" -> "d_int" [] pol = "str" -> "d_str" [] pol = "readonly" -> "d_ro"
                    [] pol = "any" -> "d_any" [] pol = "constant" -> "c" [] OTHER -> "none"
Accepts(pol, v) == CASE pol = "int" -> v = "i5" [] pol = "str" -> v = "s" [] OTHER -> TRUE

\* state of the name: [itrait, stored, cached]; outcome: [st, res]  (res: a value token, "ok", or an exception class)
Out(st, res) == [st |-> st, res |-> res]
Resolve(cfg, st, name) ==   \* any access through a wildcard caches the resolved trait under the name
  [st EXCEPT !.cached = @ \/ (st.itrait = "none" /\ ~(cfg.explicit /\ ExplicitPolicy(name) # "none") /\ ~IsDunder(name))]

Get(cfg, st, name) ==
  LET pol == Effective(cfg, st, name) IN
  IF st.stored # "unset" THEN Out(st, st.stored)            \* the instance dictionary is consulted first
  ELSE CASE pol \in {"int", "str", "any", "readonly"} ->    \* the default is materialised by the read
              Out([Resolve(cfg, st, name) EXCEPT !.stored = DefaultOf(pol)], DefaultOf(pol))
         [] pol = "constant" -> Out(Resolve(cfg, st, name), "c")
         [] pol = "property" -> Out(st, "p")                   \* a getter-only Property: computed, never stored
         [] pol \in {"event", "disallow", "python", "dunder"} -> Out(Resolve(cfg, st, name), "AttributeError")
Set(cfg, st, name, v) ==
  LET pol == Effective(cfg, st, name)  r == IF pol = "dunder" THEN [st EXCEPT !.cached = TRUE] ELSE Resolve(cfg, st, name) IN
  CASE pol \in {"int", "str", "any", "python", "dunder"} ->
         IF Accepts(pol, v) THEN Out([r EXCEPT !.stored = v], "ok") ELSE Out(r, "TraitError")
    [] pol = "readonly" -> IF st.stored \in {"unset", "d_ro"} THEN Out([r EXCEPT !.stored = v], "ok") ELSE Out(r, "TraitError")
    [] pol \in {"constant", "disallow", "property"} -> Out(r, "TraitError")
    [] pol = "event" -> Out(r, "ok")                             \* write-only: nothing is stored
Del(cfg, st, name) ==
  LET pol == Effective(cfg, st, name)  r == IF pol = "dunder" THEN [st EXCEPT !.cached = TRUE] ELSE Resolve(cfg, st, name) IN
  CASE pol \in {"int", "str", "any", "dunder", "event"} -> Out([r EXCEPT !.stored = IF pol = "event" THEN @ ELSE "unset"], "ok")
    [] pol = "python" -> IF st.stored = "unset" THEN Out(r, "AttributeError") ELSE Out([r EXCEPT !.stored = "unset"], "ok")
    [] pol \in {"readonly", "constant", "disallow", "property"} -> Out(r, "TraitError")
AddTrait(cfg, st, name, pol) == Out([st EXCEPT !.itrait = pol], "ok")
\* remove_trait: drops the instance trait (result True iff there was one) and, whenever a trait of
\* exactly this name exists, the stored value
RemoveTrait(cfg, st, name) ==
  Out([st EXCEPT !.itrait = "none",
                 !.stored = IF HasExactTrait(cfg, st.itrait, name, st.cached) THEN "unset" ELSE @],
      IF st.itrait # "none" THEN "true" ELSE "false")

Apply(op, cfg, st, name, arg) ==
  CASE op = "get" -> Get(cfg, st, name)
    [] op = "set" -> Set(cfg, st, name, arg)
    [] op = "del" -> Del(cfg, st, name)
    [] op = "add_trait" -> AddTrait(cfg, st, name, arg)
    [] op = "remove_trait" -> RemoveTrait(cfg, st, name)
=============================================================================
