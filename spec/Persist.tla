------------------------------- MODULE Persist -------------------------------
(***************************************************************************)
(* Pickling, deep copying and cloning preserve state and keep traits live  *)
(* (property C14, object part).  Abstract object state:                    *)
(*   n : Int                      xs : List(Int)    nested : List(List(Int))*)
(*   dl : Dict(Str, List(Int))    s : Set(Int)      child : Instance(Leaf)  *)
(*   tmp : Int(transient=True)    ro : ReadOnly (0 = not yet written)       *)
(* plus a declared @observe("xs.items") counter, a dynamic xs_items handler *)
(* counter (registered by the driver on whichever object is current) and a *)
(* cached Property total = sum(xs) observing xs.items, a second one        *)
(* (total2) declared with the legacy depends_on, read by the static        *)
(* handler of n - also while a copy is being filled in.                    *)
(* Liveness of a copy is not a separate assertion: after Copy the history  *)
(* simply CONTINUES on the copy with the same operations.                  *)
(***************************************************************************)
EXTENDS Integers, Sequences, FiniteSets, TLC
Bad == 99
RECURSIVE Sum(_)
Sum(q) == IF q = <<>> THEN 0 ELSE Head(q) + Sum(Tail(q))
\* obs / dyn / pobs: calls during the step of the declared "xs.items" observer, the dynamic xs_items handler and the
\* declared post_init observer of n
Out(st, exc, obs, dyn) == [st |-> st, exc |-> exc, obs |-> obs, dyn |-> dyn, pobs |-> 0]
Same(st, exc) == Out(st, exc, 0, 0)
\* kids: the identity pattern of List(Instance(Leaf)): kids[i] = j means "the j-th distinct Leaf"; 0 stands for the
\* Leaf `child` refers to.  A copy must reproduce the pattern (shared items stay shared, also with `child`).
NextId(q) == IF q = <<>> THEN 1 ELSE 1 + (CHOOSE m \in {q[k] : k \in 1..Len(q)} \cup {0} : \A k \in 1..Len(q) : q[k] <= m)
\* sets and dict keys are kept sorted by the projection
InsSorted(q, v) == IF \E k \in 1..Len(q) : q[k] = v THEN q
                   ELSE LET lo == SelectSeq(q, LAMBDA x : x < v) hi == SelectSeq(q, LAMBDA x : x > v) IN lo \o <<v>> \o hi
InsKey(q, k) == IF \E i \in 1..Len(q) : q[i][1] = k THEN q
                ELSE LET lo == SelectSeq(q, LAMBDA p : p[1] < k) hi == SelectSeq(q, LAMBDA p : p[1] > k) IN lo \o <<<<k, <<>>>>>> \o hi
Step(st, op, v) ==
  CASE op = "n_assign" -> IF v = Bad THEN Same(st, "TraitError")
                          ELSE [Same([st EXCEPT !.n = v], "") EXCEPT !.pobs = IF st.n # v THEN 1 ELSE 0]
    [] op = "kids_child" -> Same([st EXCEPT !.kids = Append(@, 0)], "")              \* kids.append(self.child)
    [] op = "kids_new"   -> Same([st EXCEPT !.kids = Append(@, NextId(@))], "")       \* kids.append(Leaf())
    [] op = "kids_dup"   -> IF st.kids = <<>> THEN Same(st, "IndexError")
                            ELSE Same([st EXCEPT !.kids = Append(@, @[1])], "")       \* kids.append(kids[0])
    [] op = "tmp_assign" -> Same([st EXCEPT !.tmp = v], "")
    [] op = "ro_assign" -> IF st.ro # 0 \/ v = Bad THEN Same(st, "TraitError") ELSE Same([st EXCEPT !.ro = v], "")
    [] op = "xs_append" -> IF v = Bad THEN Same(st, "TraitError") ELSE Out([st EXCEPT !.xs = Append(@, v)], "", 1, 1)
    \* whole-value assignment: no items event; the declared observer "xs.items" also notifies on xs itself
    \* (when the new list compares unequal to the old one)
    [] op = "xs_assign" -> Out([st EXCEPT !.xs = <<v>>], "", IF st.xs # <<v>> THEN 1 ELSE 0, 0)
    [] op = "nested_append" -> Same([st EXCEPT !.nested = Append(@, <<v>>)], "")
    [] op = "nested_inner" -> IF st.nested = <<>> THEN Same(st, "IndexError")
                              ELSE IF v = Bad THEN Same(st, "TraitError")
                              ELSE Same([st EXCEPT !.nested[1] = Append(@, v)], "")
    [] op = "dl_set" -> Same([st EXCEPT !.dl = InsKey(@, v)], "")
    [] op = "dl_inner" -> IF st.dl = <<>> THEN Same(st, "KeyError")
                          ELSE IF v = Bad THEN Same(st, "TraitError")
                          ELSE Same([st EXCEPT !.dl[1][2] = Append(@, v)], "")
    [] op = "s_add" -> IF v = Bad THEN Same(st, "TraitError") ELSE Same([st EXCEPT !.s = InsSorted(@, v)], "")
    [] op = "child_value" -> IF v = Bad THEN Same(st, "TraitError") ELSE Same([st EXCEPT !.child.value = v], "")
    \* child.grid : List(Any) holding plain lists, also reachable through the deferred attribute cgrid = DelegatesTo("child", "grid")
    [] op = "grid_append" -> Same([st EXCEPT !.child.grid = Append(@, <<v>>)], "")           \* o.cgrid.append([v])
    [] op = "grid_inner" -> IF st.child.grid = <<>> THEN Same(st, "IndexError")
                            ELSE Same([st EXCEPT !.child.grid[1] = Append(@, v)], "")      \* o.child.grid[0].append(v): unvalidated (Any)
    \* a trait given to this one object at run time: add_trait("extra", Int) - from then on `extra` is validated
    [] op = "addx" -> Same([st EXCEPT !.hasx = 1], "")
    [] op = "extra_assign" -> IF st.hasx = 1 /\ v = Bad THEN Same(st, "TraitError")
                              ELSE Same([st EXCEPT !.xval = v], "")                      \* (no such trait: a plain attribute)
    \* pv = PrototypedFrom("child", "value"): a value of its own (validated by the prototype's trait; 0 is a value like
    \* any other) / deleting it restores the link
    [] op = "pv_assign" -> IF v = Bad THEN Same(st, "TraitError") ELSE Same([st EXCEPT !.pvset = 1, !.pvval = v], "")
    [] op = "pv_del" -> Same([st EXCEPT !.pvset = 0, !.pvval = 0], "")
    \* wr = WeakRef(Leaf): 0 None | 1 refers to the object's own child | 2 refers to a Leaf of a former object
    \* byleaf = Dict(Instance(Leaf), Int): 0 empty | 1 keyed by the object's own child (a copy is keyed by ITS child: the
    \* object graph is copied as a whole) | 2 keyed by another Leaf
    [] op = "bl_child" -> Same([st EXCEPT !.bl = 1], "")
    [] op = "wr_child" -> Same([st EXCEPT !.wr = 1], "")
    [] op = "wr_none" -> Same([st EXCEPT !.wr = 0], "")
    [] op = "child_items" -> IF v = Bad THEN Same(st, "TraitError") ELSE Same([st EXCEPT !.child.items = Append(@, v)], "")
\* a copy: everything but the transient attribute (back at its default 0) - including the traits the object was given
\* with add_trait: the copy's `extra` is still a validated attribute
Copied(st) == [st EXCEPT !.tmp = 0]
\* what the deferred attribute reads as
PvRead(st) == IF st.pvset = 1 THEN st.pvval ELSE st.child.value
\* copy_traits (behind clone_traits and __deepcopy__) ASSIGNS every copied trait by name: a PrototypedFrom attribute that
\* was still linked becomes a value of its own on the copy (equal to what it read as).  The statement speaks of equal
\* values, not of links: modelled as the code does it.  Pickling carries the __dict__: linked stays linked.
IsPickle(kind) == kind \in {"p0", "p1", "p2", "p3", "p4", "p5"}
\* a weak reference is copied by reference (copy="ref"): the copy refers to the SAME Leaf - the original's child, not its own
WrCopied(st, kind) == IF IsPickle(kind) \/ st.wr = 0 THEN st.wr ELSE 2
CopiedAs(st, kind, haspv) == LET c == [Copied(st) EXCEPT !.wr = WrCopied(st, kind)] IN
                             IF IsPickle(kind) \/ haspv = 0 THEN c ELSE [c EXCEPT !.pvset = 1, !.pvval = PvRead(st)]
\* Named deviation (known finding C14/F22): pickling, deep copying and clone_traits carry the VALUE of a trait added with
\* add_trait but not the trait: on the copy the name is an ordinary, unvalidated attribute
KF22Guard(pre) == pre.hasx = 1
Copied_KF22(st, kind, haspv) == [CopiedAs(st, kind, haspv) EXCEPT !.hasx = 0]
\* ... and clone_traits(copy="deep") does not carry the value either (the name is not a trait of the copy at all)
Copied_KF22_deep(st, kind, haspv) == [CopiedAs(st, kind, haspv) EXCEPT !.hasx = 0, !.xval = 0]
=============================================================================
