------------------------------ MODULE MoreTypes ------------------------------
(***************************************************************************)
(* The trait types of traits.api that Validate.tla does not cover (C01,    *)
(* and C03 for those with a compiled validator): This / self, Module,      *)
(* Date, Datetime, Time, UUID, File / BaseFile, Directory / BaseDirectory, *)
(* Expression.                                                             *)
(*   Validate(cfg, t, inited)  transcription of the validate method (the   *)
(*                             compiled validator of This / Module is the  *)
(*                             same decision on the real type)             *)
(*   Assign(cfg, t, route)     what an assignment by the route stores      *)
(*   InDomain(cfg, w)          the DECLARED criteria, from the class docs  *)
(***************************************************************************)
EXTENDS Integers, Sequences, FiniteSets, TLC

\* ---- abstract values: [ty, s]
\* ty: none int float str strsub bytes path (os.PathLike giving text) pathb (os.PathLike giving bytes) date datetime
\*     datesub (a subclass of date) time uuid module self (an instance of the class declaring the trait) selfsub (of a
\*     subclass of it) other (an unrelated HasTraits instance) function code
\* s (text-like values): "file" (names an existing file) "dir" (an existing directory) "missing" (names nothing)
\*     "uuid" (RFC 4122 text) "expr" (the text 1+1) "badexpr" (the text 1+) "a" (the text a)
V(ty, s) == [ty |-> ty, s |-> s]
Texts == {"file", "dir", "missing", "uuid", "expr", "badexpr", "a"}
Tokens == {V(ty, "") : ty \in {"none", "int", "float", "date", "datetime", "datesub", "time", "uuid", "module", "self",
                                "selfsub", "other", "function", "code"}}
          \cup {V("str", s) : s \in Texts} \cup {V("strsub", s) : s \in {"file", "expr", "uuid", "missing"}}
          \cup {V("path", s) : s \in {"file", "dir", "missing"}} \cup {V("pathb", "file")}
          \cup {V("bytes", s) : s \in {"file", "expr", "badexpr"}}
IsText(t) == t.ty \in {"str", "strsub"}

\* ---- configurations: [t, an (allow_none), adt (allow_datetime), ex (exists), ci (can_init), fast]
C(t, an, adt, ex, ci, fast) == [t |-> t, an |-> an, adt |-> adt, ex |-> ex, ci |-> ci, fast |-> fast]

Store(w) == [tag |-> "store", w |-> w, e |-> ""]
Reject == [tag |-> "reject", w |-> V("none", ""), e |-> ""]
Prop(e) == [tag |-> "prop", w |-> V("none", ""), e |-> e]

\* os.fspath(value) where it applies (TypeError otherwise: the value is kept)
FsPath(t) == CASE t.ty = "path" -> V("str", t.s) [] t.ty = "pathb" -> V("bytes", t.s) [] OTHER -> t
\* compile(value, "<string>", "eval"): text and bytes that are an expression
Compiles(t) == t.ty \in {"str", "strsub", "bytes"} /\ t.s \in {"expr", "a"}

\* ---- the validate methods; inited: object.traits_inited() (the constructor has finished)
Validate(cfg, t, inited) ==
  CASE cfg.t \in {"This", "self"} -> IF t.ty \in {"self", "selfsub"} \/ (cfg.an /\ t.ty = "none") THEN Store(t) ELSE Reject
    [] cfg.t = "Module" -> IF t.ty = "module" THEN Store(t) ELSE Reject
    [] cfg.t = "Date" -> IF t.ty = "none" THEN (IF cfg.an THEN Store(t) ELSE Reject)
                         ELSE IF t.ty = "datetime" THEN (IF cfg.adt THEN Store(t) ELSE Reject)
                         ELSE IF t.ty \in {"date", "datesub"} THEN Store(t) ELSE Reject
    [] cfg.t = "Datetime" -> IF (t.ty = "none" /\ cfg.an) \/ t.ty = "datetime" THEN Store(t) ELSE Reject
    [] cfg.t = "Time" -> IF (t.ty = "none" /\ cfg.an) \/ t.ty = "time" THEN Store(t) ELSE Reject
    \* UUID: read-only; with can_init the constructor may give it: a UUID as it is, RFC 4122 text converted, anything
    \* else is not a UUID (TraitError; finding F30: uuid.UUID's AttributeError / TypeError for a non-text used to leak)
    [] cfg.t = "UUID" -> IF ~cfg.ci \/ inited THEN Reject
                         ELSE IF t.ty = "uuid" THEN Store(t)
                         ELSE IF IsText(t) /\ t.s = "uuid" THEN Store(V("uuid", "")) ELSE Reject
    \* File / Directory: fspath, then BaseStr.validate (a str, subclasses as they are), then exists
    [] cfg.t \in {"File", "Directory"} ->
         LET p == FsPath(t) IN
         IF ~IsText(p) THEN Reject
         ELSE IF cfg.ex /\ p.s # (IF cfg.t = "File" THEN "file" ELSE "dir") THEN Reject ELSE Store(p)
    \* Expression.validate returns the compiled code
    [] cfg.t = "Expression" -> IF Compiles(t) THEN Store(V("code", "")) ELSE Reject

\* what an assignment stores: Expression keeps the original value (setattr_original_value), the code is its shadow
Assign(cfg, t, route) ==
  LET r == Validate(cfg, t, route # "ctor") IN
  IF cfg.t = "Expression" /\ r.tag = "store" THEN Store(t) ELSE r

\* ---- the declared domain
InDomain(cfg, w) ==
  CASE cfg.t \in {"This", "self"} -> w.ty \in {"self", "selfsub"} \/ (cfg.an /\ w.ty = "none")
    [] cfg.t = "Module" -> w.ty = "module"
    [] cfg.t = "Date" -> (cfg.an /\ w.ty = "none") \/ w.ty \in {"date", "datesub"} \/ (cfg.adt /\ w.ty = "datetime")
    [] cfg.t = "Datetime" -> (cfg.an /\ w.ty = "none") \/ w.ty = "datetime"
    [] cfg.t = "Time" -> (cfg.an /\ w.ty = "none") \/ w.ty = "time"
    [] cfg.t = "UUID" -> w.ty = "uuid"
    [] cfg.t = "File" -> IsText(w) /\ (cfg.ex => w.s = "file")
    [] cfg.t = "Directory" -> IsText(w) /\ (cfg.ex => w.s = "dir")
    [] cfg.t = "Expression" -> w.ty \in {"str", "strsub", "bytes"} /\ w.s \in {"expr", "a"}
=============================================================================
