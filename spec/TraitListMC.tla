----------------------------- MODULE TraitListMC -----------------------------
(* Mode A: every distinct state is one complete case (pre, op, args) with the outcome computed *)
(* by TraitList.tla.  Run with -deadlock and -dump; one step per case.                          *)
EXTENDS TraitList
CONSTANTS MaxLen, MaxIdx
VARIABLES s, vm, last
vars == <<s, vm, last>>

InitItems == {1, 2}
Idx    == (-MaxIdx)..MaxIdx
OptIdx == Idx \cup {None}
Steps  == {None} \cup (-3..3)
ItemArgs == {1, 3, 11, 99}
XS == {<<>>, <<3>>, <<3, 4>>, <<4, 3, 4>>, <<11>>, <<3, 99>>, <<12, 4>>, <<3, 4, 3, 4>>}
XSsmall == {<<>>, <<3>>, <<3, 4>>, <<12, 4>>, <<3, 99>>, <<4, 3, 4>>}

VMs == {"id", "coerce", "once"}
\* the object-item configuration (cfg: InitItems <- InitItemsObj, ...): lists of the twins 105 / 106, the not-self-equal 107
\* and the plain 1, no validator
InitItemsObj == {105, 106, 107}
ItemArgsObj == {105, 106, 107, 1}
XSObj == {<<>>, <<105>>, <<106>>, <<106, 105>>, <<107, 106>>, <<105, 105, 106>>, <<107>>, <<106, 107, 105>>}
VMsObj == {"id"}
Init == /\ s \in UNION {[1..n -> InitItems] : n \in 0..MaxLen}
        /\ vm \in VMs
        /\ last = [op |-> "init"]

Do(op, a, xs) ==
  /\ last.op = "init"
  /\ LET r == Apply(op, s, vm, a, xs) IN
     /\ s' = r.post
     /\ last' = [op |-> op, a |-> a, xs |-> xs, vm |-> vm, pre |-> s, post |-> r.post, ret |-> r.ret, excs |-> r.excs]
  /\ UNCHANGED vm

SetItem   == \E i \in Idx, x \in ItemArgs : Do("setitem", <<i, 0, 0>>, <<x>>)
SetSlice  == \E st \in OptIdx, sp \in OptIdx, stp \in Steps, xs \in XSsmall : Do("setslice", <<st, sp, stp>>, xs)
DelItem   == \E i \in Idx : Do("delitem", <<i, 0, 0>>, <<>>)
DelSlice  == \E st \in OptIdx, sp \in OptIdx, stp \in Steps : Do("delslice", <<st, sp, stp>>, <<>>)
DoAppend  == \E x \in ItemArgs : Do("append", <<0, 0, 0>>, <<x>>)
Extend    == \E xs \in XS : Do("extend", <<0, 0, 0>>, xs)
IAdd      == \E xs \in XS : Do("iadd", <<0, 0, 0>>, xs)
IMul      == \E k \in -1..3 : Do("imul", <<k, 0, 0>>, <<>>)
Insert    == \E i \in Idx, x \in ItemArgs : Do("insert", <<i, 0, 0>>, <<x>>)
Pop       == \E i \in OptIdx : Do("pop", <<i, 0, 0>>, <<>>)
Remove    == \E x \in ItemArgs \cup {2} : Do("remove", <<0, 0, 0>>, <<x>>)
Reverse   == Do("reverse", <<0, 0, 0>>, <<>>)
Sort      == \E k \in {0, 1}, r \in {0, 1} : Do("sort", <<k, r, 0>>, <<>>)
Clear     == Do("clear", <<0, 0, 0>>, <<>>)
Construct == s = <<>> /\ \E xs \in XS : Do("construct", <<0, 0, 0>>, xs)
Copy      == \E k \in {0, 1, 2} : Do("copy", <<k, 0, 0>>, <<>>)

\* the guard is hoisted out of the quantifiers: case states have no successors (one step per case)
Next == last.op = "init" /\ (SetItem \/ SetSlice \/ DelItem \/ DelSlice \/ DoAppend \/ Extend \/ IAdd \/ IMul
        \/ Insert \/ Pop \/ Remove \/ Reverse \/ Sort \/ Clear \/ Construct \/ Copy)
Spec == Init /\ [][Next]_vars

\* ---- what TLC decides on the specification itself
IsCase == last.op # "init"
FailureAtomic == IsCase /\ last.excs # {""} => last.post = last.pre
\* under a coercing validator nothing unvalidated is ever stored
OnlyValidated == vm = "coerce" => \A i \in 1..Len(s) : s[i] \in Valid
\* multiset conservation: deletions only delete, insertions only insert validated arguments
SeqElems(q) == {q[i] : i \in 1..Len(q)}
Count(q, x) == Cardinality({i \in 1..Len(q) : q[i] = x})
Conservation ==
  IsCase /\ last.op \in {"delitem", "delslice", "pop", "remove", "clear"} =>
     \A x \in SeqElems(last.pre) \cup SeqElems(last.post) : Count(last.post, x) <= Count(last.pre, x)
Permutation ==
  IsCase /\ last.op \in {"reverse", "sort"} => \A x \in SeqElems(last.pre) \cup SeqElems(last.post) : Count(last.post, x) = Count(last.pre, x)
PopReturns == IsCase /\ last.op = "pop" /\ last.excs = {""} =>
     Count(last.pre, last.ret) = Count(last.post, last.ret) + 1
\* the delta (0, pre, post) always satisfies the law for a successful change: the law is satisfiable
LawSatisfiable == IsCase /\ last.pre # last.post =>
     EventsOK(last.pre, <<IntEv(0, last.pre, last.post)>>, last.post)
=============================================================================
