----------------------------- MODULE Trace_Names -----------------------------
(* Judge: a recorded history of one name on one real instance is folded through Names!Apply *)
EXTENDS Names, Json, IOUtils
Trace == ndJsonDeserialize(IOEnv.TRACE_FILE)
N == Len(Trace)
VARIABLE i
NB == 64
BSize == (N + NB - 1) \div NB
Init == i = 0
Next == \/ i = 0 /\ i' \in {-b : b \in 1..NB}
        \/ i < 0 /\ i' \in (((-i) - 1) * BSize + 1)..(IF (-i) * BSize < N THEN (-i) * BSize ELSE N)
Spec == Init /\ [][Next]_i
\* first failing step as <<k, clause>> or <<0, "">>
RECURSIVE Run(_, _, _)
Run(c, st, k) ==
  IF k > Len(c.hist) THEN <<0, "">>
  ELSE LET e == c.hist[k]
           r == Apply(e.op, c.cfg, st, c.name, e.arg)
           \* after del the value slot is empty or holds the re-materialised default (an attribute that has, or has had,
           \* listeners is given its default back at once, for the notification): no read can tell the two apart
           rematerialised == e.op = "del" /\ r.st.stored = "unset" /\ e.stored \in {"d_int", "d_str", "d_any"}
       IN IF e.res # r.res THEN <<k, "result">>
          ELSE IF e.stored # r.st.stored /\ ~rematerialised THEN <<k, "stored-value">>
          ELSE IF (e.it = 1) # (r.st.itrait # "none") THEN <<k, "instance-trait">>
          ELSE Run(c, [r.st EXCEPT !.stored = e.stored], k + 1)
Judge == i <= 0 \/ LET f == Run(Trace[i], St0, 1) IN IF f[1] = 0 THEN TRUE ELSE PrintT(<<"REJECT", i, {f}>>)
AllJudged == TLCGet("distinct") = N + NB + 1
=============================================================================
