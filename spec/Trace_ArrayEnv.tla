---------------------------- MODULE Trace_ArrayEnv ----------------------------
(* Environment assumption of ArrayTrait.tla: numpy.can_cast and the dtype numpy.asarray infers, as observed on the *)
(* installed numpy, against CanCast / Infer.  A mismatch is a machinery failure (the model of numpy is wrong for   *)
(* this numpy), never a violation of a property of Traits.                                                         *)
EXTENDS ArrayTrait, Json, IOUtils
Trace == ndJsonDeserialize(IOEnv.TRACE_FILE)
N == Len(Trace)
VARIABLE i
Init == i = 0
Next == i < N /\ i' = i + 1
Spec == Init /\ [][Next]_i
OK(c) == IF c.k = "cast" THEN CanCast(c.a, c.b, c.rule) = c.np ELSE Infer(c.a) = c.dt
Judge == i = 0 \/ OK(Trace[i]) \/ PrintT(<<"MISMATCH", i, Trace[i]>>)
=============================================================================
