--------------------------- MODULE Trace_MoreTypes ---------------------------
(* Judge of recorded assignments / validate calls on real This, Module, Date, Datetime, Time, UUID, File, Directory *)
(* and Expression traits                                                                                          *)
EXTENDS MoreTypes, Json, IOUtils
Trace == ndJsonDeserialize(IOEnv.TRACE_FILE)
N == Len(Trace)
VARIABLE i
NB == 64
BSize == (N + NB - 1) \div NB
Init == i = 0
Next == \/ i = 0 /\ i' \in {-b : b \in 1..NB}
        \/ i < 0 /\ i' \in (((-i) - 1) * BSize + 1)..(IF (-i) * BSize < N THEN (-i) * BSize ELSE N)
Spec == Init /\ [][Next]_i
Cmp(o, r, what) ==
  IF o.tag # r.tag THEN {what \o "-outcome"}
  ELSE IF r.tag = "store" /\ o.w # r.w THEN {what \o "-value"} ELSE {}
Clauses(c) ==
  LET g == c.cfg
      val == Validate(g, c.tok, TRUE)          \* the validate calls are made on a constructed object
  IN Cmp(c.a, Assign(g, c.tok, c.route), "assign")
     \cup Cmp(c.f, val, "cpath") \cup Cmp(c.p, val, "pypath")
     \cup (IF c.a.tag = "store" /\ ~InDomain(g, c.a.w) THEN {"C01-stored-outside-domain"} ELSE {})
     \cup (IF c.a.tag = "prop" THEN {"C01-foreign-exception"} ELSE {})
     \cup (IF c.a.tag # "store" /\ c.frame = 0 THEN {"C01-failed-assignment-had-effect"} ELSE {})
     \cup (IF c.a.tag = "store" /\ c.frame = 0 THEN {"C01-other-attribute-changed"} ELSE {})
     \cup (IF c.a.tag = "reject" /\ c.msg = 0 THEN {"C01-error-does-not-name-attribute"} ELSE {})
     \cup (IF c.ident = 0 THEN {"C01-unconverted-value-copied"} ELSE {})
     \cup (IF g.t = "Expression" /\ c.a.tag = "store" /\ c.sh.ty # "code" THEN {"C01-mapped-shadow-value"} ELSE {})
     \* C03: the compiled validator decides like the Python method
     \cup (IF g.fast /\ g.t \in {"This", "self", "Module"} /\ c.f # c.p THEN {"C03-paths-differ"} ELSE {})
Judge == i <= 0 \/ LET f == Clauses(Trace[i]) IN IF f = {} THEN TRUE ELSE PrintT(<<"REJECT", i, f>>)
AllJudged == TLCGet("distinct") = N + NB + 1
=============================================================================
