------------------------------- MODULE Defaults -------------------------------
(***************************************************************************)
(* Defaults are per instance, computed once, silent; instances are         *)
(* isolated (property C10).  A class with one trait of every default kind; *)
(* instances 1..NInst (some created during the history); the VIEW of an    *)
(* instance is everything observable on it.  Every operation names its     *)
(* actor; the non-interference law says that no other instance's view and  *)
(* not the class view change.                                              *)
(***************************************************************************)
EXTENDS Integers, Sequences, FiniteSets, TLC

\* attribute -> default kind and declared default contents
\* scalars are ints; lists sequences; dict / set as sorted sequences; "t_cont": <<list, int>>
Attrs == {"c_int", "l_plain", "l_init", "d_plain", "s_plain", "a_list", "a_lsub", "a_dict", "f_call", "m_dyn", "m_list", "t_cont",
          "u_cont", "o_int", "n_int", "mp", "arr", "pf"}
Default(a, sub) ==     \* sub: the instance belongs to the subclass overriding c_int (o_int) and the dynamic default
  CASE a = "c_int"   -> 3
    [] a = "o_int"   -> IF sub THEN 5 ELSE 4                  \* constant default overridden in the subclass
    [] a = "n_int"   -> 2                                     \* comparison_mode none
    [] a = "l_plain" -> <<>>
    [] a = "l_init"  -> <<1, 2>>                              \* a fresh copy of the declared list per instance
    [] a = "d_plain" -> <<>>
    [] a = "s_plain" -> <<>>
    [] a = "a_lsub"  -> <<1, 2>>                              \* Any(<instance of a list subclass>): copied per instance just the same
    [] a = "a_list"  -> <<1, 2>>                              \* Any([1, 2]): list defaults are copied per instance
    [] a = "a_dict"  -> <<<<1, 1>>>>                          \* Any({1: 1})
    [] a = "f_call"  -> <<>>                                  \* callable-and-args factory: a new (empty) box per instance
    [] a = "m_dyn"   -> IF sub THEN 8 ELSE 7                  \* _m_dyn_default method
    [] a = "m_list"  -> <<6>>                                 \* _m_list_default method returning a new list
    [] a = "t_cont"  -> <<<<>>, 0>>                           \* Tuple(List(Int), Int): container member -> fresh per instance
    [] a = "u_cont"  -> <<>>                                  \* Union(List(Int), None)
    [] a = "mp"      -> 1                                     \* Map({"a": 1, "b": 2}): keys coded 1, 2; reading stores the shadow mp_ too
    [] a = "arr"     -> <<>>                                  \* Array(): a zero-size array, copied per instance
    [] a = "pf"      -> 11                                    \* _pf_default method; the trait's post_setattr hook raises the first time
Dynamic == {"m_dyn", "m_list", "pf"}                          \* defaults computed by a method (counted)
Mutable == {"l_plain", "l_init", "d_plain", "s_plain", "a_list", "a_lsub", "a_dict", "f_call", "m_list", "t_cont", "u_cont", "arr"}
Handled == {"c_int", "o_int", "m_dyn", "n_int"}               \* the attributes "register" puts handlers on
FaultOnFirstRead == {"pf"}
FaultRet == -1                                                \* what a read that raised the hook's exception "returns"
\* the in-place mutation used to probe sharing: append 9 / d[9] = 9 / add 9 (on the list member for t_cont)
Mutated(a, v) == CASE a \in {"d_plain", "a_dict"} -> IF \E k \in 1..Len(v) : v[k][1] = 9 THEN v ELSE Append(v, <<9, 9>>)
                   [] a = "s_plain" -> IF \E k \in 1..Len(v) : v[k] = 9 THEN v ELSE Append(v, 9)
                   [] a = "t_cont" -> <<Append(v[1], 9), v[2]>>
                   [] OTHER -> Append(v, 9)

\* a value slot: [set |-> 0 (never materialised) | 1, v |-> contents]; TLC cannot compare values of different shapes,
\* so an unset slot carries a neutral value of the attribute's own shape
Scalars == {"c_int", "o_int", "m_dyn", "n_int", "mp", "pf"}
Zero(a) == IF a \in Scalars THEN 0 ELSE IF a = "t_cont" THEN <<<<>>, 0>> ELSE <<>>
Unset(a) == [set |-> 0, v |-> Zero(a)]
Val(a, v) == [set |-> 1, v |-> v]
\* instance state: [vals : attr -> slot, runs : attr -> nat (default method runs), calls : nat,
\*                  extra : "none" | contents of an instance trait added with add_trait, regs : nat]
\*                  w : the slot of the attribute w1, which falls under the class's wildcard w_ = Int; wobs : observers the
\*                  instance registered for w1 with an expression that waits for the name to appear (optional trait)
NewInst == [vals |-> [a \in Attrs |-> Unset(a)], runs |-> [a \in Dynamic |-> 0], calls |-> 0, extra |-> [set |-> 0, v |-> <<>>], regs |-> 0,
            w |-> [set |-> 0, v |-> 0], wobs |-> 0]
Materialise(st, a, sub) ==
  IF st.vals[a].set = 1 THEN st
  ELSE [st EXCEPT !.vals[a] = Val(a, Default(a, sub)), !.runs = IF a \in Dynamic THEN [@ EXCEPT ![a] = @ + 1] ELSE @]

\* operations of an actor instance; result [st, ret]
\* a fault AFTER the default was computed and stored (the trait's post_setattr hook raising during the first read) does
\* not undo it: the default method has run once, the value is stored, later reads return it
Read(st, a, sub)   == LET s2 == Materialise(st, a, sub) IN
                      [st |-> s2, ret |-> IF a \in FaultOnFirstRead /\ st.vals[a].set = 0 /\ st.runs[a] = 0 THEN FaultRet ELSE s2.vals[a].v]         \* silent: calls unchanged
Mutate(st, a, sub) == LET s2 == Materialise(st, a, sub) IN
                      [st |-> [s2 EXCEPT !.vals[a] = Val(a, Mutated(a, @.v))], ret |-> "ok"]
\* assignment of a scalar attribute (c_int, o_int, m_dyn): handlers registered on the actor are called once per change
Assign(st, a, v, sub) == LET old == IF st.vals[a].set = 0 THEN Default(a, sub) ELSE st.vals[a].v
                             s1 == IF a \in Dynamic /\ a \in Handled /\ st.regs > 0 THEN Materialise(st, a, sub) ELSE st
                         IN [st |-> [s1 EXCEPT !.vals[a] = Val(a, v), !.calls = @ + (IF a \in Handled /\ (old # v \/ a = "n_int") THEN st.regs ELSE 0)], ret |-> "ok"]
\* del obj.a: back to the default.  With handlers registered on the attribute the default is re-materialised at once
\* (a dynamic default method runs again: "once per instance and attribute BETWEEN deletions") and reported like an
\* assignment of the default
Delete(st, a, sub) ==
  IF st.vals[a].set = 0 THEN [st |-> st, ret |-> "ok"]
  ELSE IF a \in Handled /\ st.regs > 0
       THEN LET s1 == Materialise([st EXCEPT !.vals[a] = Unset(a)], a, sub) IN
            [st |-> [s1 EXCEPT !.calls = @ + (IF st.vals[a].v # Default(a, sub) \/ a = "n_int" THEN st.regs ELSE 0)], ret |-> "ok"]
       ELSE [st |-> [st EXCEPT !.vals[a] = Unset(a)], ret |-> "ok"]
Register(st)       == [st |-> [st EXCEPT !.regs = @ + 1], ret |-> "ok"]                            \* a handler on every scalar attribute
AddTrait(st)       == [st |-> [st EXCEPT !.extra = [set |-> 1, v |-> <<>>]], ret |-> "ok"]                            \* add_trait("extra", List(Int))
MutateExtra(st)    == IF st.extra.set = 0 THEN [st |-> st, ret |-> "AttributeError"]
                      ELSE [st |-> [st EXCEPT !.extra.v = Append(@, 9), !.calls = @ + 1], ret |-> "ok"]   \* its own extra_items handler
\* observers on a name under a wildcard: told of the instance's own changes of w1, of nobody else's
WObserve(st) == [st |-> [st EXCEPT !.wobs = @ + 1], ret |-> "ok"]
WAssign(st, v) == [st |-> [st EXCEPT !.w = [set |-> 1, v |-> v], !.calls = @ + (IF st.w.v # v THEN st.wobs ELSE 0)], ret |-> "ok"]
Apply(op, st, a, v, sub) ==
  CASE op = "wobserve" -> WObserve(st) [] op = "wassign" -> WAssign(st, v)
    [] op = "read" -> Read(st, a, sub) [] op = "mutate" -> Mutate(st, a, sub) [] op = "assign" -> Assign(st, a, v, sub)
    [] op = "delete" -> Delete(st, a, sub) [] op = "register" -> Register(st) [] op = "add_trait" -> AddTrait(st)
    [] op = "mutate_extra" -> MutateExtra(st)
    [] op = "query" -> [st |-> st, ret |-> "ok"]        \* trait_names() / traits() / class_trait_names() / ...: pure
=============================================================================
