------------------------------ MODULE TraitList ------------------------------
(***************************************************************************)
(* Python list semantics (written from the language reference, NOT from    *)
(* traits' _normalize_slice_or_index) + item validation + the event law of *)
(* property C05.  Used for: case enumeration (mode A, TraitListMC),        *)
(* judging recorded executions (mode B, Trace_TraitList), and as the list  *)
(* layer of ContainerTraits (C04), SyncTrait (C20).                        *)
(***************************************************************************)
EXTENDS Integers, Sequences, FiniteSets, TLC

None == 1000           \* Python None in index / slice / return positions (an int so JSON can carry it)

\* ---- items and validators -------------------------------------------------
Valid     == (1..9) \cup (20..98)    \* ordinary items (the model checker uses 1..4; recorded test-suite traces up to 88)
Coercible == 11..19      \* 11 |-> 1 ... : e.g. "1" under an int-casting validator
Invalid   == {99}
AnyItem   == Valid \cup Coercible \cup Invalid
VModes    == {"id", "coerce", "strict", "once"}

\* "id": no validation; "coerce": casts Coercible items; "strict": only Valid items
\* "once": a validator that is NOT idempotent - it converts the raw (coercible) form and rejects everything else,
\* also what it produced itself: the items of the list are valid, yet validating them AGAIN would fail
Accepts(vm, x) == vm = "id" \/ (vm \in {"coerce", "strict"} /\ x \in Valid) \/ (vm \in {"coerce", "once"} /\ x \in Coercible)
V(vm, x)       == IF vm \in {"coerce", "once"} /\ x \in Coercible THEN x - 10 ELSE x
AllOK(vm, xs)  == \A i \in 1..Len(xs) : Accepts(vm, xs[i])
VSeq(vm, xs)   == [i \in 1..Len(xs) |-> V(vm, xs[i])]

PMin(a, b) == IF a < b THEN a ELSE b
PMax(a, b) == IF a > b THEN a ELSE b

\* ---- Python slice semantics -------------------------------------------------
\* slice(st, sp, stp).indices(n), stp # 0
SliceIndices(st, sp, stp, n) ==
  LET step  == IF stp = None THEN 1 ELSE stp
      lower == IF step < 0 THEN -1 ELSE 0
      upper == IF step < 0 THEN n - 1 ELSE n
      start == IF st = None THEN (IF step < 0 THEN upper ELSE lower)
               ELSE IF st < 0 THEN PMax(st + n, lower) ELSE PMin(st, upper)
      stop  == IF sp = None THEN (IF step < 0 THEN lower ELSE upper)
               ELSE IF sp < 0 THEN PMax(sp + n, lower) ELSE PMin(sp, upper)
  IN <<start, stop, step>>

\* positions (0-based) selected by range(start, stop, step), in order
RECURSIVE Positions(_, _, _)
Positions(start, stop, step) ==
  IF (step > 0 /\ start >= stop) \/ (step < 0 /\ start <= stop) THEN <<>>
  ELSE <<start>> \o Positions(start + step, stop, step)

PosSet(pos)   == {pos[i] : i \in 1..Len(pos)}
Sel(q, pos)   == [i \in 1..Len(pos) |-> q[pos[i] + 1]]
InRange(pos, n) == \A i \in 1..Len(pos) : pos[i] >= 0 /\ pos[i] < n
DelPos(q, ps) == LET keep == SelectSeq([i \in 1..Len(q) |-> i], LAMBDA i : (i - 1) \notin ps)
                 IN [i \in 1..Len(keep) |-> q[keep[i]]]
\* q with q[pos[k]] := vs[k]
ReplPos(q, pos, vs) == [j \in 1..Len(q) |->
                          IF \E k \in 1..Len(pos) : pos[k] = j - 1
                          THEN vs[CHOOSE k \in 1..Len(pos) : pos[k] = j - 1] ELSE q[j]]
Tail0(q, k) == SubSeq(q, k + 1, Len(q))         \* q[k:]   for 0 <= k
Head0(q, k) == SubSeq(q, 1, k)                  \* q[:k]   for 0 <= k <= Len(q)

\* ---- results ------------------------------------------------------------------
\* excs: the set of acceptable exception classes ("" = returns normally).  Where both an invalid
\* item and a list-level error apply, "the same operation on the validated items" does not exist
\* and either exception is a faithful answer.
Ok(post, ret)  == [post |-> post, ret |-> ret, excs |-> {""}]
Fail(pre, ex)  == [post |-> pre, ret |-> None, excs |-> ex]
ItemFail(ok, other) == IF ok THEN other ELSE other \cup {"TraitError"}

NormIdx(i, n) == IF i < 0 THEN i + n ELSE i

OpSetItem(s, vm, i, x) ==
  LET n == Len(s)  k == NormIdx(i, n)  bad == k < 0 \/ k >= n IN
  IF ~Accepts(vm, x) THEN Fail(s, IF bad THEN {"TraitError", "IndexError"} ELSE {"TraitError"})
  ELSE IF bad THEN Fail(s, {"IndexError"})
  ELSE Ok([s EXCEPT ![k + 1] = V(vm, x)], None)

OpSetSlice(s, vm, st, sp, stp, xs) ==
  LET n == Len(s) ok == AllOK(vm, xs) IN
  IF stp = 0 THEN Fail(s, ItemFail(ok, {"ValueError"}))
  ELSE LET ix  == SliceIndices(st, sp, stp, n)
           pos == Positions(ix[1], ix[2], ix[3])
           vs  == VSeq(vm, xs)
       IN IF ix[3] = 1
          THEN IF ~ok THEN Fail(s, {"TraitError"})
               ELSE Ok(Head0(s, ix[1]) \o vs \o Tail0(s, PMax(ix[1], ix[2])), None)
          ELSE IF Len(xs) # Len(pos) THEN Fail(s, ItemFail(ok, {"ValueError"}))
               ELSE IF ~ok THEN Fail(s, {"TraitError"})
               ELSE Ok(ReplPos(s, pos, vs), None)

OpDelItem(s, i) ==
  LET n == Len(s)  k == NormIdx(i, n) IN
  IF k < 0 \/ k >= n THEN Fail(s, {"IndexError"}) ELSE Ok(DelPos(s, {k}), None)

OpDelSlice(s, st, sp, stp) ==
  IF stp = 0 THEN Fail(s, {"ValueError"})
  ELSE LET ix == SliceIndices(st, sp, stp, Len(s)) IN
       Ok(DelPos(s, PosSet(Positions(ix[1], ix[2], ix[3]))), None)

OpAppend(s, vm, x) == IF Accepts(vm, x) THEN Ok(Append(s, V(vm, x)), None) ELSE Fail(s, {"TraitError"})
OpExtend(s, vm, xs) == IF AllOK(vm, xs) THEN Ok(s \o VSeq(vm, xs), None) ELSE Fail(s, {"TraitError"})

RECURSIVE Repeat(_, _)
Repeat(s, k) == IF k <= 0 THEN <<>> ELSE s \o Repeat(s, k - 1)
OpIMul(s, k) == Ok(Repeat(s, k), None)

OpInsert(s, vm, i, x) ==
  LET n == Len(s)  k == IF i < 0 THEN PMax(i + n, 0) ELSE PMin(i, n) IN
  IF Accepts(vm, x) THEN Ok(Head0(s, k) \o <<V(vm, x)>> \o Tail0(s, k), None) ELSE Fail(s, {"TraitError"})

OpPop(s, i) ==      \* i = None: pop()
  LET n == Len(s)  j == IF i = None THEN -1 ELSE i  k == NormIdx(j, n) IN
  IF k < 0 \/ k >= n THEN Fail(s, {"IndexError"}) ELSE Ok(DelPos(s, {k}), s[k + 1])

\* ---- items as OBJECTS: identity and == are different relations.  Items 105 and 106 are two distinct objects that
\* compare equal (twins); item 107 is an object that does not compare equal to anything, itself included (as float('nan')).
\* All other items are equal only to themselves.  The contents of a list are objects: sequences are compared item by
\* item by identity (so replacing 105 by its twin 106 is a change), while list.remove / index / count / in search with
\* "identical or equal" (PyObject_RichCompareBool), which finds 107 by identity although 107 == 107 is false.
Twin(x) == IF x = 105 THEN 106 ELSE IF x = 106 THEN 105 ELSE x
NotSelfEqual == 107
PyEq(x, y) == x # NotSelfEqual /\ y # NotSelfEqual /\ (x = y \/ Twin(x) = y)
SameOrEq(x, y) == x = y \/ PyEq(x, y)

OpRemove(s, x) ==   \* the argument is NOT validated (documented); the first item identical or equal to it goes
  IF \E i \in 1..Len(s) : SameOrEq(s[i], x)
  THEN Ok(DelPos(s, {(CHOOSE i \in 1..Len(s) : SameOrEq(s[i], x) /\ \A j \in 1..(i - 1) : ~SameOrEq(s[j], x)) - 1}), None)
  ELSE Fail(s, {"ValueError"})

OpReverse(s) == Ok([i \in 1..Len(s) |-> s[Len(s) + 1 - i]], None)

\* stable sort; keyed: key = x % 2 ; rev: descending keys, equal keys keep their original order
SortKey(keyed, x) == IF keyed = 1 THEN x % 2 ELSE x
OpSort(s, keyed, rev) ==
  LET n == Len(s)
      Before(i, j) == LET a == SortKey(keyed, s[i]) b == SortKey(keyed, s[j]) IN
                      IF a = b THEN i < j ELSE IF rev = 1 THEN a > b ELSE a < b
      Rank(i) == 1 + Cardinality({j \in 1..n : j # i /\ Before(j, i)})
  IN Ok([p \in 1..n |-> s[CHOOSE i \in 1..n : Rank(i) = p]], None)

OpClear(s) == Ok(<<>>, None)

\* TraitList(xs, item_validator=...): construction validates every item
OpConstruct(vm, xs) == IF AllOK(vm, xs) THEN Ok(VSeq(vm, xs), None) ELSE Fail(<<>>, {"TraitError"})

\* Uniform dispatch: a = <<a1, a2, a3>> integer arguments, xs = item sequence
Apply(op, s, vm, a, xs) ==
  CASE op = "setitem"   -> OpSetItem(s, vm, a[1], xs[1])
    [] op = "setslice"  -> OpSetSlice(s, vm, a[1], a[2], a[3], xs)
    [] op = "delitem"   -> OpDelItem(s, a[1])
    [] op = "delslice"  -> OpDelSlice(s, a[1], a[2], a[3])
    [] op = "append"    -> OpAppend(s, vm, xs[1])
    [] op = "extend"    -> OpExtend(s, vm, xs)
    [] op = "iadd"      -> OpExtend(s, vm, xs)
    [] op = "imul"      -> OpIMul(s, a[1])
    [] op = "insert"    -> OpInsert(s, vm, a[1], xs[1])
    [] op = "pop"       -> OpPop(s, a[1])
    [] op = "remove"    -> OpRemove(s, xs[1])
    [] op = "reverse"   -> OpReverse(s)
    [] op = "sort"      -> OpSort(s, a[1], a[2])
    [] op = "clear"     -> OpClear(s)
    [] op = "construct" -> OpConstruct(vm, xs)
    \* copy / deepcopy / pickle round trip: an equal list (C05 says nothing about copies: whether making one validates
    \* the items again - which a validator that is not idempotent then refuses - is left open)
    [] op = "copy"      -> IF vm = "once" THEN [post |-> s, ret |-> None, excs |-> {"", "TraitError"}] ELSE Ok(s, None)
Ops == {"setitem", "setslice", "delitem", "delslice", "append", "extend", "iadd", "imul", "insert",
        "pop", "remove", "reverse", "sort", "clear", "construct", "copy"}

\* ---- the event law of C05 -----------------------------------------------------
\* event = [slice |-> 0/1, a, b, c, removed, added]: integer index a (b = c = 0) or slice(a, b, c)
IntEv(i, rem, add)        == [slice |-> 0, a |-> i, b |-> 0, c |-> 0, removed |-> rem, added |-> add]
SliceEv(a, b, c, rem, add) == [slice |-> 1, a |-> a, b |-> b, c |-> c, removed |-> rem, added |-> add]

NormalForm(ev, n) ==
  IF ev.slice = 1 THEN 0 <= ev.a /\ ev.a < ev.b /\ ev.b <= n /\ ev.c >= 2
  ELSE 0 <= ev.a

RemovedOK(pre, ev) ==
  IF ev.slice = 1
  THEN LET pos == Positions(ev.a, ev.b, ev.c) IN InRange(pos, Len(pre)) /\ Sel(pre, pos) = ev.removed
  ELSE /\ ev.a + Len(ev.removed) <= Len(pre)
       /\ SubSeq(pre, ev.a + 1, ev.a + Len(ev.removed)) = ev.removed

\* replacing in the snapshot `pre` the removed items at index by the added items
Replay(pre, ev) ==
  IF ev.slice = 1
  THEN LET pos == Positions(ev.a, ev.b, ev.c) IN
       IF ev.added = <<>> THEN DelPos(pre, PosSet(pos))
       ELSE IF Len(ev.added) = Len(pos) THEN ReplPos(pre, pos, ev.added)
       ELSE <<"unreplayable">>
  ELSE IF ev.a > Len(pre) THEN <<"unreplayable">>
       ELSE Head0(pre, ev.a) \o ev.added \o Tail0(pre, PMin(ev.a + Len(ev.removed), Len(pre)))

EventOK(pre, ev, post) == NormalForm(ev, Len(pre)) /\ RemovedOK(pre, ev) /\ Replay(pre, ev) = post

EventsOK(pre, evs, post) ==
  /\ Len(evs) <= 1
  /\ pre # post => Len(evs) = 1
  /\ \A k \in 1..Len(evs) : EventOK(pre, evs[k], post)

=============================================================================
