------------------------------ MODULE ArrayTrait ------------------------------
(***************************************************************************)
(* Array / CArray / ArrayOrNone traits (property C01: "array dtype and     *)
(* shape"; traits/trait_numeric.py AbstractArray.validate).                *)
(*   Py(cfg, v)       transcription of AbstractArray.validate (and of      *)
(*                    ArrayOrNone.validate) on abstract values             *)
(*   InDomain(cfg, w) the DECLARED criteria, written from the class        *)
(*                    documentation only: a numpy array (None for          *)
(*                    ArrayOrNone) of the declared dtype whose shape       *)
(*                    conforms to the declared shape pattern               *)
(*   Default(cfg)     the documented default: zeros(min(shape))            *)
(* numpy's own rules (can_cast, what asarray infers from a list) are an    *)
(* ENVIRONMENT ASSUMPTION stated here as CanCast / Infer; the harness      *)
(* checks the assumption against the installed numpy before anything is    *)
(* judged (a mismatch is a machinery failure, never a violation).          *)
(***************************************************************************)
EXTENDS Integers, Sequences, FiniteSets, TLC

\* ---- dtypes: bool, int8, int64, int64 byte-swapped, float32, float64, float64 byte-swapped, complex128, unicode
Num == {"b1", "i1", "i8", "i8s", "f4", "f8", "f8s", "c16"}
Base(d) == CASE d = "i8s" -> "i8" [] d = "f8s" -> "f8" [] OTHER -> d
Kind(d) == CASE Base(d) = "b1" -> 0 [] Base(d) \in {"i1", "i8"} -> 1 [] Base(d) \in {"f4", "f8"} -> 2
             [] Base(d) = "c16" -> 3 [] OTHER -> 9
SafeTo(d) == CASE d = "b1" -> {"b1", "i1", "i8", "f4", "f8", "c16"} [] d = "i1" -> {"i1", "i8", "f4", "f8", "c16"}
               [] d = "i8" -> {"i8", "f8", "c16"} [] d = "f4" -> {"f4", "f8", "c16"} [] d = "f8" -> {"f8", "c16"}
               [] d = "c16" -> {"c16"} [] OTHER -> {d}
\* numpy.can_cast(a, b, casting=rule)
CanCast(a, b, rule) ==
  CASE rule = "no" -> a = b
    [] rule = "equiv" -> Base(a) = Base(b)
    [] rule = "safe" -> Base(b) \in SafeTo(Base(a))
    [] rule = "same_kind" -> Base(b) \in SafeTo(Base(a)) \/ (Kind(a) # 9 /\ Kind(b) # 9 /\ Kind(a) <= Kind(b))
    [] rule = "unsafe" -> TRUE

\* ---- abstract values
\* [ty, dt, shape, frac, rag]: ty "ndarray" | "ndsub" (a subclass of ndarray): dt the dtype, shape the shape, frac: the
\* contents include 2.5 (otherwise 0 / 1 only, which every numeric dtype represents); ty "list" | "tuple": dt the class
\* of the leaves ("b" bools, "i" ints, "f" floats, "if" ints and floats, "s" the text 'a', "e" no leaves), shape what
\* numpy infers, rag: ragged nesting; anything else: a non-sequence (None, int, float, str, numpy scalar, range, dict)
Val(ty, dt, shape, frac, rag) == [ty |-> ty, dt |-> dt, shape |-> shape, frac |-> frac, rag |-> rag]
NoneV == Val("none", "", <<>>, FALSE, FALSE)
IsArray(v) == v.ty \in {"ndarray", "ndsub"}
IsSeq(v) == v.ty \in {"list", "tuple"}
\* the dtype numpy.asarray infers for a list without a dtype argument
Infer(leaf) == CASE leaf = "b" -> "b1" [] leaf = "i" -> "i8" [] leaf \in {"f", "if", "e"} -> "f8" [] leaf = "s" -> "U1"

\* ---- configurations
\* [cls: "Array" | "CArray" | "ArrayOrNone", dt: "none" or a dtype, given: a shape pattern was declared, dims, casting]
\* a dimension pattern: [k: "any" (None) | "eq" (an int) | "rng" (a (low, high) pair, hi = -1: no upper bound), lo, hi]
Dim(k, lo, hi) == [k |-> k, lo |-> lo, hi |-> hi]
DimOK(d, n) == d.k = "any" \/ (d.k = "eq" /\ n = d.lo) \/ (d.k = "rng" /\ d.lo <= n /\ (d.hi = -1 \/ n <= d.hi))
ShapeOK(cfg, sh) == ~cfg.given \/ (Len(cfg.dims) = Len(sh) /\ \A k \in 1..Len(sh) : DimOK(cfg.dims[k], sh[k]))

\* ---- results
Store(w, same, eq) == [tag |-> "store", w |-> w, same |-> same, eq |-> eq]
Reject == [tag |-> "reject", w |-> NoneV, same |-> FALSE, eq |-> FALSE]
\* are the values of an array with contents (frac) unchanged by a conversion to dtype d?  (2.5 survives in float and
\* complex dtypes only; 0 and 1 survive everywhere)
Preserved(frac, d) == ~frac \/ Kind(d) \in {2, 3}

\* ---- AbstractArray.validate, step by step (every exception inside is swallowed into the TraitError)
\* step 1: not an ndarray -> must be a list or tuple -> asarray(value, dtype) / asarray(value)
\*         (asarray with a dtype converts the leaves directly: no casting rule applies to lists)
AsArray(cfg, v) ==
  IF v.rag THEN Reject                                                  \* inhomogeneous shape: ValueError
  ELSE IF cfg.dt = "none" THEN Store(Val("ndarray", Infer(v.dt), v.shape, v.frac, FALSE), FALSE, TRUE)
  ELSE IF v.dt = "s" THEN Reject                                        \* int('a'), float('a'), complex('a'): ValueError
  ELSE Store(Val("ndarray", cfg.dt, v.shape, v.frac /\ Kind(cfg.dt) \in {2, 3}, FALSE), FALSE, Preserved(v.frac, cfg.dt))
\* step 2: dtype differs -> astype(dtype, casting=casting)
AsType(cfg, r) ==
  IF r.tag # "store" \/ cfg.dt = "none" \/ r.w.dt = cfg.dt THEN r
  ELSE IF ~CanCast(r.w.dt, cfg.dt, cfg.casting) THEN Reject             \* TypeError of astype
  ELSE IF r.w.dt = "U1" THEN Reject                                     \* the text 'a' converted to a number: ValueError
  ELSE Store([r.w EXCEPT !.dt = cfg.dt, !.frac = r.w.frac /\ Kind(cfg.dt) \in {2, 3}], FALSE, r.eq /\ Preserved(r.w.frac, cfg.dt))
\* step 3: the shape pattern
CheckShape(cfg, r) == IF r.tag = "store" /\ ~ShapeOK(cfg, r.w.shape) THEN Reject ELSE r
Py(cfg, v) ==
  IF cfg.cls = "ArrayOrNone" /\ v.ty = "none" THEN Store(NoneV, TRUE, TRUE)
  ELSE IF IsArray(v) THEN CheckShape(cfg, AsType(cfg, Store(v, TRUE, TRUE)))
  ELSE IF IsSeq(v) THEN CheckShape(cfg, AsType(cfg, AsArray(cfg, v)))
  ELSE Reject

\* ---- the declared domain
InDomain(cfg, w) ==
  \/ cfg.cls = "ArrayOrNone" /\ w.ty = "none"
  \/ IsArray(w) /\ (cfg.dt = "none" \/ w.dt = cfg.dt) /\ ShapeOK(cfg, w.shape)

\* ---- the documented default: "zeros(min(shape)) ... If shape is not specified, the minimum shape is (0,)";
\* ArrayOrNone: None.  Without a dtype the zeros are ints.
MinDim(d) == IF d.k = "any" THEN 1 ELSE d.lo
Default(cfg) ==
  IF cfg.cls = "ArrayOrNone" THEN NoneV
  ELSE Val("ndarray", IF cfg.dt = "none" THEN "i8" ELSE cfg.dt,
           IF cfg.given THEN [k \in 1..Len(cfg.dims) |-> MinDim(cfg.dims[k])] ELSE <<0>>, FALSE, FALSE)
=============================================================================
