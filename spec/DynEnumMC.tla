------------------------------ MODULE DynEnumMC ------------------------------
EXTENDS DynEnum
CONSTANT MaxDepth
VARIABLES st, last, depth
vars == <<st, last, depth>>
Lists == {<<>>, <<1>>, <<2, 3>>, <<3, 1, 2>>, <<2, 2>>}
Init == st = [vals |-> <<1, 2>>, stored |-> Unset] /\ last = [op |-> "init"] /\ depth = 0
Do(op, v, vs) == LET r == Apply(st, op, v, vs) IN
                 st' = r.st /\ last' = [op |-> op, v |-> v, pre |-> st, exc |-> r.exc, val |-> r.val] /\ depth' = depth + 1
Next == depth < MaxDepth /\ (Do("read", 0, <<>>) \/ (\E v \in {1, 2, 3, Bad} : Do("assign", v, <<>>)) \/ (\E vs \in Lists : Do("setvals", 0, vs)))
Spec == Init /\ [][Next]_vars
\* no value outside the declared domain is ever readable (an empty enumeration has no member to read)
C01_ReadInDomain == (last.op = "read" /\ last.pre.vals # <<>>) => InDomain(last.pre, last.val)
C01_AssignedIsMember == (last.op = "assign" /\ last.exc = "") => InDomain(last.pre, last.v) /\ st.stored = last.v
C01_RejectedNoEffect == (last.op = "assign" /\ last.exc # "") => st = last.pre
=============================================================================
