------------------------------- MODULE NotifyMC -------------------------------
EXTENDS Notify
CONSTANTS MaxDepth,
          AllRegistered     \* TRUE: every run-time mechanism registered throughout (case enumeration); FALSE: reg / unreg are operations
VARIABLES cfg, val, regs, mat, last, depth
vars == <<cfg, val, regs, mat, last, depth>>
Cfgs == [mode : Modes, kind : Kinds, typed : BOOLEAN, shape : Shapes]
Init == /\ cfg \in Cfgs /\ val = "unset" /\ last = [op |-> "init"] /\ depth = 0
        /\ regs = (IF AllRegistered THEN Dynamic ELSE {}) /\ mat = AllRegistered
Do(op, v) ==
  LET r == Apply(op, cfg, val, v, regs) IN
  /\ val' = r.val
  /\ regs' = RegsAfterCalls(op, regs, v, r.calls)
  /\ mat' = (mat \/ (op = "reg" /\ v \in TraitLevel))       \* the trait's own notifier list, once created, stays
  /\ last' = [op |-> op, v |-> v, cfg |-> cfg, pre |-> val, post |-> r.val, exc |-> r.exc, calls |-> r.calls, regs |-> regs, mat |-> mat]
  /\ depth' = depth + 1 /\ UNCHANGED cfg
Next == depth < MaxDepth /\
        \/ \E v \in Tokens : Do("assign", v) \/ Do("assign1", v) \/ Do("setq", v) \/ Do("setq2", v)
        \/ Do("read", "none") \/ Do("delete", "none")
        \/ ~AllRegistered /\ \E m \in Dynamic : IF m \in regs THEN Do("unreg", m) ELSE Do("reg", m)
Spec == Init /\ [][Next]_vars

\* ---- C02 as TLC decides it
Reg(m) == Registered(cfg, last.regs, m)
IsAssign == last.op \in {"assign", "assign1"} /\ last.exc = "" /\ cfg.kind = "trait"
\* every registered handler is called exactly once iff the assignment is a change in the property's sense; nobody else is
ExactlyOnce == IsAssign =>
  \A m \in Mechs : Len(last.calls[m]) = (IF Reg(m) /\ IsChange(cfg.mode, Readable(last.pre), last.v) THEN 1 ELSE 0)
\* truthful old/new: what was readable before, what is readable after
Truthful == IsAssign => \A m \in Mechs : \A k \in 1..Len(last.calls[m]) :
                           last.calls[m][k] = <<Readable(last.pre), Readable(last.post)>>
\* all registered mechanisms see the same sequence
SameSequence == last.op # "init" => \A m1, m2 \in {m \in Mechs : Reg(m)} : last.calls[m1] = last.calls[m2]
UnregisteredSilent == last.op # "init" => \A m \in Mechs : ~Reg(m) => last.calls[m] = <<>>
RejectedSilent == last.op # "init" /\ last.exc # "" /\ last.op # "setq2" => last.post = last.pre /\ last.calls = NoCalls
QuietSilent == last.op \in {"setq", "setq2", "reg", "unreg"} => last.calls = NoCalls
DefaultReadSilent == last.op = "read" => last.calls = NoCalls
EventAlways == last.op \in {"assign", "assign1"} /\ cfg.kind = "event" /\ last.exc = "" =>
                 \A m \in Mechs : last.calls[m] = (IF Reg(m) THEN <<<<"undef", last.v>>>> ELSE <<>>)
\* the dispatch guard of the code never hides a registered handler
GuardTransparent == \A m \in Mechs : Registered(cfg, regs, m) => HasNotifiers(cfg, regs)
=============================================================================
