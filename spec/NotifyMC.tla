------------------------------- MODULE NotifyMC -------------------------------
EXTENDS Notify
CONSTANTS MaxDepth
VARIABLES cfg, val, last, depth
vars == <<cfg, val, last, depth>>
Cfgs == [mode : Modes, kind : Kinds, typed : BOOLEAN]
Init == cfg \in Cfgs /\ val = "unset" /\ last = [op |-> "init"] /\ depth = 0
Do(op, v) ==
  LET r == Apply(op, cfg, val, v) IN
  /\ val' = r.val
  /\ last' = [op |-> op, v |-> v, cfg |-> cfg, pre |-> val, post |-> r.val, exc |-> r.exc, calls |-> r.calls]
  /\ depth' = depth + 1 /\ UNCHANGED cfg
Next == depth < MaxDepth /\ (\E v \in Tokens : Do("assign", v) \/ Do("read", "none") \/ Do("delete", "none"))
Spec == Init /\ [][Next]_vars

\* ---- C02 as TLC decides it
IsAssign == last.op = "assign" /\ last.exc = "" /\ cfg.kind = "trait"
\* every mechanism is called exactly once iff the assignment is a change in the property's sense
ExactlyOnce == IsAssign =>
  \A m \in Mechs : Len(last.calls[m]) = (IF IsChange(cfg.mode, Readable(last.pre), last.v) THEN 1 ELSE 0)
\* truthful old/new: what was readable before, what is readable after
Truthful == IsAssign => \A m \in Mechs : \A k \in 1..Len(last.calls[m]) :
                           last.calls[m][k] = <<Readable(last.pre), Readable(last.post)>>
\* all mechanisms see the same sequence
SameSequence == last.op # "init" => \A m1, m2 \in Mechs : last.calls[m1] = last.calls[m2]
RejectedSilent == last.op # "init" /\ last.exc # "" => last.post = last.pre /\ last.calls = NoCalls
DefaultReadSilent == last.op = "read" => last.calls = NoCalls
EventAlways == last.op = "assign" /\ cfg.kind = "event" /\ last.exc = "" =>
                 \A m \in Mechs : last.calls[m] = <<<<"undef", last.v>>>>
=============================================================================
