--------------------------- MODULE Trace_TraitDict ---------------------------
EXTENDS TraitDict, Json, IOUtils
Trace == ndJsonDeserialize(IOEnv.TRACE_FILE)
N == Len(Trace)
VARIABLE i
NB == 64
BSize == (N + NB - 1) \div NB
Init == i = 0
Next == \/ i = 0 /\ i' \in {-b : b \in 1..NB}
        \/ i < 0 /\ i' \in (((-i) - 1) * BSize + 1)..(IF (-i) * BSize < N THEN (-i) * BSize ELSE N)
Spec == Init /\ [][Next]_i

Outcome(c, r) ==
     (IF c.exc \in r.excs THEN {} ELSE {"exception"})
     \cup (IF WellFormed(c.post) /\ DictEq(c.post, r.post) THEN {} ELSE {"contents"})
     \cup (IF c.ret = r.ret THEN {} ELSE {"return"})
\* Owner-level records ("owner" in the record): the TraitDict is the value of a Dict trait; pre / post are the contents of
\* the owner's attribute and evs the <name>_items events the OWNER's handlers received.  stale = 1: the operation was
\* applied to a former value of the attribute (detached by a reassignment): the attribute and its handlers must not notice.
IsStale(c) == "stale" \in DOMAIN c /\ c.stale = 1
Clauses(c) ==
  IF IsStale(c) THEN (IF c.post = c.pre THEN {} ELSE {"detached-value-changed-the-attribute"})
                     \cup (IF c.evs = <<>> THEN {} ELSE {"detached-value-notified-the-owner"})
  ELSE
  LET r == Apply(c.op, c.pre, c.kvm, c.vvm, c.a, c.ps)
      kf == c.op = "setdefault" /\ KF14Guard(c.pre, c.kvm, c.vvm, c.a[1], c.a[2])
      o1 == Outcome(c, r)
      o2 == IF kf THEN Outcome(c, OpSetDefault_KF14(c.pre, c.kvm, c.vvm, c.a[1], c.a[2])) ELSE o1
  IN (IF o1 = {} THEN {} ELSE IF kf /\ o2 = {} THEN {"KF14"} ELSE o1)
     \cup (IF "suite" \in DOMAIN c \/ "owner" \in DOMAIN c \/ c.builtin = r.post THEN {} ELSE {"spec-vs-builtin-dict"})   \* (test-suite records carry no builtin twin)
     \cup (IF (IF c.op \in {"construct", "copy", "assign"} THEN c.evs = <<>> ELSE EventsOK(c.pre, c.evs, c.post))
           THEN {} ELSE {"event-law"})
Judge == i <= 0 \/ LET f == Clauses(Trace[i]) IN IF f = {} THEN TRUE ELSE PrintT(<<"REJECT", i, f>>)
AllJudged == TLCGet("distinct") = N + NB + 1
=============================================================================
