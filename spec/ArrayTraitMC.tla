----------------------------- MODULE ArrayTraitMC -----------------------------
(* One state per (array trait configuration, value): TLC decides C01 for Array traits on the specification and    *)
(* enumerates the cases the harness runs on real traits.                                                           *)
EXTENDS ArrayTrait
CONSTANTS Castings, Classes           \* the casting rules / trait classes of this tier
VARIABLES cfg, v, last
vars == <<cfg, v, last>>

Cfg(cls, dt, given, dims, casting) == [cls |-> cls, dt |-> dt, given |-> given, dims |-> dims, casting |-> casting]
AnyD == Dim("any", 0, 0)
Eq(n) == Dim("eq", n, n)
Rng(lo, hi) == Dim("rng", lo, hi)
Patterns == { <<FALSE, <<>>>>, <<TRUE, <<>>>>, <<TRUE, <<AnyD>>>>, <<TRUE, <<Eq(2)>>>>, <<TRUE, <<Eq(0)>>>>,
              <<TRUE, <<Rng(1, 2)>>>>, <<TRUE, <<Rng(3, -1)>>>>, <<TRUE, <<Rng(0, 0)>>>>,
              <<TRUE, <<AnyD, Eq(3)>>>>, <<TRUE, <<Eq(2), Rng(2, 3)>>>>, <<TRUE, <<Rng(2, -1), AnyD>>>>,
              <<TRUE, <<Eq(1), Eq(2), Eq(3)>>>> }
DTypes == {"none", "b1", "i1", "i8", "f4", "f8", "c16", "i8s"}
Cfgs == {Cfg(cls, dt, p[1], p[2], c) : cls \in Classes, dt \in DTypes, p \in Patterns, c \in Castings}

Shapes == {<<>>, <<0>>, <<1>>, <<2>>, <<3>>, <<2, 3>>, <<3, 2>>, <<2, 0>>, <<1, 2, 3>>}
Arrays == {Val(ty, dt, sh, fr, FALSE) : ty \in {"ndarray"}, dt \in Num \cup {"U1"}, sh \in Shapes, fr \in BOOLEAN}
          \cup {Val("ndsub", dt, sh, FALSE, FALSE) : dt \in {"i8", "f8"}, sh \in {<<2>>, <<2, 3>>}}
GoodArray(a) == (a.frac => Kind(a.dt) \in {2, 3}) /\ ((a.frac \/ a.dt = "U1") => \A k \in 1..Len(a.shape) : a.shape[k] > 0)    \* (an empty text array converts to anything)
Seqs == {Val(ty, leaf, sh, leaf \in {"f", "if"}, FALSE) : ty \in {"list", "tuple"}, leaf \in {"b", "i", "f", "if", "s"},
                                                         sh \in {<<2>>, <<3>>, <<2, 3>>, <<1, 2, 3>>}}
        \cup {Val(ty, "e", <<0>>, FALSE, FALSE) : ty \in {"list", "tuple"}}
        \cup {Val("list", "i", <<2>>, FALSE, TRUE), Val("tuple", "f", <<2>>, FALSE, TRUE)}        \* ragged nestings
Others == {Val(ty, "", <<>>, FALSE, FALSE) : ty \in {"none", "int", "float", "str", "npscalar", "range", "dict", "bytes"}}
Vals == {a \in Arrays : GoodArray(a)} \cup Seqs \cup Others
\* outside the model: text converted to bool (numpy makes every non-empty text True: nothing Traits decides)
InModel(c, x) == ~(c.dt = "b1" /\ x.dt \in {"U1", "s"})

Init == /\ cfg \in Cfgs /\ v \in Vals /\ InModel(cfg, v)
        /\ last = [py |-> Py(cfg, v), default |-> Default(cfg)]
Next == UNCHANGED vars
Spec == Init /\ [][Next]_vars

\* ---- C01 on the specification
C01_StoredInDomain == last.py.tag = "store" => InDomain(cfg, last.py.w)
\* a value that already satisfies the declared criteria is stored as it is (the very object)
C01_DomainValuesKept == InDomain(cfg, v) => last.py = Store(v, TRUE, TRUE)
\* validating a stored value again changes nothing (what is readable would be accepted again, unchanged)
C01_Idempotent == last.py.tag = "store" => Py(cfg, last.py.w) = Store(last.py.w, TRUE, TRUE)
\* only arrays and (for ArrayOrNone) None are ever stored; conversions never change the shape
C01_ShapeKept == (last.py.tag = "store" /\ last.py.w.ty # "none") => last.py.w.shape = v.shape
\* the casting rule is honoured: an ndarray whose dtype differs is accepted only if numpy allows the cast
C01_CastingRule == (IsArray(v) /\ cfg.dt # "none" /\ v.dt # cfg.dt /\ last.py.tag = "store") => CanCast(v.dt, cfg.dt, cfg.casting)
\* values are preserved by every conversion numpy calls safe
C01_SafePreserves == (IsArray(v) /\ last.py.tag = "store" /\ cfg.dt # "none" /\ CanCast(v.dt, cfg.dt, "safe")) => last.py.eq
\* the documented default lies in the declared domain
C01_DefaultInDomain == InDomain(cfg, last.default)
=============================================================================
