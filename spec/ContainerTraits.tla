--------------------------- MODULE ContainerTraits ---------------------------
(***************************************************************************)
(* List(T, minlen, maxlen), Dict(K, V), Set(T) trait attributes and the    *)
(* nested List(List(T)) / Dict(K, List(T)) (property C04).  The container  *)
(* semantics are those of TraitList / TraitDict / TraitSet (instantiated), *)
(* on top: length bounds, whole-value assignment, nesting.                 *)
(***************************************************************************)
EXTENDS Integers, Sequences, FiniteSets, TLC
L == INSTANCE TraitList
D == INSTANCE TraitDict
S == INSTANCE TraitSet

None == 1000
Inf  == 999                                  \* maxlen "unbounded"
LenOK(n, lo, hi) == lo <= n /\ n <= hi
PMax(a, b) == IF a > b THEN a ELSE b

Fail(pre, ex) == [post |-> pre, ret |-> None, excs |-> ex]

\* ---- List(T, lo, hi): in-place operation on the attribute's value ------------------------------
\* TraitListObject checks the would-be length before delegating; for delitem/pop/remove that check
\* uses len-1 even when the list-level operation is going to fail, so both answers are faithful.
ListOp(s, vm, lo, hi, op, a, xs) ==
  LET r == L!Apply(op, s, vm, a, xs) IN
  IF r.excs = {""}
  THEN IF LenOK(Len(r.post), lo, hi) THEN r ELSE Fail(s, {"TraitError"})
  ELSE IF op \in {"delitem", "pop", "remove"} /\ ~LenOK(PMax(Len(s) - 1, 0), lo, hi)
       THEN [r EXCEPT !.excs = @ \cup {"TraitError"}]
       ELSE r

\* whole-value assignment: c = [islist, items]
ListAccepts(vm, lo, hi, c) == c.islist = 1 /\ LenOK(Len(c.items), lo, hi) /\ L!AllOK(vm, c.items)
ListAssign(s, vm, lo, hi, c) ==
  IF ListAccepts(vm, lo, hi, c) THEN [post |-> L!VSeq(vm, c.items), ret |-> None, excs |-> {""}]
  ELSE Fail(s, {"TraitError"})

\* the first read of a never-assigned List trait gives the declared default - here the empty list; a default outside
\* minlen..maxlen must never be held: the read is refused (s: what a sibling object holds, untouched)
ListDefault(s, lo, hi) == IF LenOK(0, lo, hi) THEN [post |-> <<>>, ret |-> None, excs |-> {""}] ELSE Fail(s, {"TraitError"})
\* del obj.xs / reset_traits: back to the default (modelled where the default is legal)
ListReset(s, lo, hi) == [post |-> <<>>, ret |-> None, excs |-> {""}]

ListInv(s, vm, lo, hi) == LenOK(Len(s), lo, hi) /\ \A i \in 1..Len(s) : s[i] \in L!Valid

\* ---- List(List(T, ilo, ihi), lo, hi) --------------------------------------------------------------
\* Outer operations reuse the list semantics on *table indices*: the current inner lists and the
\* validated candidate values are numbered and L!Apply runs on the numbers with the identity validator.
NestOuter(ss, vm, ilo, ihi, lo, hi, op, a, cs) ==
  LET n   == Len(ss)
      ok  == \A i \in 1..Len(cs) : ListAccepts(vm, ilo, ihi, cs[i])
      tab == ss \o [i \in 1..Len(cs) |-> L!VSeq(vm, cs[i].items)]
      r   == ListOp([i \in 1..n |-> i], "id", lo, hi, op, a, [i \in 1..Len(cs) |-> n + i])
  IN IF r.excs = {""}
     THEN IF ok THEN [post |-> [i \in 1..Len(r.post) |-> tab[r.post[i]]],
                      ret |-> None, excs |-> {""}]
          ELSE Fail(ss, {"TraitError"})
     ELSE Fail(ss, IF ok THEN r.excs ELSE r.excs \cup {"TraitError"})
NestInner(ss, vm, ilo, ihi, j, op, a, xs) ==
  IF j < 0 \/ j >= Len(ss) THEN Fail(ss, {"IndexError"})
  ELSE LET r == ListOp(ss[j + 1], vm, ilo, ihi, op, a, xs) IN
       [post |-> [ss EXCEPT ![j + 1] = r.post], ret |-> r.ret, excs |-> r.excs]
NestAccepts(vm, ilo, ihi, lo, hi, c) ==
  c.islist = 1 /\ LenOK(Len(c.items), lo, hi) /\ \A i \in 1..Len(c.items) : ListAccepts(vm, ilo, ihi, c.items[i])
NestAssign(ss, vm, ilo, ihi, lo, hi, c) ==
  IF NestAccepts(vm, ilo, ihi, lo, hi, c)
  THEN [post |-> [i \in 1..Len(c.items) |-> L!VSeq(vm, c.items[i].items)], ret |-> None, excs |-> {""}]
  ELSE Fail(ss, {"TraitError"})
NestInv(ss, vm, ilo, ihi, lo, hi) ==
  LenOK(Len(ss), lo, hi) /\ \A i \in 1..Len(ss) : ListInv(ss[i], vm, ilo, ihi)

\* ---- Dict(K, V) and Set(T): the container semantics with both validators from the inner traits
DictOp(d, kvm, vvm, op, a, ps) == D!Apply(op, d, kvm, vvm, a, ps)
DictAssign(d, kvm, vvm, c) ==      \* c = [isdict, ps]
  IF c.isdict = 1 /\ D!PairsOK(kvm, vvm, c.ps)
  THEN [post |-> D!PutAll(<<>>, D!VPairs(kvm, vvm, c.ps)), ret |-> <<None>>, excs |-> {""}]
  ELSE [post |-> d, ret |-> <<None>>, excs |-> {"TraitError"}]
DictInv(d, kvm, vvm) == D!WellFormed(d) /\ \A i \in 1..Len(d) : d[i][1] \in D!Valid /\ d[i][2] \in D!Valid

SetOp(s, vm, op, a, As, got) == S!Apply(op, s, vm, a, As, got)
SetAssign(s, vm, c) ==             \* c = [isset, items]
  IF c.isset = 1 /\ S!AllOK(vm, c.items) THEN [post |-> S!VSet(vm, c.items), ret |-> None, excs |-> {""}]
  ELSE [post |-> s, ret |-> None, excs |-> {"TraitError"}]
SetInv(s) == s \subseteq S!Valid

\* ---- Dict(K, List(T, ilo, ihi)) ----------------------------------------------------------------
\* d: pair sequence key -> inner list.  setitem / setdefault / update with candidate lists; inner ops.
DLAccepts(kvm, vm, ilo, ihi, k, c) == D!Accepts(kvm, k) /\ ListAccepts(vm, ilo, ihi, c)
DLSetItem(d, kvm, vm, ilo, ihi, k, c) ==
  IF DLAccepts(kvm, vm, ilo, ihi, k, c)
  THEN [post |-> D!Put(d, D!V(kvm, k), L!VSeq(vm, c.items)), ret |-> None, excs |-> {""}]
  ELSE Fail(d, {"TraitError"})
DLDelItem(d, k) == IF D!Has(d, k) THEN [post |-> D!Del(d, k), ret |-> None, excs |-> {""}] ELSE Fail(d, {"KeyError"})
DLInner(d, vm, ilo, ihi, k, op, a, xs) ==
  IF ~D!Has(d, k) THEN Fail(d, {"KeyError"})
  ELSE LET r == ListOp(D!Get(d, k), vm, ilo, ihi, op, a, xs) IN
       [post |-> D!Put(d, k, r.post), ret |-> r.ret, excs |-> r.excs]
DLInv(d, kvm, vm, ilo, ihi) ==
  D!WellFormed(d) /\ \A i \in 1..Len(d) : d[i][1] \in D!Valid /\ ListInv(d[i][2], vm, ilo, ihi)
\* Transfer: a container attribute's value survives deepcopy / clone_traits / copy_traits / pickling / constructor keyword /
\* assignment of another object's container of the same trait, and the receiving attribute is governed by the same
\* trait: every operation on the receiver has the outcome the operations above give for that value.
Transfer(v) == v
=============================================================================
