------------------------------- MODULE NamesMC -------------------------------
EXTENDS Names
CONSTANTS MaxDepth,
          AdmitLevels      \* the wildcard declaration levels combined with an admitting listener (quick tier: fewer)
\* hist: the operations so far (mode A replays the whole history on a fresh class and instance)
VARIABLES cfg, name, st, last, depth, hist
vars == <<cfg, name, st, last, depth, hist>>
Levels == {"absent", "base", "sub"}
Cfgs == [base : {"plain", "strict", "private"}, wf : Levels, wfo : Levels, wu : Levels, explicit : BOOLEAN, admit : {FALSE}]
        \cup [base : {"plain", "strict", "private"}, wf : AdmitLevels, wfo : AdmitLevels, wu : AdmitLevels, explicit : BOOLEAN, admit : {TRUE}]
NamePool == {NFoo, <<"f", "o">>, <<"f">>, <<"f", "o", "x">>, <<"x">>, <<"_", "x">>, <<"_", "f", "o">>,
             <<"_", "_", "x", "_", "_">>, <<"_", "_", "x">>, <<"r">>, <<"k">>, <<"e">>}
AddPolicies == {"int", "str", "readonly", "event", "property"}
Init == /\ cfg \in Cfgs /\ name \in NamePool
        /\ st = St0
        /\ last = [op |-> "init"] /\ depth = 0 /\ hist = <<>>
Do(op, arg) ==
  LET r == Apply(op, cfg, st, name, arg) IN
  /\ st' = r.st
  /\ last' = [op |-> op, arg |-> arg, cfg |-> cfg, name |-> name, pre |-> st, post |-> r.st, res |-> r.res]
  /\ hist' = Append(hist, <<op, arg>>)
  /\ depth' = depth + 1 /\ UNCHANGED <<cfg, name>>
Next == depth < MaxDepth /\
        (Do("get", "none") \/ Do("del", "none") \/ Do("remove_trait", "none") \/ (st.itrait # "none" /\ Do("listen", "none"))
         \/ (\E v \in {"i5", "s"} : Do("set", v)) \/ (\E p \in AddPolicies : Do("add_trait", p))
         \/ (\E w \in {"f", "fo"} : ~Declared(cfg, PrefixOf(w)) /\ PrefixOf(w) \notin st.dyn /\ Do("add_wild", w)))
Spec == Init /\ [][Next]_vars

\* ---- C13 as TLC decides it on the specification
StrictRejects == (last.op # "init" /\ cfg.base # "plain" /\ ~cfg.admit /\ last.pre.itrait = "none" /\ last.pre.stored = "unset"
                  /\ last.pre.cpol = "none" /\ ~(cfg.explicit /\ ExplicitPolicy(name) # "none") /\ ~IsDunder(name)
                  /\ LongestPrefix(cfg, last.pre.dyn, name) = <<>>)
                 => (last.op = "get" => last.res = "AttributeError") /\ (last.op = "set" => last.res = "TraitError")
ConstantNeverChanges == Governing(cfg, st, name) = "constant" /\ last.op = "set" => last.res = "TraitError"
EventWriteOnly == last.op = "get" /\ Governing(cfg, Admitted(cfg, last.pre, name), name) = "event" /\ last.pre.stored = "unset"
                  => last.res = "AttributeError"
ReadOnlyOnce == last.op = "set" /\ Governing(cfg, Admitted(cfg, last.pre, name), name) = "readonly" /\ last.pre.stored \in {"i5", "s"}
                => last.res = "TraitError"
RemoveRestores == last.op = "remove_trait" => st.itrait = "none" /\ Governing(cfg, st, name) = Governing(cfg, [last.pre EXCEPT !.itrait = "none"], name)
LongestWins == \A p \in DOMAIN Wild(cfg, st.dyn) : HasPrefix(name, p) => Len(p) <= Len(LongestPrefix(cfg, st.dyn, name))
\* a name first resolved under an admitting listener is governed by the admitted instance trait at once
AdmitImmediate == last.op \in {"get", "set", "del"} /\ cfg.admit /\ ThroughWildcard(cfg, last.pre, name) /\ last.pre.cpol = "none"
                  => st.itrait = "int" /\ (last.op = "set" /\ last.arg = "s" => last.res = "TraitError")
=============================================================================
