------------------------------- MODULE NamesMC -------------------------------
EXTENDS Names
CONSTANTS MaxDepth
\* hist: the operations so far (mode A replays the whole history on a fresh class and instance)
VARIABLES cfg, name, st, last, depth, hist
vars == <<cfg, name, st, last, depth, hist>>
Levels == {"absent", "base", "sub"}
Cfgs == [base : {"plain", "strict", "private"}, wf : Levels, wfo : Levels, wu : Levels, explicit : BOOLEAN]
NamePool == {NFoo, <<"f", "o">>, <<"f">>, <<"f", "o", "x">>, <<"x">>, <<"_", "x">>, <<"_", "f", "o">>,
             <<"_", "_", "x", "_", "_">>, <<"_", "_", "x">>, <<"r">>, <<"k">>, <<"e">>}
AddPolicies == {"int", "str", "readonly", "event", "property"}
Init == /\ cfg \in Cfgs /\ name \in NamePool
        /\ st = [itrait |-> "none", stored |-> "unset", cached |-> FALSE]
        /\ last = [op |-> "init"] /\ depth = 0 /\ hist = <<>>
Do(op, arg) ==
  LET r == Apply(op, cfg, st, name, arg) IN
  /\ st' = r.st
  /\ last' = [op |-> op, arg |-> arg, cfg |-> cfg, name |-> name, pre |-> st, post |-> r.st, res |-> r.res]
  /\ hist' = Append(hist, <<op, arg>>)
  /\ depth' = depth + 1 /\ UNCHANGED <<cfg, name>>
Next == depth < MaxDepth /\
        (Do("get", "none") \/ Do("del", "none") \/ Do("remove_trait", "none")
         \/ (\E v \in {"i5", "s"} : Do("set", v)) \/ (\E p \in AddPolicies : Do("add_trait", p)))
Spec == Init /\ [][Next]_vars

\* ---- C13 as TLC decides it on the specification
Undeclared == st.itrait = "none" /\ ~(cfg.explicit /\ ExplicitPolicy(name) # "none") /\ ~IsDunder(name)
              /\ LongestPrefix(cfg, name) = <<>>
StrictRejects == (last.op # "init" /\ cfg.base # "plain" /\ last.pre.itrait = "none" /\ last.pre.stored = "unset"
                  /\ ~(cfg.explicit /\ ExplicitPolicy(name) # "none") /\ ~IsDunder(name) /\ LongestPrefix(cfg, name) = <<>>)
                 => (last.op = "get" => last.res = "AttributeError") /\ (last.op = "set" => last.res = "TraitError")
ConstantNeverChanges == Governing(cfg, st.itrait, name) = "constant" /\ last.op = "set" => last.res = "TraitError"
EventWriteOnly == last.op = "get" /\ Governing(cfg, last.pre.itrait, name) = "event" /\ last.pre.stored = "unset"
                  => last.res = "AttributeError"
ReadOnlyOnce == last.op = "set" /\ Governing(cfg, last.pre.itrait, name) = "readonly" /\ last.pre.stored \in {"i5", "s"}
                => last.res = "TraitError"
RemoveRestores == last.op = "remove_trait" => Governing(cfg, st.itrait, name) = Governing(cfg, "none", name)
LongestWins == \A p \in DOMAIN Wild(cfg) : HasPrefix(name, p) => Len(p) <= Len(LongestPrefix(cfg, name))
=============================================================================
