-------------------------- MODULE ContainerTraitsMC --------------------------
(* History model of one container attribute.  Two uses:                                        *)
(*  - CaseMode = TRUE : one step per case, every state a complete case (mode A, dumped)        *)
(*  - CaseMode = FALSE: histories up to depth MaxDepth with the C04 invariants checked by TLC  *)
EXTENDS ContainerTraits
CONSTANTS CaseMode, MaxDepth, MaxIdx, Kinds, Thin
VARIABLES cfg, val, last, depth
vars == <<cfg, val, last, depth>>

Bounds == {<<0, Inf>>, <<1, 3>>, <<2, 2>>}
InnerBounds == {<<0, Inf>>, <<0, 2>>}
TModes == {"coerce", "strict"}
Idx == (-MaxIdx)..MaxIdx
OptIdx == Idx \cup {None}
Steps == {None, -2, -1, 1, 2, 0}
ItemArgs == {3, 11, 99}
XS == {<<>>, <<3>>, <<3, 4>>, <<11>>, <<3, 99>>, <<4, 3, 4>>}
SeqsUpTo(A, n) == UNION {[1..k -> A] : k \in 0..n}
LC(items) == [islist |-> 1, items |-> items]
ListCands == {LC(q) : q \in XS} \cup {LC(<<1, 2, 3, 4>>), [islist |-> 0, items |-> <<3>>]}
InnerCands == {LC(<<>>), LC(<<3>>), LC(<<11, 4>>), LC(<<3, 99>>), LC(<<1, 2, 3>>), [islist |-> 0, items |-> <<>>]}

ListCfgs == {[kind |-> "list", vm |-> m, lo |-> b[1], hi |-> b[2]] : m \in TModes, b \in Bounds}
NestCfgs == {[kind |-> "listlist", vm |-> m, lo |-> b[1], hi |-> b[2], ilo |-> ib[1], ihi |-> ib[2]]
               : m \in TModes, b \in {<<0, Inf>>, <<1, 3>>}, ib \in InnerBounds}
DictCfgs == {[kind |-> "dict", kvm |-> k, vvm |-> v] : k \in TModes, v \in TModes}
SetCfgs  == {[kind |-> "set", vm |-> m] : m \in TModes}
DLCfgs   == {[kind |-> "dictlist", kvm |-> k, vm |-> m, ilo |-> ib[1], ihi |-> ib[2]]
               : k \in TModes, m \in TModes, ib \in InnerBounds}
Cfgs == {c \in ListCfgs \cup NestCfgs \cup DictCfgs \cup SetCfgs \cup DLCfgs : c.kind \in Kinds}

InitVals(c) ==
  CASE c.kind = "list" -> {q \in SeqsUpTo({1, 2}, 3) : LenOK(Len(q), c.lo, c.hi)}
    [] c.kind = "listlist" -> {q \in SeqsUpTo({<<>>, <<1>>, <<1, 2>>}, 2) : LenOK(Len(q), c.lo, c.hi)}
    [] c.kind = "dict" -> {q \in SeqsUpTo({1, 2} \X {1, 2}, 2) : D!WellFormed(q)}
    [] c.kind = "set" -> SUBSET {1, 2, 3}
    [] c.kind = "dictlist" -> {q \in SeqsUpTo({1, 2} \X {<<>>, <<1>>, <<1, 2>>}, 2) : D!WellFormed(q)}

Init == /\ cfg \in Cfgs /\ val \in InitVals(cfg) /\ last = [op |-> "init"] /\ depth = 0

Rec(op, sub, a, xs, cs, r) ==
  /\ val' = r.post
  /\ last' = [op |-> op, sub |-> sub, a |-> a, xs |-> xs, cs |-> cs, cfg |-> cfg, pre |-> val,
              post |-> r.post, ret |-> r.ret, excs |-> r.excs]
  /\ depth' = depth + 1 /\ UNCHANGED cfg

\* list operations with their argument domains (shared by flat and inner lists)
ListArgs ==
       {<<"setitem", <<i, 0, 0>>, <<x>>>> : i \in Idx, x \in ItemArgs}
  \cup {<<"setslice", <<st, sp, stp>>, xs>> : st \in OptIdx, sp \in OptIdx, stp \in Steps, xs \in XS}
  \cup {<<"delitem", <<i, 0, 0>>, <<>>>> : i \in Idx}
  \cup {<<"delslice", <<st, sp, stp>>, <<>>>> : st \in OptIdx, sp \in OptIdx, stp \in Steps}
  \cup {<<"append", <<0, 0, 0>>, <<x>>>> : x \in ItemArgs}
  \cup {<<"extend", <<0, 0, 0>>, xs>> : xs \in XS}
  \cup {<<"iadd", <<0, 0, 0>>, xs>> : xs \in XS}
  \cup {<<"imul", <<k, 0, 0>>, <<>>>> : k \in -1..3}
  \cup {<<"insert", <<i, 0, 0>>, <<x>>>> : i \in Idx, x \in ItemArgs}
  \cup {<<"pop", <<i, 0, 0>>, <<>>>> : i \in OptIdx}
  \cup {<<"remove", <<0, 0, 0>>, <<x>>>> : x \in {1, 3, 11}}
  \cup {<<"reverse", <<0, 0, 0>>, <<>>>>, <<"sort", <<0, 0, 0>>, <<>>>>, <<"sort", <<0, 1, 0>>, <<>>>>,
        <<"clear", <<0, 0, 0>>, <<>>>>}
\* a smaller argument domain for inner lists
InnerArgs == {t \in ListArgs : t[1] \in {"setitem", "append", "extend", "insert", "pop", "delitem", "iadd", "imul", "clear", "remove"}
                               \/ (~Thin /\ t[1] \in {"setslice", "delslice"} /\ t[2][3] \in {None, 2})}

ListStep ==
  /\ cfg.kind = "list"
  /\ \/ \E t \in ListArgs : Rec(t[1], "", t[2], t[3], <<>>, ListOp(val, cfg.vm, cfg.lo, cfg.hi, t[1], t[2], t[3]))
     \/ \E c \in ListCands : Rec("assign", "", <<0, 0, 0>>, <<>>, <<c>>, ListAssign(val, cfg.vm, cfg.lo, cfg.hi, c))
     \/ CaseMode /\ Rec("default", "", <<0, 0, 0>>, <<>>, <<>>, ListDefault(val, cfg.lo, cfg.hi))
     \/ LenOK(0, cfg.lo, cfg.hi) /\ \E how \in {0, 1} : Rec("reset", "", <<how, 0, 0>>, <<>>, <<>>, ListReset(val, cfg.lo, cfg.hi))

OuterArgs ==
       {<<"setitem", <<i, 0, 0>>, <<c>>>> : i \in Idx, c \in InnerCands}
  \cup {<<"setslice", <<st, sp, stp>>, cs>> : st \in {None, 0, 1, -1}, sp \in {None, 1, 5}, stp \in {None, 2},
                                             cs \in {<<>>, <<LC(<<3>>)>>, <<LC(<<11, 4>>), LC(<<3, 99>>)>>, <<LC(<<3>>), LC(<<>>)>>}}
  \cup {<<"delitem", <<i, 0, 0>>, <<>>>> : i \in Idx}
  \cup {<<"append", <<0, 0, 0>>, <<c>>>> : c \in InnerCands}
  \cup {<<"extend", <<0, 0, 0>>, cs>> : cs \in {<<>>, <<LC(<<3>>), LC(<<11, 4>>)>>, <<LC(<<3>>), LC(<<3, 99>>)>>}}
  \cup {<<"insert", <<i, 0, 0>>, <<c>>>> : i \in Idx, c \in InnerCands}
  \cup {<<"pop", <<i, 0, 0>>, <<>>>> : i \in OptIdx}
  \cup {<<"imul", <<k, 0, 0>>, <<>>>> : k \in 0..2}
  \cup {<<"reverse", <<0, 0, 0>>, <<>>>>, <<"clear", <<0, 0, 0>>, <<>>>>}
NestCands == {LC(<<>>), LC(<<LC(<<3>>)>>), LC(<<LC(<<11>>), LC(<<3, 4>>)>>), LC(<<LC(<<3, 99>>)>>),
              LC(<<LC(<<1, 2, 3>>)>>), [islist |-> 0, items |-> <<>>], LC(<<[islist |-> 0, items |-> <<>>]>>)}
NestStep ==
  /\ cfg.kind = "listlist"
  /\ \/ \E t \in OuterArgs : Rec(t[1], "outer", t[2], <<>>, t[3],
                                 NestOuter(val, cfg.vm, cfg.ilo, cfg.ihi, cfg.lo, cfg.hi, t[1], t[2], t[3]))
     \/ \E j \in 0..1, t \in InnerArgs : Rec(t[1], "inner", <<t[2][1], t[2][2], t[2][3], j>>, t[3], <<>>,
                                 NestInner(val, cfg.vm, cfg.ilo, cfg.ihi, j, t[1], t[2], t[3]))
     \/ \E c \in NestCands : Rec("assign", "", <<0, 0, 0>>, <<>>, <<c>>,
                                 NestAssign(val, cfg.vm, cfg.ilo, cfg.ihi, cfg.lo, cfg.hi, c))

KArgs == {1, 3, 11, 99}
VArgs == {2, 3, 12, 99}
PairLists == SeqsUpTo(KArgs \X VArgs, 2)
DictCands == {[isdict |-> 1, ps |-> ps] : ps \in {<<>>, <<<<3, 3>>>>, <<<<11, 12>>, <<1, 2>>>>, <<<<3, 99>>>>, <<<<99, 3>>>>}}
             \cup {[isdict |-> 0, ps |-> <<>>]}
DictArgs ==
       {<<"setitem", <<k, v, 0>>, <<>>>> : k \in KArgs, v \in VArgs}
  \cup {<<"delitem", <<k, 0, 0>>, <<>>>> : k \in {1, 3}}
  \cup {<<"update", <<1, 0, 0>>, ps>> : ps \in PairLists}
  \cup {<<"update", <<0, 0, 0>>, ps>> : ps \in {q \in PairLists : D!WellFormed(q)}}
  \cup {<<"ior", <<0, 0, 0>>, ps>> : ps \in {q \in PairLists : D!WellFormed(q)}}
  \cup {<<"setdefault", <<k, v, 0>>, <<>>>> : k \in {1, 3, 99}, v \in VArgs}
  \cup {<<"pop", <<k, h, IF h = 1 THEN 3 ELSE 0>>, <<>>>> : k \in {1, 3}, h \in {0, 1}}
  \cup {<<"popitem", <<0, 0, 0>>, <<>>>>, <<"clear", <<0, 0, 0>>, <<>>>>}
DictStep ==
  /\ cfg.kind = "dict"
  /\ \/ \E t \in DictArgs : Rec(t[1], "", t[2], t[3], <<>>, DictOp(val, cfg.kvm, cfg.vvm, t[1], t[2], t[3]))
     \/ \E c \in DictCands : Rec("assign", "", <<0, 0, 0>>, <<>>, <<c>>, DictAssign(val, cfg.kvm, cfg.vvm, c))

ArgSets == SUBSET {1, 4, 11, 99}
SetCands == {[isset |-> 1, items |-> A] : A \in {{}, {3}, {11, 4}, {3, 99}}} \cup {[isset |-> 0, items |-> {}]}
SetArgs ==
       {<<op, <<x, 0>>, <<>>>> : op \in {"add", "discard", "remove"}, x \in {1, 4, 11, 99}}
  \cup {<<"clear", <<0, 0>>, <<>>>>}
  \cup {<<op, <<0, 0>>, <<A>>>> : op \in {"update", "difference_update", "intersection_update"}, A \in ArgSets}
  \cup {<<"update", <<0, 0>>, <<A, B>>>> : A \in ArgSets, B \in {{3}, {12, 99}}}
  \cup {<<op, <<0, 0>>, <<A>>>> : op \in {"ior", "iand", "isub", "ixor", "symmetric_difference_update"}, A \in ArgSets}
SetStep ==
  /\ cfg.kind = "set"
  /\ \/ \E t \in SetArgs : Rec(t[1], "", <<t[2][1], t[2][2], 0>>, <<>>, t[3], SetOp(val, cfg.vm, t[1], t[2], t[3], None))
     \/ (IF val = {} THEN Rec("pop", "", <<0, 0, 0>>, <<>>, <<>>, SetOp(val, cfg.vm, "pop", <<0, 0>>, <<>>, None))
         ELSE \E g \in val : Rec("pop", "", <<0, 0, 0>>, <<>>, <<>>, SetOp(val, cfg.vm, "pop", <<0, 0>>, <<>>, g)))
     \/ \E c \in SetCands : Rec("assign", "", <<0, 0, 0>>, <<>>, <<c>>, SetAssign(val, cfg.vm, c))

DLStep ==
  /\ cfg.kind = "dictlist"
  /\ \/ \E k \in KArgs, c \in InnerCands : Rec("setitem", "outer", <<k, 0, 0>>, <<>>, <<c>>,
                                               DLSetItem(val, cfg.kvm, cfg.vm, cfg.ilo, cfg.ihi, k, c))
     \/ \E k \in {1, 3} : Rec("delitem", "outer", <<k, 0, 0>>, <<>>, <<>>, DLDelItem(val, k))
     \/ \E k \in {1, 2}, t \in InnerArgs : Rec(t[1], "inner", <<t[2][1], t[2][2], t[2][3], k>>, t[3], <<>>,
                                               DLInner(val, cfg.vm, cfg.ilo, cfg.ihi, k, t[1], t[2], t[3]))

Next == /\ (IF CaseMode THEN last.op = "init" ELSE depth < MaxDepth)
        /\ (ListStep \/ NestStep \/ DictStep \/ SetStep \/ DLStep)
Spec == Init /\ [][Next]_vars

\* ---- C04 as TLC decides it on the specification
Inv ==
  CASE cfg.kind = "list"     -> ListInv(val, cfg.vm, cfg.lo, cfg.hi)
    [] cfg.kind = "listlist" -> NestInv(val, cfg.vm, cfg.ilo, cfg.ihi, cfg.lo, cfg.hi)
    [] cfg.kind = "dict"     -> DictInv(val, cfg.kvm, cfg.vvm)
    [] cfg.kind = "set"      -> SetInv(val)
    [] cfg.kind = "dictlist" -> DLInv(val, cfg.kvm, cfg.vm, cfg.ilo, cfg.ihi)
FailureAtomic == last.op # "init" /\ "" \notin last.excs => last.post = last.pre
ViolatingRejected ==     \* whenever TraitError is the only admissible outcome nothing changed
  last.op # "init" /\ last.excs = {"TraitError"} => val = last.pre
\* the view hides the case record and depth in history mode (they only multiply states)
HView == <<cfg, val>>
=============================================================================
