---------------------------- MODULE Trace_Deferred ----------------------------
EXTENDS Deferred, Json, IOUtils
Trace == ndJsonDeserialize(IOEnv.TRACE_FILE)
N == Len(Trace)
VARIABLE i
NB == 64
BSize == (N + NB - 1) \div NB
Init == i = 0
Next == \/ i = 0 /\ i' \in {-b : b \in 1..NB}
        \/ i < 0 /\ i' \in (((-i) - 1) * BSize + 1)..(IF (-i) * BSize < N THEN (-i) * BSize ELSE N)
Spec == Init /\ [][Next]_i
StEq(a, b) == a.par = b.par /\ \A p \in Cands, t \in Targets : a.val[p][t] = b.val[p][t]
              /\ \A x \in Attrs : a.local[x] = b.local[x]
Result(c) == CASE c.op = "setd" -> SetViaD(c.pre, c.x, c.v)
               [] c.op = "setq" -> SetViaQ(c.pre, c.q, c.v)
               [] c.op = "setp" -> SetOnP(c.pre, c.p, c.x, c.v)
               [] c.op = "del"  -> DelLocal(c.pre, c.x)
               [] c.op = "swap" -> Swap(c.pre, c.p)
               [] c.op = "setp0" -> SetOnStranger(c.pre, c.x, c.v)
               [] c.op = "setsx" -> SetViaSx(c.pre)
Clauses(c) ==
  LET r == Result(c)
      errd == c.exc # ""
      \* every readable deferring attribute mirrors the specification's state after the step
      badread == {x \in Attrs : c.reads[x] # ReadD(c.post, x)}
  IN (IF StEq(c.post, r.st) THEN {} ELSE {"C11-state"})
     \cup (IF (r.exc = "") = ~errd /\ (r.exc = "TraitError" => c.exc = "TraitError") THEN {} ELSE {"C11-outcome"})
     \cup (IF badread = {} THEN {} ELSE {"C11-read-does-not-mirror-target"})
     \cup (IF c.sxleak = 0 /\ c.readsx = -1 THEN {} ELSE {"C11-undeclared-name-of-strict-delegate-written-or-readable"})
     \cup (IF \E q \in {"q", "q2", "q3"} : c.readq[q] # ReadQ(c.post, q) THEN {"C11-chain-read"} ELSE {})
     \* notifications of the handler on D.x: as specified for assignments; open for swap / del
     \cup (IF c.op \in {"setd", "setp", "setp0"} /\ c.calls # r.calls THEN {"C11-notification"} ELSE {})
     \cup (IF c.op \in {"setd", "setp", "setq"} /\ errd /\ c.calls # <<>> THEN {"C11-notified-on-rejected-assignment"} ELSE {})
Judge == i <= 0 \/ LET f == Clauses(Trace[i]) IN IF f = {} THEN TRUE ELSE PrintT(<<"REJECT", i, f>>)
AllJudged == TLCGet("distinct") = N + NB + 1
=============================================================================
