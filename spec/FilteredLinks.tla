---------------------------- MODULE FilteredLinks ----------------------------
(***************************************************************************)
(* A FILTERED link followed by more (property C08): observe(h,             *)
(* "+tracked.value") on an object whose link traits t1, t2 carry the       *)
(* metadata and which can be GIVEN a third one, t3, at run time            *)
(* (add_trait).  The handler is called exactly once for a change of        *)
(* c.value iff c is currently held by one of the matching traits -         *)
(* however many of them hold it, and whatever was added or reassigned      *)
(* before.  Assignments to the matching traits themselves are reported     *)
(* too (the link notifies).                                                *)
(*   st = [t : 1..3 -> Children \cup {0}, has3 : BOOLEAN, reg : 0..2]      *)
(***************************************************************************)
EXTENDS Integers, FiniteSets, TLC
Children == {1, 2, 3}
Links(st) == IF st.has3 THEN {1, 2, 3} ELSE {1, 2}
Held(st) == {st.t[k] : k \in Links(st)} \ {0}
Out(st, exc, calls) == [st |-> st, exc |-> exc, calls |-> calls]
Apply(st, op, k, c) ==
  CASE op = "observe" -> Out([st EXCEPT !.reg = @ + 1], "", 0)
    [] op = "unobserve" -> IF st.reg = 0 THEN Out(st, "NotifierNotFound", 0) ELSE Out([st EXCEPT !.reg = @ - 1], "", 0)
    \* obj.tk = child c (0: None): the link itself changed - reported when a handler is registered and the value differs
    [] op = "assign" -> IF k = 3 /\ ~st.has3 THEN Out(st, "skip", 0)
                        ELSE Out([st EXCEPT !.t[k] = c], "", IF st.reg > 0 /\ st.t[k] # c THEN 1 ELSE 0)
    \* add_trait("t3", Instance(Child, tracked=True)): from now on t3 matches the filter as well
    [] op = "add3" -> IF st.has3 THEN Out(st, "skip", 0) ELSE Out([st EXCEPT !.has3 = TRUE], "", 0)
    \* c.value changes
    [] op = "change" -> Out(st, "", IF st.reg > 0 /\ c \in Held(st) THEN 1 ELSE 0)
St0 == [t |-> [k \in 1..3 |-> 0], has3 |-> FALSE, reg |-> 0]
\* what a change of each child's value calls, in the state st
Probe(st) == [c \in Children |-> IF st.reg > 0 /\ c \in Held(st) THEN 1 ELSE 0]
=============================================================================
