---------------------------- MODULE Trace_DynEnum ----------------------------
EXTENDS DynEnum, Json, IOUtils
Trace == ndJsonDeserialize(IOEnv.TRACE_FILE)
N == Len(Trace)
VARIABLE i
NB == 64
BSize == (N + NB - 1) \div NB
Init == i = 0
Next == \/ i = 0 /\ i' \in {-b : b \in 1..NB}
        \/ i < 0 /\ i' \in (((-i) - 1) * BSize + 1)..(IF (-i) * BSize < N THEN (-i) * BSize ELSE N)
Spec == Init /\ [][Next]_i
Clauses(c) ==
  LET r == Apply(c.pre, c.op, c.v, c.vs) IN
     (IF c.exc = r.exc THEN {} ELSE {"assign-outcome"})
     \cup (IF c.post = r.st THEN {} ELSE {"assign-state"})
     \cup (IF c.op = "read" /\ c.exc = "" /\ c.val # r.val THEN {"assign-read-value"} ELSE {})
     \cup (IF c.op = "read" /\ c.exc = "" /\ c.pre.vals # <<>> /\ ~InDomain(c.pre, c.val) THEN {"C01-read-outside-domain"} ELSE {})
     \cup (IF c.exc # "" /\ c.post # c.pre THEN {"C01-failed-assignment-had-effect"} ELSE {})
     \cup (IF c.frame = 0 THEN {"C01-other-attribute-changed"} ELSE {})
Judge == i <= 0 \/ LET f == Clauses(Trace[i]) IN IF f = {} THEN TRUE ELSE PrintT(<<"REJECT", i, f>>)
AllJudged == TLCGet("distinct") = N + NB + 1
=============================================================================
