------------------------------ MODULE RefLedger ------------------------------
(***************************************************************************)
(* Reference neutrality of the compiled core (property C18, the part a     *)
(* specification can state).  The LEDGER: after an operation the only new  *)
(* references to the objects passed in are those the resulting abstract    *)
(* state legitimately holds.  Each operation is performed K times with K   *)
(* fresh value objects on the same target; in the steady state             *)
(*   - every value but the last is released again (delta 0),               *)
(*   - the last value is held iff the operation stores it (Holds(op)),     *)
(*   - the persistent objects (attribute name, target object, handler,     *)
(*     trait definition) have delta 0 over the whole loop.                 *)
(***************************************************************************)
EXTENDS Integers, Sequences, FiniteSets, TLC
\* operation -> [holds: the resulting state keeps a reference to the last value, raises: every iteration raises]
Op(h, r) == [holds |-> h, raises |-> r]
Expected(op) ==
  CASE op = "set_any"            -> Op(1, FALSE)      \* obj.a = v                      (dict slot)
    [] op = "set_float_exact"    -> Op(1, FALSE)      \* Float <- an exact float: stored as is
    [] op = "set_float_convert"  -> Op(0, FALSE)      \* Float <- an int: a new float is stored, the int is not held
    [] op = "set_int_reject"     -> Op(0, TRUE)       \* Int <- a str: TraitError
    [] op = "set_range_reject"   -> Op(0, TRUE)       \* Range(0.0, 1.0) <- out of range float
    [] op = "set_either_reject"  -> Op(0, TRUE)       \* Either(Range(0.0, 1.0), Str) <- out of range float
    [] op = "set_either_later"   -> Op(1, FALSE)      \* Either(Range(0.0, 1.0), Float) <- out of range float: 2nd alternative
    [] op = "validate_call"      -> Op(0, FALSE)      \* CTrait.validate(obj, name, v): nothing is stored
    [] op = "validate_either_reject" -> Op(0, TRUE)
    [] op = "tuple_first_member" -> Op(1, FALSE)      \* Tuple(Any, Float) <- (v, 7): the stored (converted) tuple holds v
    [] op = "tuple_reject"       -> Op(0, TRUE)       \* Tuple(Any, Float) <- (v, "x")
    [] op = "list_append"        -> Op(1, FALSE)
    [] op = "list_append_reject" -> Op(0, TRUE)
    [] op = "list_setslice"      -> Op(1, FALSE)      \* xs[0:1] = [v]: replaces the previous item
    [] op = "dict_setitem"       -> Op(1, FALSE)      \* d["k"] = v
    [] op = "set_add_discard"    -> Op(0, FALSE)      \* s.add(v); s.discard(v)
    [] op = "event_fire"         -> Op(0, FALSE)      \* Event <- v: delivered, not stored
    [] op = "property_set"       -> Op(1, FALSE)      \* setter stores v in a shadow attribute
    [] op = "property_set_raises"-> Op(0, TRUE)       \* setter raises
    [] op = "delegate_set"       -> Op(1, FALSE)      \* stored on the delegate
    [] op = "set_then_del"       -> Op(0, FALSE)
    [] op = "set_notify"         -> Op(1, FALSE)      \* with static, dynamic and observe handlers attached
    [] op = "set_notify_raising" -> Op(1, FALSE)      \* one of the handlers raises
    [] op = "handler_removed_in_dispatch" -> Op(1, FALSE)   \* an anytrait handler removes the later ones while notifying
    [] op = "handler_add_remove" -> Op(0, FALSE)      \* the VALUE is a handler: on_trait_change(v); on_trait_change(v, remove)
    [] op = "observe_add_remove" -> Op(0, FALSE)
    [] op = "add_remove_trait"   -> Op(0, FALSE)      \* the VALUE is a trait definition: add_trait; remove_trait
    [] op = "default_read"       -> Op(0, FALSE)      \* the value is unused; a fresh object reads a default
    [] op = "trait_setq"         -> Op(1, FALSE)
    [] op = "pickle_roundtrip"   -> Op(1, FALSE)      \* the value sits in the object while it is pickled and unpickled
    [] op = "getstate_ctrait"    -> Op(0, FALSE)
    \* dynamic defaults: the value is what the _name_default method of a FRESH object returns on its first read; the
    \* object is dropped again.  ok: stored in that object; rejected: the trait's own validator refuses it (TraitError);
    \* expr_*: the same for a trait that stores the ORIGINAL value next to the validated one (Expression)
    [] op = "default_dyn_ok"        -> Op(0, FALSE)
    [] op = "default_dyn_rejected"  -> Op(0, TRUE)
    [] op = "default_expr_ok"       -> Op(0, FALSE)
    [] op = "default_expr_rejected" -> Op(0, TRUE)
Ops == {"set_any", "set_float_exact", "set_float_convert", "set_int_reject", "set_range_reject", "set_either_reject",
        "set_either_later", "validate_call", "validate_either_reject", "tuple_first_member", "tuple_reject", "list_append",
        "list_append_reject", "list_setslice", "dict_setitem", "set_add_discard", "event_fire", "property_set",
        "property_set_raises", "delegate_set", "set_then_del", "set_notify", "set_notify_raising",
        "handler_removed_in_dispatch", "handler_add_remove", "observe_add_remove", "add_remove_trait", "default_read",
        "trait_setq", "pickle_roundtrip", "getstate_ctrait", "default_dyn_ok", "default_dyn_rejected", "default_expr_ok",
        "default_expr_rejected"}
\* the ledger law on one recorded loop c = [op, deltas (per value), persist (deltas of the persistent objects), raised]
LedgerOK(c) ==
  LET e == Expected(c.op) n == Len(c.deltas) IN
  /\ \A k \in 1..(n - 1) : c.deltas[k] = 0
  /\ (c.op = "list_append" \/ c.deltas[n] = e.holds)          \* (list_append keeps every value: checked separately)
  /\ \A k \in 1..Len(c.persist) : c.persist[k] = 0
  /\ c.raised = (IF e.raises THEN n ELSE 0)
=============================================================================
