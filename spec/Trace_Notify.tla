----------------------------- MODULE Trace_Notify -----------------------------
EXTENDS Notify, Json, IOUtils
Trace == ndJsonDeserialize(IOEnv.TRACE_FILE)
N == Len(Trace)
VARIABLE i
NB == 64
BSize == (N + NB - 1) \div NB
Init == i = 0
Next == \/ i = 0 /\ i' \in {-b : b \in 1..NB}
        \/ i < 0 /\ i' \in (((-i) - 1) * BSize + 1)..(IF (-i) * BSize < N THEN (-i) * BSize ELSE N)
Spec == Init /\ [][Next]_i
Clauses(c) ==
  LET regs == {c.regs[k] : k \in 1..Len(c.regs)}
      r == Apply(c.op, c.cfg, c.pre, c.v, regs)
      bad(m) == c.calls[m] # r.calls[m]
  IN (IF c.exc = r.exc THEN {} ELSE {"exception"})
     \cup (IF Readable(c.post) = Readable(r.val) \/ c.cfg.kind = "event" THEN {} ELSE {"stored-value"})
     \cup (IF c.op = "read" /\ c.exc = "" /\ c.ret # Readable(c.pre) THEN {"read-value"} ELSE {})
     \cup {"calls-" \o m : m \in {x \in Mechs : bad(x)}}
     \* the property itself, on the observed calls (independent of the code-shaped filters above)
     \* after the operation exactly the registrations the specification says are left (one-shot handlers that were called
     \* are gone, nobody else's registration is touched)
     \cup (IF {c.regsafter[k] : k \in 1..Len(c.regsafter)} = RegsAfterCalls(c.op, regs, c.v, r.calls) THEN {} ELSE {"registrations-after"})
     \* handlers of x are not called for the sibling attribute x2, and the object-level handlers hear of x2 exactly once
     \cup (IF c.stray = 0 THEN {} ELSE {"C02-handler-called-for-another-trait"})
     \cup (IF c.added3 = 1 THEN {} ELSE {"C02-static-handlers-of-a-trait-added-at-run-time"})
     \* the on_trait_change mechanism is registered by two bound methods of two EQUAL but distinct listener objects: both
     \* are handlers in their own right - the twin hears exactly what the first one hears
     \* (one-shot steps: the first listener's method removes both registrations while it runs - the twin is not judged)
     \cup (IF c.op # "assign1" /\ c.twin # c.calls["dynamic"] THEN {"C02-equal-listener-objects-conflated"} ELSE {})
     \cup (IF c.op \in {"assign", "assign1"} /\ c.exc = "" /\ c.cfg.kind = "trait" /\
              \E m \in Mechs : Len(c.calls[m]) # (IF Registered(c.cfg, regs, m) /\ IsChange(c.cfg.mode, Readable(c.pre), c.v) THEN 1 ELSE 0)
           THEN {"C02-exactly-once"} ELSE {})
Judge == i <= 0 \/ LET f == Clauses(Trace[i]) IN IF f = {} THEN TRUE ELSE PrintT(<<"REJECT", i, f>>)
AllJudged == TLCGet("distinct") = N + NB + 1
=============================================================================
