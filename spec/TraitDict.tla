------------------------------ MODULE TraitDict ------------------------------
(***************************************************************************)
(* Python dict semantics (insertion-ordered, written from the language     *)
(* reference) + key/value validation + the event law of property C06.      *)
(* A dict is a sequence of <<key, value>> pairs with pairwise distinct     *)
(* keys (iteration order); equality of dicts is order-insensitive.         *)
(***************************************************************************)
EXTENDS Integers, Sequences, FiniteSets, TLC

None == 1000

Valid     == (1..9) \cup (20..98)    \* ordinary items (the model checker uses 1..4; recorded test-suite traces up to 88)
Coercible == 11..19
Invalid   == {99}
\* keys as objects: 151..154 are floats EQUAL to the int keys 1..4 (1.0 == 1, same hash).  A validator rejects them (they
\* are not ints), yet every dict lookup finds the stored int key through them.  (Used under validating key modes only:
\* without a validator they would be stored, and then 1.0 and 1 are one key.)
EqInvalid == 151..154
RawKey(k) == IF k \in EqInvalid THEN k - 150 ELSE k
VModes    == {"id", "coerce", "strict"}
\* "id": no validation; "coerce": casts Coercible items; "strict": only Valid items
Accepts(vm, x) == vm = "id" \/ x \in Valid \/ (vm = "coerce" /\ x \in Coercible)
V(vm, x)       == IF vm = "coerce" /\ x \in Coercible THEN x - 10 ELSE x

\* ---- ordered dict primitives
Keys(d)   == {d[i][1] : i \in 1..Len(d)}
Has(d, k) == k \in Keys(d)
Pos(d, k) == CHOOSE i \in 1..Len(d) : d[i][1] = k
Get(d, k) == d[Pos(d, k)][2]
Put(d, k, v) == IF Has(d, k) THEN [d EXCEPT ![Pos(d, k)] = <<k, v>>] ELSE Append(d, <<k, v>>)
Del(d, k) == LET p == Pos(d, k) IN SubSeq(d, 1, p - 1) \o SubSeq(d, p + 1, Len(d))
AsFn(d)   == [k \in Keys(d) |-> Get(d, k)]
DictEq(d, e) == AsFn(d) = AsFn(e)
WellFormed(d) == \A i, j \in 1..Len(d) : i # j => d[i][1] # d[j][1]

RECURSIVE PutAll(_, _)
PutAll(d, ps) == IF ps = <<>> THEN d ELSE PutAll(Put(d, ps[1][1], ps[1][2]), Tail(ps))

Ok(post, ret)  == [post |-> post, ret |-> ret, excs |-> {""}]
Fail(pre, ex)  == [post |-> pre, ret |-> <<None>>, excs |-> ex]
NoRet == <<None>>

PairsOK(kvm, vvm, ps) == \A i \in 1..Len(ps) : Accepts(kvm, ps[i][1]) /\ Accepts(vvm, ps[i][2])
VPairs(kvm, vvm, ps)  == [i \in 1..Len(ps) |-> <<V(kvm, ps[i][1]), V(vvm, ps[i][2])>>]

OpSetItem(d, kvm, vvm, k, v) ==
  IF Accepts(kvm, k) /\ Accepts(vvm, v) THEN Ok(Put(d, V(kvm, k), V(vvm, v)), NoRet) ELSE Fail(d, {"TraitError"})

OpDelItem(d, k) == IF Has(d, k) THEN Ok(Del(d, k), NoRet) ELSE Fail(d, {"KeyError"})      \* key not validated

OpUpdate(d, kvm, vvm, ps) ==
  IF PairsOK(kvm, vvm, ps) THEN Ok(PutAll(d, VPairs(kvm, vvm, ps)), NoRet) ELSE Fail(d, {"TraitError"})

\* dict.setdefault on the validated key and value.  When the raw key is already present the
\* validators are never consulted by dict.setdefault's contract (the default is unused), so an
\* invalid default may or may not be reported.
OpSetDefault(d, kvm, vvm, k, v) ==
  LET ok == Accepts(kvm, k) /\ Accepts(vvm, v) IN
  IF Has(d, RawKey(k)) THEN [post |-> d, ret |-> <<Get(d, RawKey(k))>>, excs |-> IF ok THEN {""} ELSE {"", "TraitError"}]
  ELSE IF ~ok THEN Fail(d, {"TraitError"})
  ELSE LET vk == V(kvm, k) IN
       IF Has(d, vk) THEN Ok(d, <<Get(d, vk)>>) ELSE Ok(Put(d, vk, V(vvm, v)), <<V(vvm, v)>>)

\* Named deviation (known finding C06/F14): containment is tested on the RAW key; when the raw key
\* is absent but its validated form is present the stored value is overwritten and the new value
\* returned (pinned by the repository's own test_setdefault_with_casting).
KF14Guard(d, kvm, vvm, k, v) == ~Has(d, k) /\ Accepts(kvm, k) /\ Accepts(vvm, v) /\ Has(d, V(kvm, k))
OpSetDefault_KF14(d, kvm, vvm, k, v) == Ok(Put(d, V(kvm, k), V(vvm, v)), <<V(vvm, v)>>)

OpPop(d, k, hasdflt, dflt) ==
  IF Has(d, k) THEN Ok(Del(d, k), <<Get(d, k)>>)
  ELSE IF hasdflt = 1 THEN Ok(d, <<dflt>>) ELSE Fail(d, {"KeyError"})

OpPopItem(d) == IF d = <<>> THEN Fail(d, {"KeyError"}) ELSE Ok(SubSeq(d, 1, Len(d) - 1), d[Len(d)])
OpClear(d) == Ok(<<>>, NoRet)
OpConstruct(kvm, vvm, ps) ==
  IF PairsOK(kvm, vvm, ps) THEN Ok(PutAll(<<>>, VPairs(kvm, vvm, ps)), NoRet) ELSE Fail(<<>>, {"TraitError"})

\* whole-value assignment to a Dict trait (the TraitDict as the value of a trait on an owner object): the new
\* contents are the validated pairs; a rejected assignment leaves the previous value in place
OpAssign(d, kvm, vvm, ps) ==
  IF PairsOK(kvm, vvm, ps) THEN Ok(PutAll(<<>>, VPairs(kvm, vvm, ps)), NoRet) ELSE Fail(d, {"TraitError"})

\* a = <<a1, a2, a3>> ints; ps = pair list
Apply(op, d, kvm, vvm, a, ps) ==
  CASE op = "setitem"    -> OpSetItem(d, kvm, vvm, a[1], a[2])
    [] op = "delitem"    -> OpDelItem(d, RawKey(a[1]))
    [] op = "update"     -> OpUpdate(d, kvm, vvm, ps)       \* a[1]: 0 mapping, 1 iterable of pairs
    [] op = "ior"        -> OpUpdate(d, kvm, vvm, ps)
    [] op = "setdefault" -> OpSetDefault(d, kvm, vvm, a[1], a[2])
    [] op = "pop"        -> OpPop(d, RawKey(a[1]), a[2], a[3])
    [] op = "popitem"    -> OpPopItem(d)
    [] op = "clear"      -> OpClear(d)
    [] op = "construct"  -> OpConstruct(kvm, vvm, ps)
    [] op = "copy"       -> Ok(d, NoRet)
    [] op = "assign"     -> OpAssign(d, kvm, vvm, ps)

\* ---- the event law of C06: ev = [removed, added, changed], each a pair list with distinct keys
EvKeys(ev) == Keys(ev.removed) \cup Keys(ev.added) \cup Keys(ev.changed)
EventOK(pre, ev, post) ==
  /\ WellFormed(ev.removed) /\ WellFormed(ev.added) /\ WellFormed(ev.changed)
  /\ ev.removed # <<>> \/ ev.added # <<>> \/ ev.changed # <<>>                    \* never all-empty
  /\ \A k \in Keys(ev.added)   : ~Has(pre, k) /\ Has(post, k) /\ Get(post, k) = Get(ev.added, k)
  /\ \A k \in Keys(ev.changed) : Has(pre, k) /\ Get(pre, k) = Get(ev.changed, k) /\ Has(post, k)
  /\ \A k \in Keys(ev.removed) : Has(pre, k) /\ Get(pre, k) = Get(ev.removed, k) /\ ~Has(post, k)
  /\ \A k \in (Keys(pre) \cup Keys(post)) \ EvKeys(ev) :
        Has(pre, k) /\ Has(post, k) /\ Get(pre, k) = Get(post, k)
\* reconstruction of the previous contents from the new contents and the event (the statement's
\* "can be reconstructed exactly"); TLC checks that EventOK implies it (TraitDictMC!Reconstructs)
Reconstruct(post, ev) ==
  [k \in (Keys(post) \ Keys(ev.added)) \cup Keys(ev.removed) |->
      IF k \in Keys(ev.removed) THEN Get(ev.removed, k)
      ELSE IF k \in Keys(ev.changed) THEN Get(ev.changed, k) ELSE Get(post, k)]

EventsOK(pre, evs, post) ==
  /\ Len(evs) <= 1
  /\ ~DictEq(pre, post) => Len(evs) = 1
  /\ \A i \in 1..Len(evs) : EventOK(pre, evs[i], post)
=============================================================================
