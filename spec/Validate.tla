------------------------------- MODULE Validate -------------------------------
(***************************************************************************)
(* Validation of assigned values (properties C01 and C03).                 *)
(*   Fast(cfg, v)   transcription of the compiled validators of ctraits.c  *)
(*                  (validate_trait_* and the per-kind copies inside       *)
(*                  validate_trait_complex)                                *)
(*   Py(cfg, v)     transcription of the Python-level validate methods     *)
(*   InDomain(cfg, w) the DECLARED criteria of the trait type, written     *)
(*                  independently of both (type, range and exclusivity,    *)
(*                  membership, shape, class, None policy, length/regex)   *)
(* A result is Store(w) | Reject (TraitError) | Prop(e) (an exception of   *)
(* the value's own conversion protocol passed through).                    *)
(***************************************************************************)
EXTENDS Integers, Sequences, FiniteSets, TLC

\* ---- abstract Python values -------------------------------------------------------------------
\* [ty: exact type, num: numeric payload in half units (2 = 1, 5 = 2.5) or a special, s: text payload]
NoNum == 999
NaN == 901   PosInf == 902   NegInf == 903   NegZero == 904   Huge == 905     \* Huge: 10**400 (overflows float)
Specials == {NaN, PosInf, NegInf, NegZero, Huge}
V(ty, num, s) == [ty |-> ty, num |-> num, s |-> s]

Tok ==   \* token -> value
  [ none |-> V("none", NoNum, ""),
    i_m1 |-> V("int", -2, ""), i0 |-> V("int", 0, ""), i1 |-> V("int", 2, ""), i2 |-> V("int", 4, ""),
    i5 |-> V("int", 10, ""), i10 |-> V("int", 20, ""), ihuge |-> V("int", Huge, ""),
    bT |-> V("bool", 2, ""), bF |-> V("bool", 0, ""),
    isub3 |-> V("intsub", 6, ""), npi3 |-> V("npint", 6, ""), npbT |-> V("npbool", 2, ""),
    idx3 |-> V("idxobj", 6, ""), idxR |-> V("idxraise", NoNum, ""),
    fm1 |-> V("float", -2, ""), f0 |-> V("float", 0, ""), f1 |-> V("float", 2, ""), f2h |-> V("float", 5, ""),
    f5 |-> V("float", 10, ""), f10 |-> V("float", 20, ""),
    fnan |-> V("float", NaN, ""), finf |-> V("float", PosInf, ""), fninf |-> V("float", NegInf, ""),
    fnz |-> V("float", NegZero, ""),
    fsub1 |-> V("floatsub", 2, ""), npf1 |-> V("npfloat64", 2, ""), npf32 |-> V("npfloat32", 2, ""),
    flt2h |-> V("fltobj", 5, ""), fltR |-> V("fltraise", NoNum, ""),
    c1j |-> V("complex", NoNum, "1j"), cobj |-> V("cplxobj", NoNum, "1j"),
    s_ |-> V("str", NoNum, ""), s_a |-> V("str", NoNum, "a"), s_aaa |-> V("str", NoNum, "aaa"),
    s_abc |-> V("str", NoNum, "abc"), s_5 |-> V("str", NoNum, "5"), s_2h |-> V("str", NoNum, "2.5"),
    s_10 |-> V("str", NoNum, "10"), s_9 |-> V("str", NoNum, "9"),
    ssub_a |-> V("strsub", NoNum, "a"), by_a |-> V("bytes", NoNum, "a"),
    t_s10s9 |-> V("tuple", NoNum, "T"), t_s9s10 |-> V("tuple", NoNum, "T"),
    t_ |-> V("tuple", NoNum, "T"), t_1a |-> V("tuple", NoNum, "T"), t_2h5 |-> V("tuple", NoNum, "T"),
    t_1a1 |-> V("tuple", NoNum, "T"), t_12 |-> V("tuple", NoNum, "T"), l_1a |-> V("list", NoNum, "L"),
    fn |-> V("function", NoNum, ""), cA |-> V("class", NoNum, "A"), cB |-> V("class", NoNum, "B"),
    cC |-> V("class", NoNum, "C"), oA |-> V("inst", NoNum, "A"), oB |-> V("inst", NoNum, "B"),
    oC |-> V("inst", NoNum, "C"), mod |-> V("module", NoNum, ""), obj |-> V("object", NoNum, ""),
    \* values whose __class__ differs from their type: a weakref.proxy of an A instance (isinstance(v, A) holds, type(v)
    \* is the proxy type); an object whose __class__ attribute says str
    pxA |-> V("proxy", NoNum, "A"), lieS |-> V("liar", NoNum, "str"),
    \* an instance of the very class that declares the trait (for This), alone and as the first item of a pair
    oSelf |-> V("self", NoNum, ""), t_selfa |-> V("tuple", NoNum, "T"),
    \* instances of a tuple SUBCLASS (a namedtuple): (1, "a") and ("5", "a")
    nt_1a |-> V("tuplesub", NoNum, "T"), nt_5a |-> V("tuplesub", NoNum, "T") ]
Tokens == DOMAIN Tok
\* items of the sequence-valued tokens
Items(t) == CASE t = "t_" -> <<>> [] t = "t_1a" -> <<"i1", "s_a">> [] t = "t_2h5" -> <<"f2h", "s_5">>
              [] t = "t_1a1" -> <<"i1", "s_a", "i1">> [] t = "t_12" -> <<"i1", "i2">>
              [] t = "t_s10s9" -> <<"s_10", "s_9">> [] t = "t_s9s10" -> <<"s_9", "s_10">> [] t = "l_1a" -> <<"i1", "s_a">>
              [] t = "t_selfa" -> <<"oSelf", "s_a">> [] t = "nt_1a" -> <<"i1", "s_a">> [] t = "nt_5a" -> <<"s_5", "s_a">> [] OTHER -> <<>>

\* ---- results
Store(w) == [tag |-> "store", w |-> w, e |-> ""]
StrInt(x) == CASE x = "5" -> 10 [] x = "10" -> 20 [] x = "9" -> 18 [] OTHER -> NoNum        \* int("5") ... in half units
Reject   == [tag |-> "reject", w |-> V("none", NoNum, ""), e |-> ""]
Prop(e)  == [tag |-> "prop", w |-> V("none", NoNum, ""), e |-> e]
Same(t)  == Store(Tok[t])                          \* the very value is stored

\* ---- Python protocols of the values -----------------------------------------------------------
Ty(t) == Tok[t].ty
\* operator.index(v): "ok" | "raise" (the value's __index__ raises) | "no" (TypeError)
IndexKind(t) == CASE Ty(t) \in {"int", "bool", "intsub", "npint", "idxobj"} -> "ok"
                  [] Ty(t) = "idxraise" -> "raise" [] OTHER -> "no"
\* float(v) in the sense of PyFloat_AsDouble: __float__, falling back to __index__
FloatKind(t) == CASE Ty(t) \in {"float", "floatsub", "npfloat64", "npfloat32", "fltobj", "npbool"} -> "ok"
                  [] Ty(t) \in {"int", "bool", "intsub", "npint", "idxobj"} ->
                        IF Tok[t].num = Huge THEN "overflow" ELSE "ok"
                  [] Ty(t) \in {"fltraise", "idxraise"} -> "raise"
                  [] OTHER -> "no"
ComplexKind(t) == IF Ty(t) \in {"complex", "cplxobj"} THEN "ok" ELSE FloatKind(t)
IntOf(t)   == V("int", Tok[t].num, "")
FloatOf(t) == V("float", Tok[t].num, "")
ComplexOf(t) == IF Ty(t) \in {"complex", "cplxobj"} THEN V("complex", NoNum, "1j")
                ELSE V("complex", Tok[t].num, "")

\* _validate_int / as_integer: exact int as is; otherwise int(operator.index(v))
ValidateInt(t) == CASE IndexKind(t) = "ok" -> (IF Ty(t) = "int" THEN Same(t) ELSE Store(IntOf(t)))
                    [] IndexKind(t) = "raise" -> Prop("ZeroDivisionError")
                    [] OTHER -> Reject
\* validate_float: exact float as is; otherwise PyFloat_AsDouble; TypeError -> TraitError, others propagate
ValidateFloat(t) == CASE FloatKind(t) = "ok" -> (IF Ty(t) = "float" THEN Same(t) ELSE Store(FloatOf(t)))
                      [] FloatKind(t) = "overflow" -> Prop("OverflowError")
                      [] FloatKind(t) = "raise" -> Prop("ZeroDivisionError")
                      [] OTHER -> Reject
ValidateComplex(t) == CASE ComplexKind(t) = "ok" -> (IF Ty(t) = "complex" THEN Same(t) ELSE Store(ComplexOf(t)))
                        [] ComplexKind(t) = "overflow" -> Prop("OverflowError")
                        [] ComplexKind(t) = "raise" -> Prop("ZeroDivisionError")
                        [] OTHER -> Reject

\* ---- float ordering with the special values (IEEE: every comparison with NaN is false)
Ord(x) == CASE x = NegZero -> 0 [] x = PosInf -> 100000 [] x = NegInf -> -100000 [] OTHER -> x
FLt(a, b) == a # NaN /\ b # NaN /\ Ord(a) < Ord(b)
FLe(a, b) == a # NaN /\ b # NaN /\ Ord(a) <= Ord(b)

\* ---- casts: int(v), float(v), str(v), bool(v) as the builtin constructors behave on the tokens
\* result: Store | "ValueError" | "TypeError" | "OverflowError" | "ZeroDivisionError"
Err(e) == [tag |-> "err", w |-> V("none", NoNum, ""), e |-> e]
Trunc(h) == IF h >= 0 THEN h - (h % 2) ELSE -((-h) - ((-h) % 2))          \* half units toward zero
CastInt(t) ==
  CASE Ty(t) \in {"int", "bool", "intsub", "npint", "idxobj", "npbool"} -> Store(IntOf(t))
    [] Ty(t) = "idxraise" -> Err("ZeroDivisionError")
    [] Ty(t) \in {"float", "floatsub", "npfloat64", "npfloat32", "fltobj"} ->
         IF Ty(t) = "fltobj" THEN Err("TypeError")                 \* int() does not use __float__
         ELSE IF Tok[t].num = NaN THEN Err("ValueError")
         ELSE IF Tok[t].num \in {PosInf, NegInf} THEN Err("OverflowError")
         ELSE Store(V("int", IF Tok[t].num = NegZero THEN 0 ELSE Trunc(Tok[t].num), ""))
    [] Ty(t) \in {"str", "strsub"} -> IF StrInt(Tok[t].s) # NoNum THEN Store(V("int", StrInt(Tok[t].s), "")) ELSE Err("ValueError")
    [] Ty(t) = "bytes" -> Err("ValueError")
    [] Ty(t) = "fltraise" -> Err("TypeError")
    [] OTHER -> Err("TypeError")
CastFloat(t) ==
  CASE FloatKind(t) = "ok" -> Store(FloatOf(t))
    [] FloatKind(t) = "overflow" -> Err("OverflowError")
    [] FloatKind(t) = "raise" -> Err("ZeroDivisionError")
    [] Ty(t) \in {"str", "strsub"} -> IF StrInt(Tok[t].s) # NoNum THEN Store(V("float", StrInt(Tok[t].s), ""))
                                      ELSE IF Tok[t].s = "2.5" THEN Store(V("float", 5, "")) ELSE Err("ValueError")
    [] Ty(t) = "bytes" -> Err("ValueError")
    [] OTHER -> Err("TypeError")
\* str(v) always succeeds; the text is not modelled beyond "some exact str"
CastStr(t) == IF Ty(t) = "str" THEN Same(t) ELSE IF Ty(t) = "strsub" THEN Store(V("str", NoNum, "a"))
              ELSE Store(V("str", NoNum, "?"))
Truthy(t) == CASE Tok[t].num # NoNum -> Tok[t].num \notin {0, NegZero}
               [] Ty(t) \in {"str", "strsub", "bytes"} -> Tok[t].s # ""
               [] Ty(t) \in {"tuple", "tuplesub", "list"} -> Items(t) # <<>>
               [] Ty(t) = "none" -> FALSE
               [] OTHER -> TRUE
CastBool(t) == IF Ty(t) = "bool" THEN Same(t) ELSE Store(V("bool", IF Truthy(t) THEN 2 ELSE 0, ""))

\* ---- classes: B is a subclass of A, C is unrelated
\* isinstance(v, k) honours v.__class__ (so does PyObject_IsInstance); PyObject_TypeCheck looks at the real type only
IsInstanceOf(t, k) == Ty(t) \in {"inst", "proxy"} /\ (Tok[t].s = k \/ (k = "A" /\ Tok[t].s = "B"))
SaysStr(t) == Ty(t) \in {"str", "strsub"} \/ (Ty(t) = "liar" /\ Tok[t].s = "str")       \* isinstance(v, str)
IsSubclassOf(t, k) == Ty(t) = "class" /\ (Tok[t].s = k \/ (k = "A" /\ Tok[t].s = "B"))
IsCallable(t) == Ty(t) \in {"function", "class"}

\* ---- trait configurations ---------------------------------------------------------------------
\* cfg = [t, fast, lo, hi, xl, xh, an, k, vals, ms]:  t: trait type; fast: the fast-path class (Int) or its
\* Base* twin without fast validation (BaseInt); lo/hi: bounds in half units or NoNum; xl/xh: exclude flags;
\* an: allow_none; k: class; vals: Enum/Map members (tokens); ms: member configurations (Tuple/Union)
None9 == NoNum
\* mn/mx: String minlen/maxlen (mx = None9: unbounded); re: String regex "^a+$" given; nm: Instance class given
\* by its dotted name (resolved lazily on first use)
C0(t, fast) == [t |-> t, fast |-> fast, lo |-> None9, hi |-> None9, xl |-> FALSE, xh |-> FALSE, an |-> FALSE,
                k |-> "", vals |-> {}, ms |-> <<>>, mn |-> 0, mx |-> None9, re |-> FALSE, nm |-> FALSE]
Simple == {"Int", "Float", "Complex", "Str", "Bytes", "Bool", "CInt", "CFloat", "CStr", "CBool", "Any"}

\* ---- text: strx(v) = str(v) for str/int/float/complex instances (TypeError otherwise)
IsStringType(t) == Ty(t) \in {"str", "strsub", "int", "bool", "intsub", "float", "floatsub", "npfloat64", "complex"}
Chars(x) == CASE x = "" -> <<>> [] x = "a" -> <<"a">> [] x = "aaa" -> <<"a", "a", "a">> [] x = "abc" -> <<"a", "b", "c">>
              [] x = "5" -> <<"5">> [] x = "2.5" -> <<"2", ".", "5">> [] x = "10" -> <<"1", "0">> [] x = "9" -> <<"9">>
StrLenOf(t) == IF Ty(t) \in {"str", "strsub"} THEN Len(Chars(Tok[t].s))
               ELSE CASE t \in {"i0", "i1", "i2", "i5", "isub3"} -> 1 [] t \in {"i_m1", "i10", "c1j"} -> 2
                      [] t \in {"f0", "f1", "f2h", "f5", "fnan", "finf", "fsub1", "npf1"} -> 3
                      [] t \in {"bT", "fm1", "f10", "fninf", "fnz"} -> 4 [] t = "bF" -> 5 [] t = "ihuge" -> 401
                      [] OTHER -> 0
MatchesA(t) == Ty(t) \in {"str", "strsub"} /\ Tok[t].s \in {"a", "aaa"}          \* the regex ^a+$
StrPrefix(p, x) == Len(Chars(p)) <= Len(Chars(x)) /\ SubSeq(Chars(x), 1, Len(Chars(p))) = Chars(p)
\* mapped traits: the fixed mapping key -> shadow value
MapVal(k) == CASE k = "s_a" -> "i1" [] k = "s_aaa" -> "i2" [] k = "s_abc" -> "i5" [] k = "s_5" -> "i10" [] OTHER -> "none"
\* unique-prefix completion against the member strings (PrefixList / PrefixMap): the member token or "none"
Complete(vals, t) ==
  IF Ty(t) \notin {"str", "strsub"} THEN "none"
  ELSE IF \E m \in vals : Tok[m].s = Tok[t].s THEN t            \* a member itself: returned as given
  ELSE LET c == {m \in vals : StrPrefix(Tok[t].s, Tok[m].s)} IN
       IF Cardinality(c) = 1 THEN CHOOSE m \in c : TRUE ELSE "none"

\* ---- legacy Trait(...) handlers (trait_handlers.py): TraitCoerceType, TraitCastType, TraitInstance, TraitFunction,
\* TraitEnum, TraitMap and their TraitCompound.  cfg.k names the Python type of the coercing / casting handlers.
\* isinstance(v, k) on the value pool (np.float64 is a float subclass; np.int64, np.float32, np.bool_ are not)
SubOf(k) == CASE k = "float" -> {"float", "floatsub", "npfloat64"} [] k = "int" -> {"int", "bool", "intsub"}
              [] k = "str" -> {"str", "strsub"} [] k = "complex" -> {"complex"} [] k = "bool" -> {"bool"}
              [] k = "list" -> {"list"} [] k = "tuple" -> {"tuple"} [] OTHER -> {}
\* the coercible types of the documented table (float <- int; complex <- float, int): the entries after the None
\* separator of the (coerce, type1, None, ctype1, ...) tuple
CoerceFrom(k) == CASE k = "float" -> SubOf("int") [] k = "complex" -> SubOf("float") \cup SubOf("int") [] OTHER -> {}
\* complex(v) as the builtin behaves on the pool
CastComplex(t) ==
  CASE ComplexKind(t) = "ok" -> Store(ComplexOf(t))
    [] ComplexKind(t) = "overflow" -> Err("OverflowError")
    [] ComplexKind(t) = "raise" -> Err("ZeroDivisionError")
    [] Ty(t) \in {"str", "strsub"} -> IF StrInt(Tok[t].s) # NoNum THEN Store(V("complex", StrInt(Tok[t].s), ""))
                                      ELSE IF Tok[t].s = "2.5" THEN Store(V("complex", 5, "")) ELSE Err("ValueError")
    [] OTHER -> Err("TypeError")
CastTo(k, t) == CASE k = "float" -> CastFloat(t) [] k = "int" -> CastInt(t) [] k = "str" -> CastStr(t)
                  [] k = "bool" -> CastBool(t) [] k = "complex" -> CastComplex(t)
\* type1(value) of a coercion: any exception of the conversion is passed through by both paths
CoerceConv(r) == IF r.tag = "store" THEN r ELSE Prop(r.e)
\* the validator function given to Trait(default, function) in the harness: a non-negative exact int as it is, the
\* text "5" converted to the int 5, TraitError otherwise (a validator function must raise TraitError: its contract)
FuncV(t) == IF Ty(t) = "int" /\ Tok[t].num >= 0 THEN Same(t)
            ELSE IF Ty(t) = "str" /\ Tok[t].s = "5" THEN Store(V("int", 10, "")) ELSE Reject
IsUnion(c) == c.t \in {"Union", "TUnion"}

\* ---- the Python-level validate methods --------------------------------------------------------
InRangePy(cfg, x) ==          \* BaseRange.float_validate / int_validate: written with low <= value
  /\ (cfg.lo = None9 \/ (cfg.xl /\ FLt(cfg.lo, x)) \/ (~cfg.xl /\ FLe(cfg.lo, x)))
  /\ (cfg.hi = None9 \/ (cfg.xh /\ FLt(x, cfg.hi)) \/ (~cfg.xh /\ FLe(x, cfg.hi)))
FastCast(r) == IF r.tag = "store" THEN r ELSE Reject           \* every conversion failure -> TraitError
PyCast(r) == IF r.tag = "store" THEN r ELSE IF r.e \in {"ValueError", "TypeError"} THEN Reject ELSE Prop(r.e)
EqTok(a, b) ==   \* Python == between two values of the pool (used by Enum membership)
  IF Tok[a].num # NoNum /\ Tok[b].num # NoNum /\ Ty(a) \notin {"idxobj", "fltobj"} /\ Ty(b) \notin {"idxobj", "fltobj"}
  THEN Tok[a].num # NaN /\ Ord(Tok[a].num) = Ord(Tok[b].num)
  ELSE IF Ty(a) \in {"str", "strsub"} /\ Ty(b) \in {"str", "strsub"} THEN Tok[a].s = Tok[b].s
  ELSE a = b
\* Assign: what an assignment does = the fast path when the trait has one, else the Python method.
\* Members of Tuple / Union are CTraits: their validation goes through Assign of the member.
IsTup(t) == Ty(t) \in {"tuple", "tuplesub"}
\* every item came back as the very object it was
Unchanged(its, rs) == \A k \in 1..Len(its) : rs[k] = Same(its[k])
RECURSIVE Py(_, _), Fast(_, _), Assign(_, _)
Py(cfg, t) ==
  CASE cfg.t = "Any" -> Same(t)
    [] cfg.t = "NoneT" -> IF Ty(t) = "none" THEN Same(t) ELSE Reject       \* the None alternative of a Union
    [] cfg.t = "Int" -> ValidateInt(t)
    [] cfg.t = "Float" -> ValidateFloat(t)
    [] cfg.t = "Complex" -> ValidateComplex(t)
    [] cfg.t = "Str" -> IF SaysStr(t) THEN Same(t) ELSE Reject                 \* BaseStr.validate: isinstance(value, str)
    [] cfg.t = "Bytes" -> IF Ty(t) = "bytes" THEN Same(t) ELSE Reject
    [] cfg.t = "Bool" -> IF Ty(t) = "bool" THEN Same(t)
                         ELSE IF Ty(t) = "npbool" THEN Store(V("bool", Tok[t].num, "")) ELSE Reject
    [] cfg.t = "CInt" -> PyCast(CastInt(t))
    [] cfg.t = "CFloat" -> PyCast(CastFloat(t))
    [] cfg.t = "CStr" -> CastStr(t)
    [] cfg.t = "CBool" -> CastBool(t)
    [] cfg.t = "RangeF" -> LET r == ValidateFloat(t) IN
                           IF r.tag # "store" THEN r ELSE IF InRangePy(cfg, r.w.num) THEN r ELSE Reject
    [] cfg.t = "RangeI" -> LET r == ValidateInt(t) IN
                           IF r.tag # "store" THEN r
                           ELSE IF r.w.num # Huge /\ InRangePy(cfg, r.w.num) THEN r
                           ELSE IF r.w.num = Huge /\ cfg.hi = None9 THEN r ELSE Reject
    [] cfg.t = "Enum" -> IF \E m \in cfg.vals : EqTok(t, m) THEN Same(t) ELSE Reject
    \* TraitCoerceType.validate: an instance of the type as it is, an instance of a coercible type converted
    [] cfg.t = "TCoerce" -> IF Ty(t) \in SubOf(cfg.k) \/ (cfg.k = "str" /\ SaysStr(t)) THEN Same(t)
                            ELSE IF Ty(t) \in CoerceFrom(cfg.k) THEN CoerceConv(CastTo(cfg.k, t)) ELSE Reject
    \* TraitCastType.validate: the exact type as it is, else type(value) with every exception -> TraitError
    [] cfg.t = "TCast" -> IF Ty(t) = cfg.k THEN Same(t) ELSE FastCast(CastTo(cfg.k, t))
    [] cfg.t = "CComplex" -> PyCast(CastComplex(t))
    [] cfg.t = "TInst" -> IF (cfg.an /\ Ty(t) = "none") \/ IsInstanceOf(t, cfg.k) THEN Same(t) ELSE Reject
    \* TraitFunction.validate: the function's TraitError becomes the trait's TraitError
    [] cfg.t = "TFunc" -> FuncV(t)
    [] cfg.t = "TEnum" -> IF \E m \in cfg.vals : EqTok(t, m) THEN Same(t) ELSE Reject
    [] cfg.t = "TMap" -> IF \E m \in cfg.vals : EqTok(t, m) /\ Ty(t) \notin {"list"} THEN Same(t) ELSE Reject
    \* Instance(k, adapt="yes" | "default") (cfg.mn = 1 | 2; also Supports): None by allow_none; adapt(value, k, None)
    \* - with no offer registered that is the value itself iff isinstance - else TraitError ("yes") or the trait's
    \* default value, None ("default")
    [] cfg.t = "InstAd" -> IF Ty(t) = "none" THEN (IF cfg.an THEN Same(t) ELSE Reject)
                           ELSE IF IsInstanceOf(t, cfg.k) THEN Same(t)
                           ELSE IF cfg.mn = 1 THEN Reject ELSE Store(V("none", NoNum, ""))
    [] cfg.t = "Instance" -> IF (cfg.an /\ Ty(t) = "none") \/ IsInstanceOf(t, cfg.k) THEN Same(t) ELSE Reject
    [] cfg.t = "Type" -> IF (cfg.an /\ Ty(t) = "none") \/ IsSubclassOf(t, cfg.k) THEN Same(t) ELSE Reject
    \* This(allow_none): an instance of the class of the object the trait belongs to
    [] cfg.t = "This" -> IF (cfg.an /\ Ty(t) = "none") \/ Ty(t) = "self" THEN Same(t) ELSE Reject
    \* String: strx, then length and regex; the result is an exact str (num carries its length)
    [] cfg.t = "String" ->
         IF IsStringType(t) /\ cfg.mn <= StrLenOf(t) /\ (cfg.mx = None9 \/ StrLenOf(t) <= cfg.mx) /\ (~cfg.re \/ MatchesA(t))
         THEN Store(V("str", StrLenOf(t), IF Ty(t) \in {"str", "strsub"} THEN Tok[t].s ELSE "?")) ELSE Reject
    \* Map: the value must be a key (unhashable values are rejected); PrefixMap / PrefixList: a member or a
    \* unique prefix of one, stored as the full member
    [] cfg.t = "Map" -> IF \E m \in cfg.vals : EqTok(t, m) /\ Ty(t) \notin {"list"} THEN Same(t) ELSE Reject
    [] cfg.t \in {"PrefixMap", "PrefixList"} ->
         IF Complete(cfg.vals, t) = "none" THEN Reject ELSE Store(Tok[Complete(cfg.vals, t)])
    \* ValidatedTuple(m1, m2, fvalidate = first < second): BaseTuple validation, then the predicate on the
    \* converted members
    [] cfg.t = "VTuple" ->
         IF Ty(t) \notin {"tuple", "tuplesub", "list"} \/ Len(Items(t)) # 2 THEN Reject
         ELSE LET a == Assign(cfg.ms[1], Items(t)[1])  b == Assign(cfg.ms[2], Items(t)[2]) IN
              IF a.tag = "store" /\ b.tag = "store" /\ a.w.num # NoNum /\ b.w.num # NoNum /\ FLt(a.w.num, b.w.num)
              THEN Store(V("tuple", NoNum, "T")) ELSE Reject
    \* Callable.validate honours allow_none (repair of finding F10; BaseCallable.validate accepts None always)
    [] cfg.t = "Callable" -> IF (Ty(t) = "none" /\ cfg.an) \/ IsCallable(t) THEN Same(t) ELSE Reject
    \* Tuple() without member types: any tuple; lists are converted (deprecated)
    \* BaseTuple.validate: lists are converted, every exception of a member is swallowed into TraitError
    \* Tuple.validate (the fast class): only tuples, only TraitError of a member is swallowed
    \* a tuple (an instance of a subclass too) none of whose items needed converting is returned AS IT IS by the fast class
    \* (Tuple.validate after the repair of finding F35, like the compiled validator); BaseTuple always makes a plain tuple
    [] cfg.t = "Tuple" ->
         IF cfg.ms = <<>> THEN (IF IsTup(t) THEN Same(t) ELSE IF Ty(t) = "list" THEN Store(V("tuple", NoNum, "T")) ELSE Reject)
         ELSE IF Ty(t) \notin (IF cfg.fast THEN {"tuple", "tuplesub"} ELSE {"tuple", "tuplesub", "list"}) \/ Len(Items(t)) # Len(cfg.ms) THEN Reject
         ELSE LET its == Items(t)
                  rs  == [k \in 1..Len(its) |-> Assign(cfg.ms[k], its[k])]
                  bad == {k \in 1..Len(its) : rs[k].tag # "store"}
              IN IF bad = {} THEN (IF cfg.fast /\ Unchanged(its, rs) THEN Same(t) ELSE Store(V("tuple", NoNum, "T")))
                 ELSE LET k == CHOOSE j \in bad : \A i \in bad : j <= i IN
                      IF cfg.fast /\ rs[k].tag = "prop" THEN rs[k] ELSE Reject
    \* Either (TraitCompound.validate): the Python validate methods of the alternatives, in order;
    \* Union.validate: the alternatives as CTraits (Assign), in order; the first that does not raise TraitError decides
    [] IsUnion(cfg) ->
         LET rs == [k \in 1..Len(cfg.ms) |-> IF cfg.fast THEN Py(cfg.ms[k], t) ELSE Assign(cfg.ms[k], t)]
             ok == {k \in 1..Len(cfg.ms) : rs[k].tag # "reject"}
         IN IF ok = {} THEN Reject ELSE rs[CHOOSE k \in ok : \A j \in ok : k <= j]

\* ---- the compiled fast validators -------------------------------------------------------------
\* in_float_range: written as  !(value >= low) -> out of range  (so NaN is out of range).  Before the
\* repair of finding F6 it read  value < low -> out of range, which let NaN through:
\*   InRangeC_F6(cfg, x) == ~(cfg.lo # None9 /\ FLt(x, cfg.lo)) /\ ~(cfg.hi # None9 /\ FLt(cfg.hi, x))   (inclusive case)
InRangeC(cfg, x) ==
  /\ (cfg.lo = None9 \/ (IF cfg.xl THEN FLt(cfg.lo, x) ELSE FLe(cfg.lo, x)))
  /\ (cfg.hi = None9 \/ (IF cfg.xh THEN FLt(x, cfg.hi) ELSE FLe(x, cfg.hi)))
HasFast(cfg) == cfg.fast
Fast(cfg, t) ==
  CASE cfg.t = "Any" -> Same(t)
    [] cfg.t = "NoneT" -> IF Ty(t) = "none" THEN Same(t) ELSE Reject
    [] cfg.t = "Int" -> ValidateInt(t)
    [] cfg.t = "Float" -> ValidateFloat(t)
    [] cfg.t = "Complex" -> ValidateComplex(t)
    [] cfg.t = "Str" -> IF Ty(t) \in {"str", "strsub"} THEN Same(t) ELSE Reject              \* (coerce, str)
    [] cfg.t = "Bytes" -> IF Ty(t) = "bytes" THEN Same(t) ELSE Reject
    [] cfg.t = "Bool" -> IF Ty(t) = "bool" THEN Same(t)                                       \* (coerce, bool, None, bool_)
                         ELSE IF Ty(t) = "npbool" THEN Store(V("bool", Tok[t].num, "")) ELSE Reject
    [] cfg.t = "CInt" -> IF Ty(t) = "int" THEN Same(t) ELSE FastCast(CastInt(t))             \* (cast, int)
    [] cfg.t = "CFloat" -> IF Ty(t) = "float" THEN Same(t) ELSE FastCast(CastFloat(t))
    [] cfg.t = "CStr" -> CastStr(t)
    [] cfg.t = "CBool" -> CastBool(t)
    [] cfg.t = "RangeF" -> LET r == ValidateFloat(t) IN
                           IF r.tag # "store" THEN r ELSE IF InRangeC(cfg, r.w.num) THEN r ELSE Reject
    [] cfg.t = "RangeI" -> Py(cfg, t)                          \* integer ranges have no fast validator
    [] cfg.t = "Enum" -> IF \E m \in cfg.vals : EqTok(t, m) THEN Same(t) ELSE Reject         \* PySequence_Contains
    \* validate_trait_coerce_type on (coerce, type1, None, ctype1, ...): PyObject_TypeCheck against type1 -> as it is;
    \* against a type after the None separator -> type1(value), whose exception is passed through
    [] cfg.t = "TCoerce" -> IF Ty(t) \in SubOf(cfg.k) THEN Same(t)
                            ELSE IF Ty(t) \in CoerceFrom(cfg.k) THEN CoerceConv(CastTo(cfg.k, t)) ELSE Reject
    \* validate_trait_cast_type: Py_TYPE(value) == type -> as it is; else type(value), failure -> TraitError
    [] cfg.t = "TCast" -> IF Ty(t) = cfg.k THEN Same(t) ELSE FastCast(CastTo(cfg.k, t))
    [] cfg.t = "CComplex" -> IF Ty(t) = "complex" THEN Same(t) ELSE FastCast(CastComplex(t))
    [] cfg.t = "TInst" -> IF (cfg.an /\ Ty(t) = "none") \/ IsInstanceOf(t, cfg.k) THEN Same(t) ELSE Reject
    \* validate_trait_function: the function's result, or the trait's TraitError when it raises
    [] cfg.t = "TFunc" -> FuncV(t)
    [] cfg.t = "TEnum" -> IF \E m \in cfg.vals : EqTok(t, m) THEN Same(t) ELSE Reject
    [] cfg.t = "TMap" -> IF \E m \in cfg.vals : EqTok(t, m) /\ Ty(t) \notin {"list"} THEN Same(t) ELSE Reject
    \* validate_trait_adapt on (adapt, k, mode, allow_none)
    [] cfg.t = "InstAd" -> IF Ty(t) = "none" THEN (IF cfg.an THEN Same(t) ELSE Reject)
                           ELSE IF IsInstanceOf(t, cfg.k) THEN Same(t)
                           ELSE IF cfg.mn = 1 THEN Reject ELSE Store(V("none", NoNum, ""))
    [] cfg.t = "Instance" -> IF (cfg.an /\ Ty(t) = "none") \/ IsInstanceOf(t, cfg.k) THEN Same(t) ELSE Reject
    [] cfg.t = "Type" -> IF (cfg.an /\ Ty(t) = "none") \/ IsSubclassOf(t, cfg.k) THEN Same(t) ELSE Reject
    \* validate_trait_self_type on (self_type,) / (self_type, None): PyObject_TypeCheck(value, Py_TYPE(obj))
    [] cfg.t = "This" -> IF (cfg.an /\ Ty(t) = "none") \/ Ty(t) = "self" THEN Same(t) ELSE Reject
    [] cfg.t = "Callable" -> IF (Ty(t) = "none" /\ cfg.an) \/ IsCallable(t) THEN Same(t) ELSE Reject
    [] cfg.t = "Map" -> IF \E m \in cfg.vals : EqTok(t, m) /\ Ty(t) \notin {"list"} THEN Same(t) ELSE Reject   \* PyDict_GetItem
    [] cfg.t \in {"String", "PrefixMap", "PrefixList", "VTuple"} -> Py(cfg, t)                  \* no fast validator
    \* Tuple(): (coerce, tuple, None, list); validate_trait_tuple_check: only real tuples; a member's
    \* non-TraitError exception propagates
    [] cfg.t = "Tuple" ->
         IF cfg.ms = <<>> THEN (IF IsTup(t) THEN Same(t) ELSE IF Ty(t) = "list" THEN Store(V("tuple", NoNum, "T")) ELSE Reject)
         ELSE IF ~IsTup(t) \/ Len(Items(t)) # Len(cfg.ms) THEN Reject          \* PyTuple_Check: subclasses too
         ELSE LET its == Items(t)
                  rs  == [k \in 1..Len(its) |-> Assign(cfg.ms[k], its[k])]
                  bad == {k \in 1..Len(its) : rs[k].tag # "store"}
              IN IF bad = {} THEN (IF Unchanged(its, rs) THEN Same(t) ELSE Store(V("tuple", NoNum, "T")))   \* a new tuple only if an item changed
                 ELSE LET k == CHOOSE j \in bad : \A i \in bad : j <= i IN
                      IF rs[k].tag = "prop" THEN rs[k] ELSE Reject
    \* validate_trait_complex: the table of fast validators in order (a nested compound's table is spliced
    \* in), Python-only alternatives through slow_validate; TraitError of an alternative is cleared
    [] IsUnion(cfg) ->
         LET rs == [k \in 1..Len(cfg.ms) |-> Assign(cfg.ms[k], t)]
             ok == {k \in 1..Len(cfg.ms) : rs[k].tag # "reject"}
         IN IF ok = {} THEN Reject ELSE rs[CHOOSE k \in ok : \A j \in ok : k <= j]

Assign(cfg, t) == IF HasFast(cfg) THEN Fast(cfg, t) ELSE Py(cfg, t)

\* the stored members when the stored value is a tuple: converted member-wise by a typed Tuple (also as
\* the deciding alternative of a compound), the raw items otherwise.  mode: "fast" | "py" | "assign"
Eval(mode, c, t) == IF mode = "fast" THEN Fast(c, t) ELSE IF mode = "py" THEN Py(c, t) ELSE Assign(c, t)
AltMode(mode, cfg) == IF mode = "py" /\ cfg.fast THEN "py" ELSE "assign"   \* how a compound evaluates its alternatives
FirstOK(cfg, t, mode) ==
  LET rs == [k \in 1..Len(cfg.ms) |-> Eval(AltMode(mode, cfg), cfg.ms[k], t)]
      ok == {k \in 1..Len(cfg.ms) : rs[k].tag # "reject"}
  IN IF ok = {} THEN 0 ELSE CHOOSE k \in ok : \A j \in ok : k <= j
RECURSIVE Members(_, _, _)
Members(cfg, t, mode) ==
  LET r == Eval(mode, cfg, t) IN
  IF r.tag # "store" \/ r.w.ty \notin {"tuple", "tuplesub"} THEN <<>>
  ELSE IF (cfg.t = "Tuple" /\ cfg.ms # <<>>) \/ cfg.t = "VTuple" THEN [k \in 1..Len(Items(t)) |-> Assign(cfg.ms[k], Items(t)[k]).w]
  ELSE IF IsUnion(cfg) THEN Members(cfg.ms[FirstOK(cfg, t, mode)], t, AltMode(mode, cfg))
  ELSE [k \in 1..Len(Items(t)) |-> Tok[Items(t)[k]]]

\* ---- the declared domain (C01), independent of both transcriptions ------------------------------
\* w: a stored value [ty, num, s]
RECURSIVE InDomain(_, _, _)
InDomain(cfg, w, members) ==       \* members: stored member values when w is a tuple
  CASE cfg.t = "Any" -> TRUE
    [] cfg.t = "NoneT" -> w.ty = "none"
    [] cfg.t \in {"Int", "CInt"} -> w.ty = "int"
    [] cfg.t \in {"Float", "CFloat"} -> w.ty = "float"
    [] cfg.t = "Complex" -> w.ty = "complex"
    [] cfg.t = "Str" -> w.ty \in {"str", "strsub"} \/ (w.ty = "liar" /\ w.s = "str")        \* isinstance(w, str)
    [] cfg.t = "CStr" -> w.ty = "str"
    [] cfg.t = "Bytes" -> w.ty = "bytes"
    [] cfg.t \in {"Bool", "CBool"} -> w.ty = "bool"
    \* range and bound exclusivity: low <(=) value <(=) high; NaN satisfies no inequality
    [] cfg.t = "RangeF" -> /\ w.ty = "float"
                           /\ (cfg.lo = None9 \/ (IF cfg.xl THEN FLt(cfg.lo, w.num) ELSE FLe(cfg.lo, w.num)))
                           /\ (cfg.hi = None9 \/ (IF cfg.xh THEN FLt(w.num, cfg.hi) ELSE FLe(w.num, cfg.hi)))
    [] cfg.t = "RangeI" -> /\ w.ty = "int"
                           /\ (cfg.lo = None9 \/ (w.num = Huge) \/ (IF cfg.xl THEN FLt(cfg.lo, w.num) ELSE FLe(cfg.lo, w.num)))
                           /\ (cfg.hi = None9 \/ (w.num # Huge /\ (IF cfg.xh THEN FLt(w.num, cfg.hi) ELSE FLe(w.num, cfg.hi))))
    [] cfg.t = "Enum" -> \E m \in cfg.vals : w = Tok[m] \/ (w.num # NoNum /\ Tok[m].num # NoNum /\ w.num # NaN
                                                           /\ Ord(w.num) = Ord(Tok[m].num))
                                              \/ (w.ty \in {"str", "strsub"} /\ Tok[m].ty \in {"str", "strsub"} /\ w.s = Tok[m].s)
    [] cfg.t = "Instance" -> (cfg.an /\ w.ty = "none") \/ (w.ty \in {"inst", "proxy"} /\ (w.s = cfg.k \/ (cfg.k = "A" /\ w.s = "B")))
    [] cfg.t = "InstAd" -> ((cfg.an \/ cfg.mn = 2) /\ w.ty = "none")         \* (mode "default": the default value, None)
                           \/ (w.ty \in {"inst", "proxy"} /\ (w.s = cfg.k \/ (cfg.k = "A" /\ w.s = "B")))
    [] cfg.t = "Type" -> (cfg.an /\ w.ty = "none") \/ (w.ty = "class" /\ (w.s = cfg.k \/ (cfg.k = "A" /\ w.s = "B")))
    [] cfg.t = "This" -> (cfg.an /\ w.ty = "none") \/ w.ty = "self"
    [] cfg.t = "Callable" -> (cfg.an /\ w.ty = "none") \/ w.ty \in {"function", "class"}
    [] cfg.t = "Tuple" -> w.ty \in {"tuple", "tuplesub"} /\ (cfg.ms = <<>> \/ Len(members) = Len(cfg.ms))
                          /\ (cfg.ms = <<>> \/ \A k \in 1..Len(members) : InDomain(cfg.ms[k], members[k], <<>>))
    [] cfg.t = "String" -> w.ty = "str" /\ cfg.mn <= w.num /\ (cfg.mx = None9 \/ w.num <= cfg.mx)
                           /\ (~cfg.re \/ w.s \in {"a", "aaa"})
    [] cfg.t \in {"Map", "PrefixMap", "PrefixList"} -> \E m \in cfg.vals : w = Tok[m] \/ (w.ty = "strsub" /\ w.s = Tok[m].s)
    [] cfg.t = "VTuple" -> w.ty = "tuple" /\ Len(members) = 2 /\ InDomain(cfg.ms[1], members[1], <<>>)
                           /\ InDomain(cfg.ms[2], members[2], <<>>) /\ FLt(members[1].num, members[2].num)
    [] cfg.t = "TCoerce" -> w.ty \in SubOf(cfg.k) \/ (cfg.k = "str" /\ w.ty = "liar" /\ w.s = "str")                       \* an instance of the declared Python type
    [] cfg.t = "TCast" -> w.ty = cfg.k
    [] cfg.t = "CComplex" -> w.ty = "complex"
    [] cfg.t = "TInst" -> (cfg.an /\ w.ty = "none") \/ (w.ty \in {"inst", "proxy"} /\ (w.s = cfg.k \/ (cfg.k = "A" /\ w.s = "B")))
    [] cfg.t = "TFunc" -> w.ty = "int" /\ w.num >= 0
    [] cfg.t = "TEnum" -> \E m \in cfg.vals : w = Tok[m] \/ (w.num # NoNum /\ Tok[m].num # NoNum /\ w.num # NaN
                                                            /\ Ord(w.num) = Ord(Tok[m].num))
                                               \/ (w.ty \in {"str", "strsub"} /\ Tok[m].ty \in {"str", "strsub"} /\ w.s = Tok[m].s)
    [] cfg.t = "TMap" -> \E m \in cfg.vals : w = Tok[m] \/ (w.ty = "strsub" /\ w.s = Tok[m].s)
    [] IsUnion(cfg) -> \E k \in 1..Len(cfg.ms) : InDomain(cfg.ms[k], w, members)
\* the mapped shadow value of a stored key (Map / PrefixMap): sh is the value readable as <name>_
ShadowOK(cfg, w, sh) == cfg.t \notin {"Map", "PrefixMap", "TMap"} \/ \E m \in cfg.vals : w.s = Tok[m].s /\ sh = Tok[MapVal(m)]
=============================================================================
