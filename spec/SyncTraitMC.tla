----------------------------- MODULE SyncTraitMC -----------------------------
EXTENDS SyncTrait
VARIABLES links, vals, c0, v0
vars == <<links, vals, c0, v0>>
Cells == {<<"A", "x">>, <<"B", "x">>, <<"C", "y">>, <<"B", "r">>}
Vals == {1, 2, 50}
Acc == [c \in Cells |-> IF c = <<"B", "r">> THEN {1, 2} ELSE Vals]          \* B.r is a Range(0, 10)
AllLinks == {e \in Cells \X Cells : e[1] # e[2] /\ e[1][1] # e[2][1]}
\* every topology of up to 4 directed links (mutual links are pairs); any value assignment
Init == /\ links \in {S \in SUBSET AllLinks : Cardinality(S) <= 4}
        /\ vals \in [Cells -> {1}]
        /\ c0 \in Cells /\ v0 \in Vals
Next == UNCHANGED vars
Spec == Init /\ [][Next]_vars
R == Assign(links, Acc, vals, c0, v0)
Mutual(a, b) == <<a, b>> \in links /\ <<b, a>> \in links
Terminates == R.depth # 99
\* every cell reached through accepting cells ends up with the value; nothing else changes
OKmap == [d \in Cells |-> v0 \in Acc[d]]
Converges == v0 \in Acc[c0] /\ v0 # vals[c0] =>
   \A d \in Cells : R.vals[d] = (IF d \in ReachFrom(links, OKmap, {c0}, 6) THEN v0 ELSE vals[d])
AtMostOnce == \A d \in Cells : R.calls[d] <= 1
OneWayHasNoReverseEffect == \A d \in Cells : (c0 \notin ReachFrom(links, OKmap, {d}, 6) /\ d \notin ReachFrom(links, OKmap, {c0}, 6)) => R.vals[d] = vals[d]
LocksReleased == R.locks = {}
=============================================================================
