------------------------------ MODULE ValidateMC ------------------------------
(* One state per (configuration, value): the complete case record with what both transcriptions and the *)
(* declared domain say.  TLC decides C01 (stored => in the declared domain) and C03 (fast = Python).      *)
EXTENDS Validate
CONSTANT KnownFindings      \* named deviations exempted from the agreement invariants ({} to see them fail)
VARIABLES cfg, tok, last
vars == <<cfg, tok, last>>

S(t) == C0(t, TRUE)
B(t) == C0(t, FALSE)
RangeF(lo, hi, xl, xh) == [C0("RangeF", TRUE) EXCEPT !.lo = lo, !.hi = hi, !.xl = xl, !.xh = xh]
RangeI(lo, hi, xl, xh) == [C0("RangeI", FALSE) EXCEPT !.lo = lo, !.hi = hi, !.xl = xl, !.xh = xh]
Enum(vals, fast) == [C0("Enum", fast) EXCEPT !.vals = vals]
Inst(k, an) == [C0("Instance", TRUE) EXCEPT !.k = k, !.an = an]
TypeT(k, an) == [C0("Type", TRUE) EXCEPT !.k = k, !.an = an]
Call(an) == [C0("Callable", TRUE) EXCEPT !.an = an]
ThisT(an) == [C0("This", TRUE) EXCEPT !.an = an]
Tup(ms, fast) == [C0("Tuple", fast) EXCEPT !.ms = ms]
Str3(mn, mx, re) == [C0("String", FALSE) EXCEPT !.mn = mn, !.mx = mx, !.re = re]
Mapped(t, vals, fast) == [C0(t, fast) EXCEPT !.vals = vals]
VTup(ms) == [C0("VTuple", FALSE) EXCEPT !.ms = ms]
InstN(k, an) == [C0("Instance", TRUE) EXCEPT !.k = k, !.an = an, !.nm = TRUE]
\* Instance(K, allow_none = ~an)(allow_none = an): the None policy given when the definition is CLONED (re marks it)
InstCl(k, an) == [C0("Instance", TRUE) EXCEPT !.k = k, !.an = an, !.re = TRUE]
InstAdCl(k, an) == [C0("InstAd", TRUE) EXCEPT !.k = k, !.an = an, !.mn = 1, !.re = TRUE]
Uni(ms, fast) == [C0("Union", fast) EXCEPT !.ms = ms]       \* fast: Either(...) (TraitCompound); not fast: Union(...)
\* legacy Trait(...) forms: Trait(type) / Trait(constant) / Trait(class) / Trait(None, class) / Trait(d, function) /
\* Trait(d, c1, c2, ...) / Trait(d, {map}) and the compound Trait(d, item, item, ...)
InstAd(k, an, mode) == [C0("InstAd", TRUE) EXCEPT !.k = k, !.an = an, !.mn = mode]    \* mode 1: adapt="yes", 2: "default"
TCo(k) == [C0("TCoerce", TRUE) EXCEPT !.k = k]
TCa(k) == [C0("TCast", TRUE) EXCEPT !.k = k]
TIn(k, an) == [C0("TInst", TRUE) EXCEPT !.k = k, !.an = an]     \* Trait(None, class) / Trait(TraitInstance(class, allow_none=False))
\* Trait(class): the factory makes TraitInstance(class) with the handler's own default allow_none=True (the table in the
\* factory's docstring says None cannot be assigned; the handler's documented default and the code say it can)
TInC(k) == [C0("TInst", TRUE) EXCEPT !.k = k, !.an = TRUE, !.nm = TRUE]
TFn == C0("TFunc", TRUE)
TEn(vals) == [C0("TEnum", TRUE) EXCEPT !.vals = vals]
TMp(vals) == [C0("TMap", TRUE) EXCEPT !.vals = vals]
TUn(ms) == [C0("TUnion", TRUE) EXCEPT !.ms = ms]

Bnd == {None9, 0, 2, 10}
RangeFs == {RangeF(lo, hi, xl, xh) : lo \in Bnd, hi \in Bnd, xl \in BOOLEAN, xh \in BOOLEAN}
RangeIs == {RangeI(lo, hi, xl, xh) : lo \in {None9, 0, 10}, hi \in {None9, 0, 10}, xl \in BOOLEAN, xh \in BOOLEAN}
GoodRange(c) == (c.lo # None9 \/ c.hi # None9) /\ (c.lo = None9 \/ c.hi = None9 \/ c.lo <= c.hi)
                /\ (c.lo # None9 \/ ~c.xl) /\ (c.hi # None9 \/ ~c.xh)
SimpleCfgs == {S(t) : t \in Simple} \cup {B(t) : t \in {"Int", "Float", "Str", "Bool", "CInt", "CFloat", "Complex"}}
TupleMs == {<<S("Int"), S("Str")>>, <<S("Float"), S("Str")>>, <<S("CInt"), S("Str")>>, <<S("Int"), S("Str"), S("Int")>>,
            <<>>, <<RangeF(0, 10, FALSE, TRUE), S("Str")>>, <<S("Float"), S("CFloat")>>, <<S("Float"), S("Float")>>,
            <<B("Int"), S("Str")>>, <<ThisT(FALSE), S("Str")>>, <<S("Complex"), S("Str")>>}
UnionMs == {<<S("Int"), S("Str")>>, <<S("Str"), S("Int")>>, <<S("Float"), S("Int")>>, <<S("Int"), S("Float")>>,
            <<S("NoneT"), S("Int")>>, <<S("CInt"), S("Str")>>, <<S("Str"), S("CInt")>>,
            <<Tup(<<S("Int"), S("Str")>>, TRUE), S("Str")>>, <<RangeF(0, 10, FALSE, FALSE), S("Str")>>,
            <<Inst("A", FALSE), S("Int")>>, <<S("Bool"), S("Int")>>, <<S("Int"), S("Bool")>>,
            <<Call(FALSE), S("Int")>>, <<Enum({"i1", "s_a"}, TRUE), S("Float")>>,
            <<S("NoneT"), RangeF(0, None9, TRUE, FALSE), S("Str")>>,
            \* Python-only alternatives (no fast validator) and nested compounds
            <<B("Str"), S("Int")>>, <<S("Int"), B("Str")>>, <<Uni(<<S("Int"), B("Str")>>, TRUE), S("Float")>>,
            <<Uni(<<S("Int"), S("Str")>>, TRUE), S("Float")>>, <<S("Float"), Uni(<<B("Int"), S("Str")>>, TRUE)>>,
            <<Tup(<<S("Float"), S("Float")>>, TRUE), S("NoneT")>>,
            \* This and Complex as alternatives (their own cases inside validate_trait_complex)
            <<ThisT(FALSE), S("Int")>>, <<ThisT(TRUE), S("Int")>>, <<S("Str"), ThisT(FALSE)>>,
            <<S("Complex"), S("Int")>>, <<S("Complex"), S("Str")>>, <<S("Int"), S("Complex")>>, <<S("Complex"), Inst("A", FALSE)>>}
LegacyCfgs ==
        {TCo(k) : k \in {"float", "complex", "int", "str"}} \cup {TCa(k) : k \in {"float", "int", "str", "bool", "complex"}}
        \cup {TIn(k, an) : k \in {"A", "B"}, an \in BOOLEAN} \cup {TInC("A"), TInC("B")} \cup {TFn, S("CComplex"), B("CComplex")}
        \cup {TEn(vs) : vs \in {{"i1", "i2"}, {"none", "f0", "s_a"}}} \cup {TMp({"s_a", "s_abc"})}
        \cup {TUn(ms) : ms \in {<<TCo("float"), TCo("str")>>, <<TCo("str"), TCo("complex")>>, <<TCo("int"), TEn({"s_a"}), TMp({"s_abc"})>>,
                                 <<TFn, TCo("float")>>, <<TCo("float"), TFn>>, <<TIn("A", TRUE), TCa("int")>>,
                                 <<TCa("float"), TCo("str")>>, <<TEn({"none"}), TCo("complex"), TIn("B", FALSE)>>}}
Cfgs == SimpleCfgs
        \cup {c \in RangeFs \cup RangeIs : GoodRange(c)}
        \cup {Enum(vs, f) : vs \in {{"i1", "i2"}, {"s_a", "s_abc"}, {"i1", "s_a", "none"}, {"f1", "f2h"}, {"bT"}}, f \in BOOLEAN}
        \cup {Inst(k, an) : k \in {"A", "B"}, an \in BOOLEAN} \cup {TypeT("A", an) : an \in BOOLEAN}
        \cup {Call(an) : an \in BOOLEAN} \cup {ThisT(an) : an \in BOOLEAN}
        \cup {Tup(ms, f) : ms \in TupleMs, f \in BOOLEAN}
        \cup {Uni(ms, f) : ms \in UnionMs, f \in BOOLEAN}
        \cup {Str3(mn, mx, re) : mn \in {0, 2}, mx \in {None9, 3}, re \in BOOLEAN}
        \cup {Mapped("Map", vs, TRUE) : vs \in {{"s_a", "s_abc"}, {"s_aaa", "s_5"}}}
        \cup {Mapped(t, vs, FALSE) : t \in {"PrefixMap", "PrefixList"}, vs \in {{"s_aaa", "s_abc"}, {"s_abc", "s_5"}, {"s_a", "s_aaa"}}}
        \cup {VTup(<<S("CInt"), S("CInt")>>), VTup(<<S("Int"), S("Float")>>)}
        \cup {InstN("A", an) : an \in BOOLEAN}
        \cup {InstCl(k, an) : k \in {"A", "B"}, an \in BOOLEAN} \cup {InstAdCl("A", an) : an \in BOOLEAN}
        \cup {Uni(<<InstCl("A", FALSE), S("Int")>>, TRUE), Tup(<<InstCl("A", FALSE), S("Str")>>, TRUE)}
        \cup {Uni(<<S("Int"), InstN("A", FALSE)>>, TRUE), Uni(<<InstN("B", FALSE), S("Str")>>, TRUE),
              Uni(<<Mapped("Map", {"s_a", "s_abc"}, TRUE), S("Float")>>, TRUE)}
        \cup LegacyCfgs
        \cup {InstAd(k, an, mode) : k \in {"A", "B"}, an \in BOOLEAN, mode \in {1, 2}}
        \cup {Uni(<<InstAd("A", FALSE, 1), S("Int")>>, TRUE), Tup(<<InstAd("B", FALSE, 1), S("Str")>>, TRUE)}

\* the value that only SAYS it is a str is tried on the type checks it is about (anything may happen to it elsewhere: its
\* text, hash and comparisons are those of a plain object)
LiarCfgs == {S("Str"), B("Str"), TCo("str"), TCo("float"), S("Int"), S("Float"), S("Bool"), S("Any"), S("Bytes"),
             Inst("A", FALSE), Call(FALSE), Tup(<<S("Int"), S("Str")>>, TRUE), Tup(<<B("Int"), S("Str")>>, FALSE),
             Uni(<<S("Int"), S("Str")>>, TRUE), Uni(<<S("Int"), S("Str")>>, FALSE), TUn(<<TCo("float"), TCo("str")>>)}
Init == /\ cfg \in Cfgs /\ tok \in Tokens /\ (Ty(tok) = "liar" => cfg \in LiarCfgs)
        /\ last = [fast |-> Fast(cfg, tok), py |-> Py(cfg, tok), assign |-> Assign(cfg, tok),
                   fm |-> Members(cfg, tok, "fast"), pm |-> Members(cfg, tok, "py"), am |-> Members(cfg, tok, "assign")]
Next == UNCHANGED vars
Spec == Init /\ [][Next]_vars

\* ---- named deviations (known findings), recursively through members
RECURSIVE Dev(_, _)
Dev(c, t) ==
  (IF "F6" \in KnownFindings /\ c.t = "RangeF" /\ FloatKind(t) = "ok" /\ Tok[t].num = NaN THEN {"F6"} ELSE {})
  \cup (IF "F10" \in KnownFindings /\ c.t = "Callable" /\ ~c.an /\ Ty(t) = "none" THEN {"F10"} ELSE {})
  \* F28: the compiled type checks (PyObject_TypeCheck) look at the real type, the Python methods use isinstance, which
  \* honours __class__: a value that only SAYS it is a str is accepted by BaseStr.validate / TraitCoerceType.validate
  \* and rejected by the fast path
  \cup (IF "F28" \in KnownFindings /\ Ty(t) = "liar" /\ (c.t = "Str" \/ (c.t = "TCoerce" /\ c.k = "str")) /\ c.fast
        THEN {"F28"} ELSE {})
  \cup (IF c.t = "Tuple" /\ Len(Items(t)) = Len(c.ms) THEN UNION {Dev(c.ms[k], Items(t)[k]) : k \in 1..Len(c.ms)} ELSE {})
  \cup (IF IsUnion(c) THEN UNION {Dev(c.ms[k], t) : k \in 1..Len(c.ms)} ELSE {})

\* ---- C01: whatever an assignment stores lies in the declared domain
C01_StoredInDomain == (last.assign.tag = "store" /\ Dev(cfg, tok) = {}) =>
                         InDomain(cfg, last.assign.w, last.am)
\* the only exceptions passed through come from the value's own conversion protocol
C01_PropOnlyFromProtocol == last.assign.tag = "prop" =>
   \/ Ty(tok) \in {"idxraise", "fltraise"} \/ Tok[tok].num = Huge
   \/ (cfg.t \in {"Tuple", "Union", "TUnion"})        \* a member's protocol exception (checked on the member's own case)
   \/ (~HasFast(cfg) /\ cfg.t \in {"CInt", "CFloat", "CComplex"})   \* int(inf): OverflowError of the conversion
\* ---- C03: the fast path decides like the Python method
Accept(r) == r.tag = "store"
C03_SameAcceptSet == (HasFast(cfg) /\ Dev(cfg, tok) = {}) => (Accept(last.fast) <=> Accept(last.py))
C03_SameResult == (HasFast(cfg) /\ Dev(cfg, tok) = {} /\ Accept(last.fast) /\ Accept(last.py)) =>
                     last.fast.w = last.py.w /\ last.fm = last.pm
C03_PyRejectImpliesFastReject == (HasFast(cfg) /\ Dev(cfg, tok) = {} /\ last.py.tag = "reject") => last.fast.tag = "reject"
\* a compound yields the result of the first accepting alternative = validating against it alone
C03_FirstAlternative == (IsUnion(cfg) /\ HasFast(cfg)) =>
   LET k == FirstOK(cfg, tok, "fast") IN
   IF k = 0 THEN last.fast.tag = "reject" ELSE last.fast = Assign(cfg.ms[k], tok)
=============================================================================
