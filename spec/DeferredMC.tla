------------------------------ MODULE DeferredMC ------------------------------
EXTENDS Deferred
CONSTANT MaxDepth
VARIABLES st, depth, last
vars == <<st, depth, last>>
Vals == {1, 2}
Init == /\ st = [par |-> 1, val |-> [p \in Cands |-> [t \in Targets |-> 1]], local |-> [x \in Attrs |-> Absent]]
        /\ depth = 0 /\ last = [op |-> "init", x |-> "a", calls |-> <<>>, pre |-> 0]
Step(op, x, r) == st' = r.st /\ last' = [op |-> op, x |-> x, calls |-> r.calls, pre |-> st.par] /\ depth' = depth + 1
MCAttrs == {"a", "c", "pa", "pe"}
Next == depth < MaxDepth /\
  \/ \E x \in MCAttrs, v \in Vals \cup {Bad} : Step("setd", x, SetViaD(st, x, v))
  \/ \E x \in MCAttrs, p \in Cands, v \in Vals : Step("setp", x, SetOnP(st, p, x, v))
  \/ \E x \in MCAttrs : Step("del", x, DelLocal(st, x))
  \/ \E p \in 0..2 : Step("swap", "a", Swap(st, p))
Spec == Init /\ [][Next]_vars
\* ---- C11 as TLC decides it
DelegateMirrors == \A x \in {"a", "b", "c", "e"} : st.par # 0 => ReadD(st, x) = st.val[st.par][Target(x)]
DelegateNeverLocal == \A x \in {"a", "b", "c", "e"} : st.local[x] = Absent
PrototypeIndependentOnceAssigned == \A x \in {"pa", "pb", "pc", "pe"} : st.local[x] # Absent => ReadD(st, x) = st.local[x]
DeleteRestoresLink == last.op = "del" /\ Kind(last.x) = "prototype" /\ last.pre # 0 => Linked(st, last.x)
StaleDelegatesNeverNotify == [][\A x \in MCAttrs : last'.op = "setp" /\ last'.calls # <<>> => st'.val[st.par][Target(last'.x)] = last'.calls[1]]_vars
=============================================================================
