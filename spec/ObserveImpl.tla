----------------------------- MODULE ObserveImpl -----------------------------
(***************************************************************************)
(* The INCREMENTAL hook maintenance of traits.observation as the code does *)
(* it, for the series expressions child^Depth . value on a pool of three   *)
(* objects: user notifiers with reference counts, one maintainer per graph *)
(* level, the notifier list of the changed trait COPIED before dispatch,   *)
(* each maintainer removing the downstream graph from the old value        *)
(* (NotifierNotFound swallowed) and adding it to the new value while       *)
(* reading the in-flight heap.  TLC checks that the hooks it leaves equal  *)
(* the declarative definition computed from scratch (HooksConsistent).     *)
(* Known finding F8, found by TLC on this model and confirmed on the code:  *)
(* reassigning a link of an object that lies on a CYCLE (in particular a   *)
(* self-loop) leaves stale hooks, because the removal walk from the old    *)
(* value re-reads the mutated object's NEW link.  Minimal behaviours:      *)
(*   Depth 2: Assign(r, r); Assign(r, a)                                   *)
(*   Depth 3: Assign(r, a); Assign(a, r); Assign(r, b)                     *)
(* With AllowCyclicMutation = FALSE (such steps excluded) the invariants   *)
(* hold for every history.                                                 *)
(***************************************************************************)
EXTENDS Integers, Sequences, FiniteSets, TLC
CONSTANTS AllowCyclicMutation, Depth      \* Depth: number of `child` links before `value` (1..3)
Obj == {"r", "a", "b"}
None == "none"
Obs == {<<"child", x>> : x \in Obj} \cup {<<"value", x>> : x \in Obj}
VARIABLES heap, hooks
vars == <<heap, hooks>>
U(n) == [t |-> "U", k |-> 0, ref |-> n]          \* user notifier (TraitEventNotifier) with its reference count
M(k) == [t |-> "M", k |-> k, ref |-> 0]          \* maintainer (ObserverChangeNotifier) of graph level k
IdxOf(s, P(_)) == IF \E i \in 1..Len(s) : P(s[i]) THEN CHOOSE i \in 1..Len(s) : P(s[i]) /\ \A j \in 1..(i - 1) : ~P(s[j]) ELSE 0
RemoveAt(s, i) == SubSeq(s, 1, i - 1) \o SubSeq(s, i + 1, Len(s))
IsU(e) == e.t = "U"
AddU(h, ob) == LET i == IdxOf(h[ob], IsU) IN
               IF i > 0 THEN [h EXCEPT ![ob][i].ref = @ + 1] ELSE [h EXCEPT ![ob] = Append(@, U(1))]
RemU(h, ob) == LET i == IdxOf(h[ob], IsU) IN
               IF i = 0 THEN [h |-> h, ok |-> FALSE]
               ELSE IF h[ob][i].ref = 1 THEN [h |-> [h EXCEPT ![ob] = RemoveAt(@, i)], ok |-> TRUE]
               ELSE [h |-> [h EXCEPT ![ob][i].ref = @ - 1], ok |-> TRUE]
AddM(h, ob, k) == [h EXCEPT ![ob] = Append(@, M(k))]
RemM(h, ob, k) == LET i == IdxOf(h[ob], LAMBDA e : e.t = "M" /\ e.k = k) IN
                  IF i = 0 THEN [h |-> h, ok |-> FALSE] ELSE [h |-> [h EXCEPT ![ob] = RemoveAt(@, i)], ok |-> TRUE]
Last == Depth + 1                                  \* graph levels 1..Depth are `child`, level Last is `value`
\* add_or_remove_notifiers(remove=False) for the graph suffix starting at level j on object x
RECURSIVE Add(_, _, _, _)
Add(h, hp, j, x) ==
  IF j = Last THEN AddU(h, <<"value", x>>)
  ELSE LET h1 == AddU(h, <<"child", x>>)
           h2 == AddM(h1, <<"child", x>>, j)
           y  == hp[x]
       IN IF y = None THEN h2 ELSE Add(h2, hp, j + 1, y)
\* remove=True: the steps in reverse order (children, maintainers, notifiers); a failure undoes what was done
RECURSIVE Rem(_, _, _, _)
Rem(h, hp, j, x) ==
  IF j = Last THEN RemU(h, <<"value", x>>)
  ELSE LET y  == hp[x]
           r1 == IF y = None THEN [h |-> h, ok |-> TRUE] ELSE Rem(h, hp, j + 1, y)
       IN IF ~r1.ok THEN [h |-> h, ok |-> FALSE]
          ELSE LET r2 == RemM(r1.h, <<"child", x>>, j) IN
               IF ~r2.ok THEN [h |-> h, ok |-> FALSE]
               ELSE LET r3 == RemU(r2.h, <<"child", x>>) IN
                    IF ~r3.ok THEN [h |-> h, ok |-> FALSE] ELSE r3
\* dispatch of the COPIED notifier list of child[o] after the new value has been stored
RECURSIVE Dispatch(_, _, _, _, _, _)
Dispatch(h, hp, lst, i, old, new) ==
  IF i > Len(lst) THEN h
  ELSE LET e == lst[i] IN
       IF e.t # "M" THEN Dispatch(h, hp, lst, i + 1, old, new)
       ELSE LET h1 == IF old # None THEN Rem(h, hp, e.k + 1, old).h ELSE h       \* NotifierNotFound swallowed
                h2 == IF new # None THEN Add(h1, hp, e.k + 1, new) ELSE h1
            IN Dispatch(h2, hp, lst, i + 1, old, new)
Empty == [ob \in Obs |-> <<>>]
Init == /\ heap = [x \in Obj |-> None]
        /\ hooks = Add(Empty, [x \in Obj |-> None], 1, "r")                        \* r.observe(handler, expression)
RECURSIVE Downstream(_, _)
Downstream(x, n) == IF x = None \/ n = 0 THEN {} ELSE {x} \cup Downstream(heap[x], n - 1)
OnCycle(o) == o \in Downstream(heap[o], 3)                  \* o is reachable from its own current successor
Assign(o, v) == /\ heap[o] # v
                /\ (AllowCyclicMutation \/ ~OnCycle(o))
                /\ heap' = [heap EXCEPT ![o] = v]
                /\ hooks' = Dispatch(hooks, heap', hooks[<<"child", o>>], 1, heap[o], v)
Next == \E o \in Obj, v \in Obj \cup {None} : Assign(o, v)
Spec == Init /\ [][Next]_vars

\* ---- the declarative expectation, from scratch
RECURSIVE At(_, _)
At(x, k) == IF k = 0 THEN x ELSE IF x = None THEN None ELSE At(heap[x], k - 1)     \* object after k child links
URef(ob) == LET i == IdxOf(hooks[ob], IsU) IN IF i = 0 THEN 0 ELSE hooks[ob][i].ref
\* how many graph levels put a user notifier on an observable
ExpValue(x) == IF At("r", Depth) = x THEN 1 ELSE 0
ExpChild(x) == Cardinality({k \in 0..(Depth - 1) : At("r", k) = x})
HooksConsistent == \A x \in Obj : URef(<<"value", x>>) = ExpValue(x) /\ URef(<<"child", x>>) = ExpChild(x)
\* the user's view (what C08 states): value is hooked iff currently reachable
TracksReachable == \A x \in Obj : (URef(<<"value", x>>) > 0) <=> (At("r", Depth) = x)
=============================================================================
