------------------------- MODULE Trace_CTraitUpdate -------------------------
(* judge of the executed (old kind, new kind) programs: the finaliser ran, and what it read is the NEW default *)
EXTENDS CTraitUpdate, Sequences, Json, IOUtils
Trace == ndJsonDeserialize(IOEnv.TRACE_FILE)
N == Len(Trace)
VARIABLE i
TInit == i = 0 /\ oldk = "constant" /\ newk = "constant"          \* (the model's own variables are not used by the judge)
TNext == i < N /\ i' = i + 1 /\ UNCHANGED <<oldk, newk>>
TSpec == TInit /\ [][TNext]_<<i, oldk, newk>>
Clauses(c) == (IF c.fired = 1 THEN {} ELSE {"finaliser-did-not-run"})
              \cup (IF c.rtype = ReadType(c.newk) THEN {} ELSE {"C18-reader-saw-inconsistent-default"})
              \cup (IF c.after = "" THEN {} ELSE {"C18-definition-unusable-afterwards"})
Judge == i = 0 \/ LET f == Clauses(Trace[i]) IN IF f = {} THEN TRUE ELSE PrintT(<<"REJECT", i, f>>)
=============================================================================
