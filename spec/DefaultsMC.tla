------------------------------ MODULE DefaultsMC ------------------------------
EXTENDS Defaults
CONSTANTS NInst, MaxDepth, MCAttrs
VARIABLES insts, created, depth, actor
vars == <<insts, created, depth, actor>>
Sub(i) == i = NInst                       \* the last instance belongs to the subclass
Init == insts = [i \in 1..NInst |-> NewInst] /\ created = {1} /\ depth = 0 /\ actor = 0
Do(i, op, a, v) == /\ i \in created
                   /\ insts' = [insts EXCEPT ![i] = Apply(op, @, a, v, Sub(i)).st]
                   /\ actor' = i /\ UNCHANGED created
Create == \E i \in (1..NInst) \ created : created' = created \cup {i} /\ actor' = i /\ UNCHANGED insts
Next == /\ depth < MaxDepth /\ depth' = depth + 1
        /\ \/ Create
           \/ \E i \in created, a \in MCAttrs : Do(i, "read", a, 0) \/ (a \in Mutable /\ Do(i, "mutate", a, 0))
                                                 \/ Do(i, "delete", a, 0)
                                                 \/ (a \in {"c_int", "m_dyn"} /\ \E v \in {3, 9} : Do(i, "assign", a, v))
           \/ \E i \in created : Do(i, "wobserve", "c_int", 0) \/ (\E v \in {3, 9} : Do(i, "wassign", "c_int", v))
           \/ \E i \in created : Do(i, "query", "c_int", 0) \/ Do(i, "register", "c_int", 0) \/ Do(i, "add_trait", "c_int", 0) \/ Do(i, "mutate_extra", "c_int", 0)
Spec == Init /\ [][Next]_vars
\* ---- C10 as TLC decides it
\* non-interference: only the actor's view changes; an instance not yet created is pristine
NonInterference == [][\A j \in 1..NInst : j # actor' => insts'[j] = insts[j]]_vars
Pristine == \A j \in (1..NInst) \ created : insts[j] = NewInst
\* a dynamic default runs at most once per instance and attribute between deletions
DefaultOnce == \A i \in 1..NInst, a \in Dynamic \cap MCAttrs : insts[i].runs[a] <= 1 + depth     \* (deletions re-arm it)
\* a value that was never assigned or mutated reads as the declared default of the instance's own class
DeclaredDefault == \A i \in created, a \in MCAttrs :
   LET r == Read(insts[i], a, Sub(i)) IN insts[i].vals[a].set = 0 =>
       /\ r.st.calls = insts[i].calls
       /\ r.st.vals[a] = Val(a, Default(a, Sub(i)))                       \* what is stored
       /\ \/ r.ret = Default(a, Sub(i))
          \/ a \in FaultOnFirstRead /\ r.ret = FaultRet /\ Read(r.st, a, Sub(i)).ret = Default(a, Sub(i))   \* the fault does not undo it
=============================================================================
