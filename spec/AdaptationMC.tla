----------------------------- MODULE AdaptationMC -----------------------------
(* The algorithm of AdaptationManager._adapt as a state machine, one heappop per step. *)
EXTENDS Adaptation
CONSTANTS NOffers, Types, OkModes
VARIABLES offers, src, tgt, queue, counter, result, phase
vars == <<offers, src, tgt, queue, counter, result, phase>>
OfferIds == 1..NOffers
Offer == [from : Types, to : Types, ok : OkModes]
\* offers as a multiset: registration order only matters for ties, which the model explores
\* nondeterministically, so only non-decreasing encodings are enumerated
TypeRank(t) == CHOOSE k \in 1..10 : <<"A0", "A1", "A2", "B0", "B1", "D", "V", "I", "W0", "W1">>[k] = t
OkRank(m) == CHOOSE k \in 1..5 : <<"always", "never", "first", "later", "deep">>[k] = m
Code(o) == (TypeRank(o.from) * 16 + TypeRank(o.to)) * 8 + OkRank(o.ok)
Init == /\ offers \in [OfferIds -> Offer]
        /\ \A i \in 1..(NOffers - 1) : Code(offers[i]) <= Code(offers[i + 1])
        /\ src \in Types \ {"I"}                 \* the adaptee is an instance of a concrete class
        /\ tgt \in Types
        /\ queue = {[w |-> <<0, 0, 0>>, path |-> <<>>, cur |-> src]}
        /\ counter = 1 /\ result = <<0>> /\ phase = IF Provides(src, tgt) THEN "self" ELSE "search"
Less(a, b) == \/ a[1] < b[1] \/ (a[1] = b[1] /\ a[2] < b[2]) \/ (a[1] = b[1] /\ a[2] = b[2] /\ a[3] < b[3])
MinEntry == CHOOSE e \in queue : \A f \in queue : e = f \/ Less(e.w, f.w)
ApplicableOffers(cur, path) == {i \in OfferIds : Provides(cur, offers[i].from) /\ i \notin SeqToSet(path)}
\* _by_weight_then_from_protocol_specificity as a strict preference; ties in any order (stable sort
\* keeps registration order, which the model does not fix)
Prefer(cur, i, j) == LET di == MroDist(cur, offers[i].from) dj == MroDist(cur, offers[j].from) IN
                       \/ di < dj
                       \/ (di = dj /\ offers[i].from # offers[j].from /\ Provides(offers[i].from, offers[j].from))
Perms(S) == {s \in [1..Cardinality(S) -> S] : \A a, b \in 1..Cardinality(S) : a # b => s[a] # s[b]}
Sorted(cur, s) == \A a, b \in 1..Len(s) : a < b => ~Prefer(cur, s[b], s[a])
RECURSIVE Process(_, _, _, _, _)
Process(e, order, k, newq, c) ==
  IF k > Len(order) THEN [found |-> <<>>, q |-> newq, c |-> c]
  ELSE LET i == order[k] np == Append(e.path, i) IN
       IF Provides(offers[i].to, tgt)
       THEN IF ChainOKFor(offers, np) THEN [found |-> np, q |-> newq, c |-> c]
            ELSE Process(e, order, k + 1, newq, c)
       ELSE Process(e, order, k + 1,
                    newq \cup {[w |-> <<e.w[1] + 1, e.w[2] + MroDist(e.cur, offers[i].from), c>>,
                                path |-> np, cur |-> offers[i].to]}, c + 1)
Pop == /\ phase = "search" /\ queue # {}
       /\ LET e == MinEntry app == ApplicableOffers(e.cur, e.path) IN
          \E order \in Perms(app) :
             /\ Sorted(e.cur, order)
             /\ LET r == Process(e, order, 1, {}, counter) IN
                /\ queue' = (queue \ {e}) \cup r.q /\ counter' = r.c
                /\ IF r.found # <<>> THEN result' = r.found /\ phase' = "done" ELSE UNCHANGED <<result, phase>>
       /\ UNCHANGED <<offers, src, tgt>>
Fail == /\ phase = "search" /\ queue = {} /\ phase' = "done" /\ result' = <<0>>
        /\ UNCHANGED <<offers, src, tgt, queue, counter>>
Next == Pop \/ Fail
Spec == Init /\ [][Next]_vars

AllChains == AllChainsFor(offers, src, tgt)
Correct == phase = "done" =>
             /\ (result = <<0>>) <=> (AllChains = {})
             /\ result # <<0>> => /\ Len(result) = MinLenOf(AllChains) /\ result \in AllChains
                                  /\ ValidChain(offers, src, tgt, result)
SpecificFirst == (phase = "done" /\ result # <<0>>) => SpecificFirstFor(offers, src, tgt, result)
Terminates == counter < 400
\* the two declarative definitions agree: every member of AllChains is a valid chain
ChainsAreValid == \A c \in AllChains : ValidChain(offers, src, tgt, c)
\* mode A: a specification whose only states are the configurations (dumped and replayed)
NextNone == FALSE /\ UNCHANGED vars
SpecCfg == Init /\ [][NextNone]_vars
=============================================================================
