--------------------------- MODULE Trace_RegCount ---------------------------
EXTENDS RegCount, Sequences, Json, IOUtils
Trace == ndJsonDeserialize(IOEnv.TRACE_FILE)
N == Len(Trace)
VARIABLE i
NB == 64
BSize == (N + NB - 1) \div NB
Init == i = 0
Next == \/ i = 0 /\ i' \in {-b : b \in 1..NB}
        \/ i < 0 /\ i' \in (((-i) - 1) * BSize + 1)..(IF (-i) * BSize < N THEN (-i) * BSize ELSE N)
Spec == Init /\ [][Next]_i
StOf(c) == [cnt |-> c.cnt, alive |-> {c.alive[k] : k \in 1..Len(c.alive)}]
Clauses(c) ==
  LET r == Apply(StOf(c), c.op, c.t, c.h, c.m) IN
     (IF c.exc = r.exc THEN {} ELSE {"C09-outcome"})
     \cup (IF \A h \in Handlers : c.calls[h] = r.calls[h] THEN {} ELSE {"C09-calls-per-observed-object"})
     \* the probe after the step: a change of the shared child calls as the specification's state after the step says
     \cup (IF \A h \in Handlers : c.probe[h] = CallsOnChange(r.st)[h] THEN {} ELSE {"C09-registrations-after-step"})
     \cup (IF \A tt \in r.st.alive : \A h \in Handlers : c.probetag[tt][h] = CallsOnTag(r.st, tt)[h] THEN {} ELSE {"C09-registrations-after-step-own-trait"})
     \cup (IF c.op = "collect" /\ c.collected = 0 THEN {"C09-registration-keeps-observed-object-alive"} ELSE {})
Judge == i <= 0 \/ LET f == Clauses(Trace[i]) IN IF f = {} THEN TRUE ELSE PrintT(<<"REJECT", i, f>>)
AllJudged == TLCGet("distinct") = N + NB + 1
=============================================================================
