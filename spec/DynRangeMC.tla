----------------------------- MODULE DynRangeMC -----------------------------
(* histories of bound changes, assignments and reads; C01 for dynamic ranges decided by TLC on the specification *)
EXTENDS DynRange
CONSTANTS MaxDepth, KnownFindings
VARIABLES cfg, st, last, depth
vars == <<cfg, st, last, depth>>
Cfgs == {c \in [lk : {"name", "const", "none"}, hk : {"name", "const", "none"}, lc : {1}, hc : {6}, xl : BOOLEAN, xh : BOOLEAN] :
           /\ "name" \in {c.lk, c.hk}
           /\ (c.lk = "none" => ~c.xl) /\ (c.hk = "none" => ~c.xh)}
Vals == {0, 2, 4, 6, 8}
Init == cfg \in Cfgs /\ st = [lo |-> 2, hi |-> 6, cache |-> Unset] /\ last = [op |-> "init"] /\ depth = 0
Do(op, v) == LET r == Apply(cfg, st, op, v) IN
             /\ st' = r.st /\ last' = [op |-> op, v |-> v, pre |-> st, exc |-> r.exc, val |-> r.val]
             /\ depth' = depth + 1 /\ UNCHANGED cfg
Next == depth < MaxDepth /\ (Do("read", 0) \/ \E v \in Vals \cup {Bad} : Do("assign", v)
                             \/ \E w \in Vals : Do("setlo", w) \/ Do("sethi", w))
Spec == Init /\ [][Next]_vars
\* no value outside the declared domain is ever readable
C01_ReadInDomain == (last.op = "read" /\ NonEmpty(cfg, last.pre))
                      => (InDomain(cfg, last.pre, last.val) \/ ("F33" \in KnownFindings /\ KF33Guard(cfg, last.pre, last.val)))
\* an accepted assignment is readable as assigned, a rejected one changes nothing
C01_AssignedInDomain == (last.op = "assign" /\ last.exc = "") => InDomain(cfg, last.pre, last.v) /\ st.cache = last.v
C01_RejectedNoEffect == (last.op = "assign" /\ last.exc # "") => st = last.pre
HView == <<cfg, st, last.op, last.val>>
=============================================================================
