------------------------------ MODULE ObserveMC ------------------------------
(* Laws of the declarative reachability semantics, checked by TLC over every heap reachable by the  *)
(* mutations below (bounded container sizes).  They are what "tracks exactly the objects currently *)
(* reachable" means structurally, and what makes incremental maintenance possible (FrameLaw).      *)
EXTENDS Observe
CONSTANTS MaxKids, KidsOwners, DictOwners, SetOwners, BoxOwners
VARIABLES h, last
vars == <<h, last>>
None == 1000
Empty == [child |-> [x \in Obj |-> NoneO], kids |-> [x \in Obj |-> <<>>], d |-> [x \in Obj |-> <<>>],
          s |-> [x \in Obj |-> {}], dl |-> [x \in Obj |-> <<>>], hasx |-> [x \in Obj |-> 0], xv |-> [x \in Obj |-> 0],
          box |-> [x \in Obj |-> <<>>], boxi |-> [x \in Obj |-> 0]]
Mk(t, op, x, a, xs, ps) == [t |-> t, op |-> op, x |-> x, a |-> a, xs |-> xs, ps |-> ps]
Muts == {Mk("child", "", x, <<y, 0, 0>>, <<>>, <<>>) : x \in Obj, y \in 0..NObj}
        \cup {Mk("kids", "append", x, <<0, 0, 0>>, <<y>>, <<>>) : x \in KidsOwners, y \in Obj}
        \cup {Mk("kids", "pop", x, <<None, 0, 0>>, <<>>, <<>>) : x \in KidsOwners}
        \cup {Mk("kids", "setitem", x, <<0, 0, 0>>, <<y>>, <<>>) : x \in KidsOwners, y \in Obj}
        \cup {Mk("kidsassign", "", x, <<0, 0, 0>>, <<>>, <<>>) : x \in KidsOwners}
        \cup {Mk("d", "setitem", x, <<k, y, 0>>, <<>>, <<>>) : x \in DictOwners, k \in {1, 11}, y \in Obj}
        \cup {Mk("d", "clear", x, <<0, 0, 0>>, <<>>, <<>>) : x \in DictOwners}
        \cup {Mk("s", "add", x, <<y, 0, 0>>, <<>>, <<>>) : x \in SetOwners, y \in Obj}
        \cup {Mk("s", "clear", x, <<0, 0, 0>>, <<>>, <<>>) : x \in SetOwners}
        \cup {Mk("dl", "setitem", x, <<1, 0, 0, 0>>, q, <<>>) : x \in SetOwners, q \in {<<>>} \cup {<<y>> : y \in Obj}}
        \cup {Mk("addx", "", x, <<0, 0, 0>>, <<>>, <<>>) : x \in SetOwners}
        \cup {Mk("boxassign", "", x, <<0, 0, 0>>, q, <<>>) : x \in BoxOwners, q \in {<<>>} \cup {<<y>> : y \in Obj}}
        \cup {Mk("boxint", "", x, <<0, 0, 0>>, <<>>, <<>>) : x \in BoxOwners}
        \cup {Mk("box", "append", x, <<0, 0, 0>>, <<y>>, <<>>) : x \in BoxOwners, y \in Obj}
        \cup {Mk("del", op, x, <<0, 0, 0>>, <<>>, <<>>) : x \in KidsOwners, op \in {"child", "kids", "d", "s", "dl"}}
Init == h = Empty /\ last = Mk("init", "", 1, <<0, 0, 0>>, <<>>, <<>>)
Do(m) == /\ (m.t = "kids" => L!Apply(m.op, h.kids[m.x], "id", m.a, m.xs).excs = {""})
         /\ h' = Mutate(h, m) /\ last' = m
         /\ \A x \in Obj : Len(h'.kids[x]) <= MaxKids /\ Len(h'.box[x]) <= MaxKids
Next == \E m \in Muts : Do(m)
Spec == Init /\ [][Next]_vars

\* objects reachable from the root along any link at all
Linked == Closure(h, {Root})

NotifyingIsCovered == \A e \in Exprs : Notifying(h, e) \subseteq AllCovered(h, e)
OwnerOf(ob) == IF ob[1] = "L" THEN ob[2] \div 100 ELSE ob[2]
DetachedNeverObserved == \A e \in Exprs : \A ob \in AllCovered(h, e) : OwnerOf(ob) \in Linked
QuietLinksOnlyRemoveTheLink ==
  /\ Notifying(h, "child.value") = Notifying(h, "child:value") \cup {<<"trait", Root, "child">>}
  /\ AllCovered(h, "child.value") = AllCovered(h, "child:value")
  /\ Notifying(h, "kids.items.value") = Notifying(h, "kids:items:value") \cup {<<"trait", Root, "kids">>, <<"l", Root>>}
SetsLikeLists == \A x \in Obj : (h.s[Root] = SeqSet(h.kids[Root]) /\ h.kids[Root] # <<>>) =>
                    {ob \in Notifying(h, "s.items.value") : ob[1] = "trait" /\ ob[3] = "value"} = {ob \in Notifying(h, "kids.items.value") : ob[1] = "trait" /\ ob[3] = "value"}
ParallelIsUnion == Notifying(h, "[child,kids.items].value") = Notifying(h, "child.value") \cup Notifying(h, "kids.items.value")
SeriesExtends == \A ob \in Notifying(h, "child") : ob \in Notifying(h, "child.value")
MetadataIsTheTaggedTraits == /\ Notifying(h, "+tracked.value") = Notifying(h, "child.value")
                             /\ Notifying(h, "+ltracked:items.value") = Notifying(h, "kids:items.value")
\* locality: a mutation that does not hit a covered observable cannot change what an expression covers
\* the incoming mutation is not part of the state identity (each heap is explored once; the action
\* property below is still evaluated on every generated transition)
HView == h
FrameAction == [][\A e \in Exprs : (Hit(last') \notin AllCovered(h, e)) => AllCovered(h', e) = AllCovered(h, e)]_vars
=============================================================================
