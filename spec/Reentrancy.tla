------------------------------ MODULE Reentrancy ------------------------------
(***************************************************************************)
(* Borrowed references across callbacks (property C18, the part a          *)
(* specification can state).  The compiled entry points look a trait (and, *)
(* for deferred attributes, the delegate object and ITS trait) up in a     *)
(* dictionary - a BORROWED pointer - and then run user code: a validator,  *)
(* a default-value method, a property getter / setter, change handlers.    *)
(* That code may call back into the API and drop the dictionary's          *)
(* reference (remove_trait, add_trait over the same name, replacing the    *)
(* delegate).  The C frame goes on using the pointer after the callback    *)
(* returns wherever UsesAfter says so (read off ctraits.c).                *)
(*                                                                         *)
(* One state = one program: where the governing trait lives, the callback  *)
(* site, the re-entrant action.  Safe: every pointer the frame still uses  *)
(* after the callback has an owner left.  With FrameHolds = TRUE (the      *)
(* entry points take their own reference: repair of finding F25) TLC       *)
(* proves Safe for all programs; with FrameHolds = FALSE it produces the   *)
(* use-after-free programs.  Every state is executed against an ASan+UBSan *)
(* build of the real extension by the C18 driver.                          *)
(***************************************************************************)
EXTENDS Integers, FiniteSets, TLC
CONSTANT FrameHolds

\* where the trait governing the attribute lives:
\*   class     - in the class dictionary only (permanent owner)
\*   instance  - an instance-level copy exists (the object has a handler on the attribute): obj->itrait_dict owns it
\*   added     - given with add_trait: obj->itrait_dict owns it
\*   delegated - the attribute defers (DelegatesTo) to a delegate object held in obj.__dict__; the delegate holds an
\*               instance-level copy of the target trait (the deferral listener made it)
\*   proto     - the same with PrototypedFrom (the value is stored on the object itself)
Wheres == {"class", "instance", "added", "delegated", "proto"}
\* the user code the C frame is running
Sites == {"validate", "default", "getter", "setter", "validated_setter", "static_handler", "dynamic_handler", "post_setattr"}
\* what that code does
Actions == {"none", "remove_trait", "replace_trait", "delete_value", "clear_dict", "unhook", "swap_delegate", "drop_delegate",
            "collect", "reassign", "read", "add_other_trait"}

\* the borrowed pointers of the frame: the trait it dispatched through; for deferred attributes the delegate and its trait
Ptrs(w) == IF w \in {"delegated", "proto"} THEN {"delegate", "traitd"} ELSE {"trait"}
\* pointers read again after the callback returns (ctraits.c):
\*   validate:  setattr_trait reads traitd->flags, ->post_setattr, traito->notifiers after traitd->validate
\*   default:   default_value_for validates the method's result with trait->validate, getattr_trait stores it
\*   validated_setter: setattr_validate_property calls traitd->post_setattr (the setter) after traitd->validate
\*   getter / setter / handlers / post_setattr: the frame only releases its own value references afterwards
UsesAfter(site, w) ==
  CASE site \in {"validate", "default", "validated_setter"} -> Ptrs(w)
    [] OTHER -> {}
\* a deferred read does not go through this frame shape (getattr_delegate owns its delegate); programs that make no
\* sense are left out: property sites on deferred / added attributes, swapping a delegate that does not exist
Sensible(w, site, a) ==
  /\ (site \in {"getter", "setter", "validated_setter"} => w \in {"class", "instance"})
  /\ (a \in {"swap_delegate", "drop_delegate"} => w \in {"delegated", "proto"})
  /\ (w = "delegated" => site \in {"validate", "static_handler", "dynamic_handler", "default"})
  /\ (w = "proto" => site \in {"validate", "default"})       \* (a local value: the prototype's handlers are not involved)
  /\ (a = "unhook" => w # "class")

\* owners of a pointer before the callback, apart from the frame
OwnersBefore(p, w) ==
  CASE p = "trait"    -> IF w = "class" THEN {"class_dict"} ELSE {"itrait_dict"}
    [] p = "delegate" -> {"obj_dict"}
    [] p = "traitd"   -> {"delegate_itrait_dict"}
\* owners the action removes
Drops(a, w) ==
  \* (the action is performed on the object whose callback is running: for a deferred attribute that is the delegate)
  CASE a \in {"remove_trait", "replace_trait"} -> IF w \in {"delegated", "proto"} THEN {"delegate_itrait_dict"} ELSE {"itrait_dict"}
    [] a \in {"swap_delegate", "drop_delegate"} -> {"obj_dict", "delegate_itrait_dict"}   \* the old delegate dies with its traits
    [] a = "unhook"  -> {}          \* the instance-level copy stays once made
    [] OTHER -> {}
OwnersAfter(p, w, a) == (OwnersBefore(p, w) \ Drops(a, w)) \cup (IF FrameHolds THEN {"frame"} ELSE {})

VARIABLES where, site, act
vars == <<where, site, act>>
Init == where \in Wheres /\ site \in Sites /\ act \in Actions /\ Sensible(where, site, act)
Next == UNCHANGED vars
Spec == Init /\ [][Next]_vars
Safe == \A p \in UsesAfter(site, where) : OwnersAfter(p, where, act) # {}
=============================================================================
