------------------------------ MODULE DynRange ------------------------------
(***************************************************************************)
(* Range traits whose bounds NAME other attributes of the object (property *)
(* C01, "range and bound exclusivity", for BaseRange's dynamic form:       *)
(* trait_types.py BaseRange._get / _set / _validate).  The declared domain *)
(* moves with the bounds; the stored value does not.                       *)
(*   state st = [lo, hi: the bound attributes, cache: the stored value or  *)
(*               Unset (never assigned nor read)]                          *)
(*   cfg = [lk, hk: "name" | "const" | "none"; lc, hc: the constants;      *)
(*          xl, xh: exclude_low / exclude_high]                            *)
(***************************************************************************)
EXTENDS Integers, TLC
Unset == 999
Bad == 998                         \* a value of the wrong kind (text, None)
NoBound == 997
Low(cfg, st)  == IF cfg.lk = "name" THEN st.lo ELSE IF cfg.lk = "const" THEN cfg.lc ELSE NoBound
High(cfg, st) == IF cfg.hk = "name" THEN st.hi ELSE IF cfg.hk = "const" THEN cfg.hc ELSE NoBound
\* the declared domain, with the bounds as they are NOW
InDomain(cfg, st, x) ==
  /\ (Low(cfg, st) = NoBound \/ (IF cfg.xl THEN Low(cfg, st) < x ELSE Low(cfg, st) <= x))
  /\ (High(cfg, st) = NoBound \/ (IF cfg.xh THEN x < High(cfg, st) ELSE x <= High(cfg, st)))
NonEmpty(cfg, st) == \E x \in -3..12 : InDomain(cfg, st, x)
\* the default: the low bound if there is one, else the high bound (their current values when named)
DefaultOf(cfg, st) == IF cfg.lk # "none" THEN Low(cfg, st) ELSE High(cfg, st)
Stored(cfg, st) == IF st.cache = Unset THEN DefaultOf(cfg, st) ELSE st.cache
\* _get: the stored value (the default is stored by the first read), moved onto a bound it has fallen behind
Clamp(cfg, st, v) == IF Low(cfg, st) # NoBound /\ v < Low(cfg, st) THEN Low(cfg, st)
                     ELSE IF High(cfg, st) # NoBound /\ v > High(cfg, st) THEN High(cfg, st) ELSE v
Out(st, exc, val) == [st |-> st, exc |-> exc, val |-> val]
Read(cfg, st) == Out([st EXCEPT !.cache = Stored(cfg, st)], "", Clamp(cfg, st, Stored(cfg, st)))
\* _set / _validate: in the domain as it is now, else TraitError and nothing changes
Assign(cfg, st, v) == IF v = Bad \/ ~InDomain(cfg, st, v) THEN Out(st, "TraitError", 0) ELSE Out([st EXCEPT !.cache = v], "", 0)
Apply(cfg, st, op, v) ==
  CASE op = "read" -> Read(cfg, st)
    [] op = "assign" -> Assign(cfg, st, v)
    [] op = "setlo" -> Out([st EXCEPT !.lo = v], "", 0)
    [] op = "sethi" -> Out([st EXCEPT !.hi = v], "", 0)
\* Named deviation (known finding C01/F33): an EXCLUSIVE bound has moved onto or past the stored value: the read gives
\* the bound itself, which the declared domain excludes
KF33Guard(cfg, st, val) == (cfg.xl /\ val = Low(cfg, st)) \/ (cfg.xh /\ val = High(cfg, st))
=============================================================================
