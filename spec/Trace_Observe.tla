----------------------------- MODULE Trace_Observe -----------------------------
(* Judge of recorded steps of real observe() histories against the declarative Observe.tla *)
EXTENDS Observe, Json, IOUtils
Trace == ndJsonDeserialize(IOEnv.TRACE_FILE)
N == Len(Trace)
VARIABLE i
NB == 64
BSize == (N + NB - 1) \div NB
Init == i = 0
Next == \/ i = 0 /\ i' \in {-b : b \in 1..NB}
        \/ i < 0 /\ i' \in (((-i) - 1) * BSize + 1)..(IF (-i) * BSize < N THEN (-i) * BSize ELSE N)
Spec == Init /\ [][Next]_i
SetOf(q) == {q[k] : k \in 1..Len(q)}
\* JSON heaps use sequences indexed by object number: identical to functions over Obj
\* (recorded heaps carry the sets as sorted sequences: HS turns them into sets)
HS(hp) == [hp EXCEPT !.s = [x \in Obj |-> SeqSet(hp.s[x])]]
HeapEq(a, b) == /\ \A x \in Obj : a.child[x] = b.child[x] /\ a.kids[x] = b.kids[x] /\ a.vals[x] = b.vals[x]
                /\ \A x \in Obj : D!WellFormed(a.d[x]) /\ D!DictEq(a.d[x], b.d[x])
                /\ \A x \in Obj : a.s[x] = b.s[x] /\ D!WellFormed(a.dl[x]) /\ DLEq(a.dl[x], b.dl[x])
                                   /\ a.hasx[x] = b.hasx[x] /\ a.xv[x] = b.xv[x]
                                   /\ a.box[x] = b.box[x] /\ a.boxi[x] = b.boxi[x]
\* registrations: c.regs = sequence of [h, e, n] (handler id, expression, count > 0)
RegOf(c, hid) == CHOOSE r \in SetOf(c.regs) : r.h = hid
HasReg(c, hid) == \E r \in SetOf(c.regs) : r.h = hid
\* c.calls[hid]: sequence of events <<kind, x, name>> the handler received during the step (hid = 1..NH)
EvOf(ob) == IF ob[1] = "trait" THEN <<"trait", ob[2], ob[3]>> ELSE <<ob[1], ob[2], "">>
MutClauses(c) ==
  LET h == HS(c.pre)  m == c.m
      \* registrations on an observed property: one event when a relevant change alters the computed value;
      \* a relevant change that leaves the value as it was may or may not be announced
      pbad == {r \in SetOf(c.regs) : r.e \in Props /\
                LET got == c.calls[r.h]  ev == <<"trait", Root, r.e>> IN
                IF ~CalledViaProp(h, r.e, m) \/ ~MayNotify(h, m) THEN got # <<>>
                ELSE IF PropValue(h, r.e) # PropValue(Mutate(h, m), r.e) THEN got # <<ev>>
                ELSE ~(got = <<>> \/ got = <<ev>>)}
      bad == {r \in SetOf(c.regs) : r.e \notin Props /\
                LET got == c.calls[r.h]
                    exp == Called(h, r.e, m)
                IN IF IsChange(h, m) THEN got # (IF exp THEN <<EvOf(Hit(m))>> ELSE <<>>)
                   ELSE IF MayNotify(h, m) /\ exp THEN ~(got = <<>> \/ got = <<EvOf(Hit(m))>>)
                   ELSE got # <<>>}
      unreg == {k \in 1..Len(c.calls) : ~HasReg(c, k) /\ c.calls[k] # <<>>}
  IN (IF HeapEq(Mutate(h, m), HS(c.post)) THEN {} ELSE {"C08-model-heap"})
     \cup (IF bad = {} THEN {} ELSE {"C08-calls-during-change"})
     \cup (IF pbad = {} THEN {} ELSE {"C12-property-change-notification"})
     \cup (IF unreg = {} THEN {} ELSE {"C09-unregistered-handler-called"})
ProbeClauses(c) ==     \* after the step every object's value (and dynamic trait, where it has one) is bumped: who is called?
  LET h == HS(c.post)
      bad == {r \in SetOf(c.regs2) : \E x \in Obj : x # NoVal /\
                c.probe[r.h][x] # (IF <<"trait", x, "value">> \in Notifying(h, r.e)
                                      \/ (r.e \in Props /\ <<"trait", x, "value">> \in Notifying(h, DepOf(r.e))) THEN 1 ELSE 0)}
      xbad == {r \in SetOf(c.regs2) : \E x \in Obj : h.hasx[x] = 1 /\
                c.xprobe[r.h][x] # (IF <<"trait", x, "extra">> \in Notifying(h, r.e) THEN 1 ELSE 0)}
      unreg == {k \in 1..Len(c.probe) : (~\E r \in SetOf(c.regs2) : r.h = k) /\ \E x \in Obj : c.probe[k][x] # 0 \/ c.xprobe[k][x] # 0}
  IN (IF bad = {} THEN {} ELSE {"C08-reachability-probe"})
     \cup (IF xbad = {} THEN {} ELSE {"C08-reachability-probe-dynamic-trait"})
     \cup (IF unreg = {} THEN {} ELSE {"C09-unregistered-handler-called"})
RegClauses(c) ==       \* observe / unobserve steps; c.regs before, c.regs2 after
  LET cnt == IF HasReg(c, c.m.h) THEN RegOf(c, c.m.h).n ELSE 0 IN
  IF c.m.t = "observe"
  THEN IF Fails(HS(c.pre), c.m.e)
       THEN (IF c.exc = "" THEN {"C09-failing-registration-accepted"} ELSE {})
            \cup (IF c.census2 # c.census1 THEN {"C09-failed-registration-left-notifiers"} ELSE {})
       ELSE (IF c.exc # "" THEN {"C09-registration-raised"} ELSE {})
  ELSE IF cnt = 0
       THEN (IF c.exc # "NotifierNotFound" THEN {"C09-removal-without-registration-did-not-raise"} ELSE {})
            \cup (IF c.census2 # c.census1 THEN {"C09-failed-removal-changed-notifiers"} ELSE {})
       \* a removal that cannot walk the graph (a quiet assignment put a non-container where a list is required) raises
       \* and leaves every notifier where it was
       ELSE IF Fails(HS(c.pre), c.m.e)
            THEN (IF c.exc = "" THEN {"C09-failing-removal-accepted"} ELSE {})
                 \cup (IF c.census2 # c.census1 THEN {"C09-failed-removal-changed-notifiers"} ELSE {})
       ELSE (IF c.exc # "" THEN {"C09-removal-raised"} ELSE {})
\* Out of the quantifier: a mutation after which an active registration's expression no longer applies
\* (an object lacking a required trait has been linked into an observed path).  The framework raises
\* from the mutation itself; the statement of C08 assumes expressions that remain applicable.
\* The observed properties of the root are permanent registrations of their dependency expressions.
Inapplicable(c) == \/ \E r \in SetOf(c.regs) : Fails(HS(c.post), r.e) \/ Fails(HS(c.pre), r.e)
                   \/ \E p \in Props : Fails(HS(c.post), DepOf(p)) \/ Fails(HS(c.pre), DepOf(p))
\* C12: a read of an observed property.  c.ret: the value read; c.runs: getter runs during the read; c.since: the
\* mutations <<pre-heap, m>> performed since the previous read of the same property (c.first = 1: no previous read)
ReadClauses(c) ==
  LET p == c.m.e
      changed == \E k \in 1..Len(c.since) : Relevant(HS(c.since[k].pre), p, c.since[k].m) /\ MayNotify(HS(c.since[k].pre), c.since[k].m)
      \* Named deviation (known finding C12/F32): root.child was given an object LACKING the observed trait.  The
      \* assignment takes effect and raises from inside the framework: the maintainer of the FIRST registration on the
      \* path (the uncached property chv) raises, and the C layer stops calling the remaining notifiers of the trait -
      \* among them the one that would have dropped the cache of the second property (cfirst)
      kf32 == p = "cfirst" /\ c.post.child[Root] = NoVal
  IN (IF c.ret = PropValue(c.post, p) THEN {} ELSE IF kf32 THEN {"KF32"} ELSE {"C12-stale-read"})
     \cup (IF c.runs > 1 THEN {"C12-getter-ran-more-than-once"} ELSE {})
     \cup (IF p \in CachedProps /\ c.first = 0 /\ ~changed /\ c.runs # 0 THEN {"C12-cached-getter-ran-without-relevant-change"} ELSE {})
Clauses(c) ==
  IF c.m.t = "read" THEN ReadClauses(c) ELSE
  \* the pool is replaced by a pickle / deep copy of itself: same heap, dynamic registrations gone
  IF c.m.t = "copy" THEN (IF HeapEq(HS(c.pre), HS(c.post)) THEN {} ELSE {"C12-copy-changed-state"})
                          \cup (IF c.exc = "" /\ c.rets[1] = PropValue(c.post, "csnap") /\ c.rets[2] = PropValue(c.post, "chv")
                                THEN {} ELSE {"C12-stale-read-on-copy"})
                          \cup ProbeClauses(c) ELSE
  \* end of a history: every reference to the pool is dropped and the garbage collector run
  IF c.m.t = "collect" THEN (IF c.alive = 0 THEN {} ELSE {"C09-registrations-keep-objects-alive"}) ELSE
  \* the owner of a bound-method handler was collected: from now on that handler is never called (c.regs2 omits it)
  IF c.m.t = "drop_owner" THEN (IF c.exc = "" /\ c.alive = 0 THEN {} ELSE {"C09-handler-owner-kept-alive"}) \cup ProbeClauses(c) ELSE
  \* a QUIET assignment (trait_setq): nobody may be told; the hooks stay where they were, so from here on only registration
  \* steps are judged (the harness ends the history after the next one)
  IF c.m.t = "boxint" /\ c.m.a[2] = 1
  THEN (IF HeapEq(Mutate(HS(c.pre), c.m), HS(c.post)) THEN {} ELSE {"C08-model-heap"})
       \cup (IF \A k \in 1..Len(c.calls) : c.calls[k] = <<>> THEN {} ELSE {"C08-quiet-assignment-notified"}) ELSE
  IF "afterquiet" \in DOMAIN c /\ c.afterquiet = 1 THEN RegClauses(c) ELSE
  IF c.m.t \notin {"observe", "unobserve"} /\ Inapplicable(c) THEN {} ELSE
  LET loop == c.m.t \in {"child", "kidsassign", "kids", "dassign", "d", "sassign", "s", "dlassign", "dl", "dlin", "del", "boxassign", "box"} /\ OnCycle(HS(c.pre), c.m.x)
      base == (IF c.m.t \in {"observe", "unobserve"} THEN RegClauses(c) ELSE MutClauses(c))
              \cup ProbeClauses(c)
              \cup (IF c.regs2 = <<>> /\ c.dropped = 0 /\ c.census2 # c.census0 THEN {"C09-notifiers-not-back-to-baseline"} ELSE {})
              \* the catalogue of Observe.tla is what the real parser makes of the expression text
              \cup (IF c.m.t = "observe" /\ SetOf(c.paths) # Paths(c.m.e) THEN {"C08-expression-meaning"} ELSE {})
  IN IF base # {} /\ loop THEN {"F8"} ELSE base
Judge == i <= 0 \/ LET f == Clauses(Trace[i]) IN IF f = {} THEN TRUE ELSE PrintT(<<"REJECT", i, f>>)
AllJudged == TLCGet("distinct") = N + NB + 1
=============================================================================
