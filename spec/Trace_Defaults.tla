---------------------------- MODULE Trace_Defaults ----------------------------
EXTENDS Defaults, Json, IOUtils
Trace == ndJsonDeserialize(IOEnv.TRACE_FILE)
N == Len(Trace)
VARIABLE i
NB == 64
BSize == (N + NB - 1) \div NB
Init == i = 0
Next == \/ i = 0 /\ i' \in {-b : b \in 1..NB}
        \/ i < 0 /\ i' \in (((-i) - 1) * BSize + 1)..(IF (-i) * BSize < N THEN (-i) * BSize ELSE N)
Spec == Init /\ [][Next]_i
\* a recorded view: [vals : record attr -> slot, runs, calls, extra]; regs is the driver's bookkeeping
ViewOf(st) == [vals |-> st.vals, runs |-> st.runs, calls |-> st.calls, extra |-> st.extra]
SameView(v, st) == /\ \A a \in Attrs : v.vals[a] = st.vals[a]
                   /\ \A a \in Dynamic : v.runs[a] = st.runs[a]
                   /\ v.calls = st.calls /\ v.extra = st.extra /\ v.w = st.w
Clauses(c) ==
  LET k == c.actor
      pre == [vals |-> c.pre[k].vals, runs |-> c.pre[k].runs, calls |-> c.pre[k].calls, extra |-> c.pre[k].extra, regs |-> c.regs,
              w |-> c.pre[k].w, wobs |-> c.wobs]
      r == IF c.op \in {"create", "touch_undeclared"} THEN [st |-> pre, ret |-> "ok"] ELSE Apply(c.op, pre, c.a, c.v, c.sub[k] = 1)
      others == {j \in 1..Len(c.pre) : j # k}
      \* Named deviation (known finding C10/F12, second symptom): the name under the wildcard was resolved - and cached in
      \* the class - by another instance's use; the observers this instance registered while the name was unknown wait for
      \* a trait_added that never comes: they (c.waiting of them) miss the instance's own change
      kf == c.kf12w = 1 /\ SameView(c.post[k], [r.st EXCEPT !.calls = @ - (IF pre.w.v # c.v THEN c.waiting ELSE 0)])
  IN (IF SameView(c.post[k], r.st) THEN {} ELSE IF kf THEN {"KF12"} ELSE {"C10-actor-view"})
     \cup (IF c.op = "read" /\ c.ret # r.ret THEN {"C10-default-value"} ELSE {})
     \cup (IF c.op = "read" /\ c.post[k].calls # c.pre[k].calls THEN {"C10-default-read-notified"} ELSE {})
     \cup (IF \E j \in others : c.post[j] # c.pre[j] THEN {"C10-other-instance-changed"} ELSE {})
     \cup (IF c.op = "create" /\ ~SameView(c.post[k], NewInst) THEN {"C10-new-instance-not-pristine"} ELSE {})
     \cup (IF c.shared # 0 THEN {"C10-mutable-default-shared-between-instances"} ELSE {})
     \cup (IF c.classeq = 0 THEN {"C10-class-changed"} ELSE {})
Judge == i <= 0 \/ LET f == Clauses(Trace[i]) IN IF f = {} THEN TRUE ELSE PrintT(<<"REJECT", i, f>>)
AllJudged == TLCGet("distinct") = N + NB + 1
=============================================================================
