--------------------------- MODULE Trace_TraitList ---------------------------
(* Mode B judge: every recorded execution (pre, op, args, post, exc, ret, events) of the real    *)
(* TraitList is a state; TLC evaluates the specification's outcome and the event law on it.      *)
(* Verdicts are total: a rejected case prints <<"REJECT", i, failing clauses>> and TLC goes on.  *)
EXTENDS TraitList, Json, IOUtils
Trace == ndJsonDeserialize(IOEnv.TRACE_FILE)
N == Len(Trace)
\* i = 0: root; i < 0: block -i of records (fan-out so that all TLC workers judge in parallel); i > 0: record i
VARIABLE i
NB == 64
BSize == (N + NB - 1) \div NB
Init == i = 0
Next == \/ i = 0 /\ i' \in {-b : b \in 1..NB}
        \/ i < 0 /\ i' \in (((-i) - 1) * BSize + 1)..(IF (-i) * BSize < N THEN (-i) * BSize ELSE N)
Spec == Init /\ [][Next]_i

Clauses(c) ==
  LET r == Apply(c.op, c.pre, c.vm, c.a, c.xs) IN
     (IF c.exc \in r.excs THEN {} ELSE {"exception"})
     \cup (IF c.post = r.post THEN {} ELSE {"contents"})
     \cup (IF c.ret = r.ret THEN {} ELSE {"return"})
     \cup (IF "suite" \in DOMAIN c \/ c.builtin = r.post THEN {} ELSE {"spec-vs-builtin-list"})   \* (test-suite records carry no builtin twin)
     \cup (IF (IF c.op \in {"construct", "copy"} THEN c.evs = <<>>     \* not mutations: silent
                ELSE EventsOK(c.pre, c.evs, c.post)) THEN {} ELSE {"event-law"})
Judge == i <= 0 \/ LET f == Clauses(Trace[i]) IN IF f = {} THEN TRUE ELSE PrintT(<<"REJECT", i, f>>)
AllJudged == TLCGet("distinct") = N + NB + 1
=============================================================================
