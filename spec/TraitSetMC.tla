------------------------------ MODULE TraitSetMC ------------------------------
EXTENDS TraitSet
VARIABLES s, vm, last
vars == <<s, vm, last>>
InitItems == {1, 2, 3}
ArgItems  == {1, 2, 4, 11, 99}
ItemArgs  == {1, 4, 11, 99}
Init == s \in SUBSET InitItems /\ vm \in {"id", "coerce"} /\ last = [op |-> "init"]
Do(op, a, As, got) ==
  LET r == Apply(op, s, vm, a, As, got) IN
  /\ s' = r.post
  /\ last' = [op |-> op, a |-> a, args |-> As, vm |-> vm, pre |-> s, post |-> r.post, ret |-> r.ret,
              excs |-> r.excs, kf15 |-> (IsXor(op) /\ KF15Guard(s, vm, As[1]))]
  /\ UNCHANGED vm
One(op)  == \E x \in ItemArgs \cup {2, Unhashable} : Do(op, <<x, 0>>, <<>>, None)
\* argument sets: every subset of the item pool, and the malformed operands (alone, after a removable / a new item)
BadArgs == {{NotIterable}, {Unhashable}, {1, Unhashable}, {4, Unhashable}, {RaisingIter}, {1, RaisingIter}, {4, 99, RaisingIter}}
ArgSets == (SUBSET ArgItems) \cup BadArgs
Pop      == IF s = {} THEN Do("pop", <<0, 0>>, <<>>, None) ELSE \E g \in s : Do("pop", <<0, 0>>, <<>>, g)
Clear    == Do("clear", <<0, 0>>, <<>>, None)
Multi(op) == \/ Do(op, <<0, 0>>, <<>>, None)
             \/ \E A \in ArgSets : Do(op, <<0, 0>>, <<A>>, None)
             \/ \E A \in ArgSets, B \in ArgSets : Do(op, <<0, 0>>, <<A, B>>, None)
Single(op) == \E A \in ArgSets, form \in {0, 1, 2} :
                 /\ (form < 2 \/ op \in InplaceOps)
                 /\ (A \in BadArgs => op \notin InplaceOps /\ form = 1)       \* a set operand cannot be malformed
                 /\ Do(op, <<form, 0>>, <<A>>, None)
Construct == s = {} /\ \E A \in SUBSET ArgItems : Do("construct", <<0, 0>>, <<A>>, None)
CopyAdd  == \E k \in 0..6, x \in {3, 11, 99} : Do("copyadd", <<k, x>>, <<>>, None)
Next == last.op = "init" /\
        (One("add") \/ One("discard") \/ One("remove") \/ Pop \/ Clear
         \/ Multi("update") \/ Multi("difference_update") \/ Multi("intersection_update")
         \/ Single("ior") \/ Single("iand") \/ Single("isub") \/ Single("ixor")
         \/ Single("symmetric_difference_update") \/ Construct \/ CopyAdd)
Spec == Init /\ [][Next]_vars
IsCase == last.op # "init"
FailureAtomic == IsCase /\ last.excs # {""} => last.post = last.pre
OnlyValidated == vm = "coerce" => s \subseteq Valid
\* the canonical delta satisfies the law (satisfiable, and unique: TLC checks uniqueness below)
Canon(pre, post) == [removed |-> pre \ post, added |-> post \ pre]
LawSatisfiable == IsCase /\ last.pre # last.post => EventsOK(last.pre, <<Canon(last.pre, last.post)>>, last.post)
LawUnique == IsCase /\ last.pre # last.post =>
   \A R \in SUBSET (last.pre \cup last.post), A \in SUBSET (last.pre \cup last.post) :
      EventOK(last.pre, [removed |-> R, added |-> A], last.post) => (R = last.pre \ last.post /\ A = last.post \ last.pre)
=============================================================================
