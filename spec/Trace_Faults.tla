----------------------------- MODULE Trace_Faults -----------------------------
EXTENDS Faults, Json, IOUtils
Trace == ndJsonDeserialize(IOEnv.TRACE_FILE)
N == Len(Trace)
VARIABLE i
NB == 64
BSize == (N + NB - 1) \div NB
Init == i = 0
Next == \/ i = 0 /\ i' \in {-b : b \in 1..NB}
        \/ i < 0 /\ i' \in (((-i) - 1) * BSize + 1)..(IF (-i) * BSize < N THEN (-i) * BSize ELSE N)
Spec == Init /\ [][Next]_i
SetOf(q) == {q[k] : k \in 1..Len(q)}
StEq(a, b) == a.v = b.v /\ a.vq = b.vq /\ a.dflt = b.dflt /\ a.p = b.p /\ a.lst = b.lst /\ a.sset = b.sset /\ a.sup = b.sup
              /\ a.dct = b.dct /\ a.ea = b.ea /\ a.dr = b.dr /\ a.start = b.start /\ a.sva = b.sva /\ a.svb = b.svb
Clauses(c) ==
  LET r == Apply(c.op, c.pre, c.a, c.xs, c.f)
      expexc == IF r.exc = "fault" THEN {c.f.exc, "TraitError"} ELSE {r.exc}
  IN (IF StEq(c.post, r.st) THEN {} ELSE
        IF r.exc # "" THEN {"C19-failed-operation-had-an-effect"} ELSE {"C19-state"})
     \cup (IF c.exc \in expexc THEN {} ELSE IF r.exc = "" THEN {"C19-exception-escaped"} ELSE {"C19-exception-class"})
     \* change handlers: all of them are called for a change, whichever of them raises; none for a failed operation
     \cup (IF SetOf(c.called) = r.hs THEN {} ELSE
             IF r.exc # "" THEN {"C19-notified-although-operation-failed"} ELSE {"C19-other-handlers-did-not-run"})
     \* the cached property over v is never stale, also right after a getter that failed during a notification
     \cup (IF c.cp = -1 \/ c.cp = c.post.v * 10 THEN {} ELSE {"C19-cached-property-stale-after-fault"})     \* -1: not probed
     \cup (IF c.probe_notifies = 1 THEN {} ELSE {"C19-notifications-left-disabled"})
Judge == i <= 0 \/ LET f == Clauses(Trace[i]) IN IF f = {} THEN TRUE ELSE PrintT(<<"REJECT", i, f>>)
AllJudged == TLCGet("distinct") = N + NB + 1
=============================================================================
