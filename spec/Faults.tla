-------------------------------- MODULE Faults --------------------------------
(***************************************************************************)
(* A failing user callback never leaves an object half-updated (property   *)
(* C19).  Every operation takes a FAULT parameter [site, occ, exc]: the    *)
(* occ-th invocation of callback site `site` during this operation raises  *)
(* `exc`.  DECIDING sites (custom validator, default method, property      *)
(* getter / setter, container item validator at its occ-th item, adapter   *)
(* factory): the operation has no effect and the exception reaches the     *)
(* caller (unchanged or as TraitError).  CHANGE HANDLER sites: the          *)
(* operation is complete and every other handler still runs.               *)
(* Histories continue after a fault: later steps are judged from the       *)
(* state the specification says the faulted step left.                     *)
(***************************************************************************)
EXTENDS Integers, Sequences, FiniteSets, TLC
Bad == 99
NoFault == [site |-> "none", occ |-> 0, exc |-> ""]
Deciding == {"validator", "dflt", "getter", "setter", "item", "kitem", "vitem", "factory", "cpgetter_read", "drdflt", "pvalidator"}
HandlerSites == {"hstatic", "hdyn", "hobs"}
InsSorted(q, v) == IF \E k \in 1..Len(q) : q[k] = v THEN q
                   ELSE SelectSeq(q, LAMBDA x : x < v) \o <<v>> \o SelectSeq(q, LAMBDA x : x > v)
RECURSIVE InsAll(_, _)
InsAll(q, xs) == IF xs = <<>> THEN q ELSE InsAll(InsSorted(q, Head(xs)), Tail(xs))
DelAll(q, xs) == SelectSeq(q, LAMBDA x : \A k \in 1..Len(xs) : xs[k] # x)
SymDiff(q, xs) == InsAll(DelAll(q, xs), SelectSeq(xs, LAMBDA x : \A k \in 1..Len(q) : q[k] # x))

\* Dict(K, V) operations: the pairs are validated in order, key then value, before anything is stored.  ks: the keys, a: the
\* value given to each of them.  What stops the scan first decides the outcome: the occ-th key validation failing (kitem),
\* a refused key, the occ-th value validation failing (vitem), a refused value
RECURSIVE DScan(_, _, _, _)
DScan(ks, i, a, f) ==
  IF i > Len(ks) THEN ""
  ELSE IF f.site = "kitem" /\ f.occ = i THEN "fault"
  ELSE IF ks[i] = Bad THEN "TraitError"
  ELSE IF f.site = "vitem" /\ f.occ = i THEN "fault"
  ELSE IF a = Bad THEN "TraitError"
  ELSE DScan(ks, i + 1, a, f)
PutSorted(d, k, v) == LET rest == SelectSeq(d, LAMBDA p : p[1] # k) IN
                      SelectSeq(rest, LAMBDA p : p[1] < k) \o <<<<k, v>>>> \o SelectSeq(rest, LAMBDA p : p[1] > k)
RECURSIVE PutAllSorted(_, _, _)
PutAllSorted(d, ks, v) == IF ks = <<>> THEN d ELSE PutAllSorted(PutSorted(d, Head(ks), v), Tail(ks), v)
\* st = [v, vq, dflt ("unset" as -1), p, lst, sset, sup (0 none | chain length), ea (likewise, for the compound trait),
\*       dr (-1: no value cached), start (-1: default not yet computed), sva, svb (the two synchronised attributes)]
\* result: [st, exc ("" | "fault" = the injected class or TraitError | "TraitError"), handlers : set of handler sites called]
Res(st, exc, hs) == [st |-> st, exc |-> exc, hs |-> hs]
Hit(f, site, n) == f.site = site /\ f.occ >= 1 /\ f.occ <= n          \* the faulty invocation happens (site is invoked n times)
Apply(op, st, a, xs, f) ==
  CASE op = "set_v" ->                 \* custom validator, then (on change) the three handlers
         IF Hit(f, "validator", 1) THEN Res(st, "fault", {})
         ELSE IF a = Bad THEN Res(st, "TraitError", {})
         ELSE IF st.v = a THEN Res(st, "", {})
         ELSE Res([st EXCEPT !.v = a], "", HandlerSites \ {})         \* a raising handler is still "called"; the others too
    [] op = "setq_v" ->                \* trait_setq(vq = a): quiet assignment (of an attribute nothing depends on);
                                       \* notifications are enabled again afterwards, whatever happened
         IF Hit(f, "validator", 1) THEN Res(st, "fault", {})
         ELSE IF a = Bad THEN Res(st, "TraitError", {})
         ELSE Res([st EXCEPT !.vq = a], "", {})
    [] op = "read_dflt" -> IF st.dflt # -1 THEN Res(st, "", {})
                           ELSE IF Hit(f, "dflt", 1) THEN Res(st, "fault", {}) ELSE Res([st EXCEPT !.dflt = 7], "", {})
    [] op = "read_p" -> IF Hit(f, "getter", 1) THEN Res(st, "fault", {}) ELSE Res(st, "", {})
    [] op = "set_p" -> IF Hit(f, "setter", 1) THEN Res(st, "fault", {})
                       ELSE IF a = Bad THEN Res(st, "TraitError", {}) ELSE Res([st EXCEPT !.p = a], "", {})
    \* the cached getter only runs when nothing is cached (st.cached: observed, not specified - it is an input here)
    [] op = "read_cp" -> IF st.cached = 0 /\ Hit(f, "cpgetter_read", 1) THEN Res(st, "fault", {}) ELSE Res(st, "", {})
    [] op = "lst_extend" ->            \* the item validator runs once per item, in order, before anything is stored
         IF Hit(f, "item", Len(xs)) THEN Res(st, "fault", {})
         ELSE IF \E k \in 1..Len(xs) : xs[k] = Bad THEN Res(st, "TraitError", {})
         ELSE Res([st EXCEPT !.lst = @ \o xs], "", {})
    [] op = "sset_update" ->
         IF Hit(f, "item", Len(xs)) THEN Res(st, "fault", {})
         ELSE IF \E k \in 1..Len(xs) : xs[k] = Bad THEN Res(st, "TraitError", {})
         ELSE Res([st EXCEPT !.sset = InsAll(@, xs)], "", {})
    [] op = "sset_symdiff" ->          \* only the items not yet in the set are validated
         LET new == SelectSeq(xs, LAMBDA x : \A k \in 1..Len(st.sset) : st.sset[k] # x) IN
         IF Hit(f, "item", Len(new)) THEN Res(st, "fault", {})
         ELSE IF \E k \in 1..Len(new) : new[k] = Bad THEN Res(st, "TraitError", {})
         ELSE Res([st EXCEPT !.sset = SymDiff(@, xs)], "", {})
    [] op \in {"dct_update", "dct_ior", "dct_setitem"} ->      \* d.update({k: a for k in xs}) / d |= {...} / d[xs[1]] = a
         LET ks == IF op = "dct_setitem" THEN <<xs[1]>> ELSE xs
             w  == DScan(ks, 1, a, f)
         IN IF w # "" THEN Res(st, w, {}) ELSE Res([st EXCEPT !.dct = PutAllSorted(@, ks, a)], "", {})
    [] op = "sup_assign" ->            \* Supports(Target): a chain of a adapter factories (a = 0: provides already)
         IF Hit(f, "factory", a) THEN Res(st, "fault", {}) ELSE Res([st EXCEPT !.sup = a], "", {})
    \* ea = Either(Instance(Target, adapt="yes"), Instance(Plain)): a = 0 a Target, a = 1 an object that is a Plain AND adapts
    \* to Target through one factory: a failing factory is a failing assignment, not "no match, try the next alternative"
    [] op = "ea_assign" ->
         IF Hit(f, "factory", a) THEN Res(st, "fault", {}) ELSE Res([st EXCEPT !.ea = a], "", {})
    \* dr = Range(low="lo", high="hi", value="start"): the old value of a never-set dynamic range is the value of `start`,
    \* whose _start_default method (site drdflt) runs at its first use - before anything is stored
    [] op = "set_dr" ->
         IF a = Bad THEN Res(st, "TraitError", {})
         ELSE IF st.dr = -1 /\ st.start = -1 /\ Hit(f, "drdflt", 1) THEN Res(st, "fault", {})
         ELSE Res([st EXCEPT !.dr = a, !.start = IF st.dr = -1 THEN 3 ELSE @], "", {})
    [] op = "read_dr" ->
         IF st.dr # -1 THEN Res(st, "", {})
         ELSE IF st.start = -1 /\ Hit(f, "drdflt", 1) THEN Res(st, "fault", {})
         ELSE Res([st EXCEPT !.dr = 3, !.start = 3], "", {})
    \* sva / svb: obj.sync_trait("sv", partner, mutual=True); the partner's attribute has a custom validator (site pvalidator).
    \* sync_a: obj.sv = a.  The partner is updated by a change handler: if its validator refuses, the operation on obj is
    \* complete, the partner keeps its value, nothing escapes - and the pair goes on synchronising.
    [] op = "sync_a" ->
         IF st.sva = a THEN Res(st, "", {})
         ELSE IF Hit(f, "pvalidator", 1) THEN Res([st EXCEPT !.sva = a], "", {})
         ELSE Res([st EXCEPT !.sva = a, !.svb = a], "", {})
    \* sync_b: partner.sv = a: here the validator decides
    [] op = "sync_b" ->
         IF Hit(f, "pvalidator", 1) THEN Res(st, "fault", {})
         ELSE IF st.svb = a THEN Res(st, "", {})
         ELSE Res([st EXCEPT !.svb = a, !.sva = a], "", {})
IsHandlerFault(f) == f.site \in HandlerSites
=============================================================================
