-------------------------------- MODULE Faults --------------------------------
(***************************************************************************)
(* A failing user callback never leaves an object half-updated (property   *)
(* C19).  Every operation takes a FAULT parameter [site, occ, exc]: the    *)
(* occ-th invocation of callback site `site` during this operation raises  *)
(* `exc`.  DECIDING sites (custom validator, default method, property      *)
(* getter / setter, container item validator at its occ-th item, adapter   *)
(* factory): the operation has no effect and the exception reaches the     *)
(* caller (unchanged or as TraitError).  CHANGE HANDLER sites: the          *)
(* operation is complete and every other handler still runs.               *)
(* Histories continue after a fault: later steps are judged from the       *)
(* state the specification says the faulted step left.                     *)
(***************************************************************************)
EXTENDS Integers, Sequences, FiniteSets, TLC
Bad == 99
NoFault == [site |-> "none", occ |-> 0, exc |-> ""]
Deciding == {"validator", "dflt", "getter", "setter", "item", "factory", "cpgetter_read"}
HandlerSites == {"hstatic", "hdyn", "hobs"}
InsSorted(q, v) == IF \E k \in 1..Len(q) : q[k] = v THEN q
                   ELSE SelectSeq(q, LAMBDA x : x < v) \o <<v>> \o SelectSeq(q, LAMBDA x : x > v)
RECURSIVE InsAll(_, _)
InsAll(q, xs) == IF xs = <<>> THEN q ELSE InsAll(InsSorted(q, Head(xs)), Tail(xs))
DelAll(q, xs) == SelectSeq(q, LAMBDA x : \A k \in 1..Len(xs) : xs[k] # x)
SymDiff(q, xs) == InsAll(DelAll(q, xs), SelectSeq(xs, LAMBDA x : \A k \in 1..Len(q) : q[k] # x))

\* st = [v, vq, dflt ("unset" as -1), p, lst, sset, sup (0 none | chain length)]
\* result: [st, exc ("" | "fault" = the injected class or TraitError | "TraitError"), handlers : set of handler sites called]
Res(st, exc, hs) == [st |-> st, exc |-> exc, hs |-> hs]
Hit(f, site, n) == f.site = site /\ f.occ >= 1 /\ f.occ <= n          \* the faulty invocation happens (site is invoked n times)
Apply(op, st, a, xs, f) ==
  CASE op = "set_v" ->                 \* custom validator, then (on change) the three handlers
         IF Hit(f, "validator", 1) THEN Res(st, "fault", {})
         ELSE IF a = Bad THEN Res(st, "TraitError", {})
         ELSE IF st.v = a THEN Res(st, "", {})
         ELSE Res([st EXCEPT !.v = a], "", HandlerSites \ {})         \* a raising handler is still "called"; the others too
    [] op = "setq_v" ->                \* trait_setq(vq = a): quiet assignment (of an attribute nothing depends on);
                                       \* notifications are enabled again afterwards, whatever happened
         IF Hit(f, "validator", 1) THEN Res(st, "fault", {})
         ELSE IF a = Bad THEN Res(st, "TraitError", {})
         ELSE Res([st EXCEPT !.vq = a], "", {})
    [] op = "read_dflt" -> IF st.dflt # -1 THEN Res(st, "", {})
                           ELSE IF Hit(f, "dflt", 1) THEN Res(st, "fault", {}) ELSE Res([st EXCEPT !.dflt = 7], "", {})
    [] op = "read_p" -> IF Hit(f, "getter", 1) THEN Res(st, "fault", {}) ELSE Res(st, "", {})
    [] op = "set_p" -> IF Hit(f, "setter", 1) THEN Res(st, "fault", {})
                       ELSE IF a = Bad THEN Res(st, "TraitError", {}) ELSE Res([st EXCEPT !.p = a], "", {})
    \* the cached getter only runs when nothing is cached (st.cached: observed, not specified - it is an input here)
    [] op = "read_cp" -> IF st.cached = 0 /\ Hit(f, "cpgetter_read", 1) THEN Res(st, "fault", {}) ELSE Res(st, "", {})
    [] op = "lst_extend" ->            \* the item validator runs once per item, in order, before anything is stored
         IF Hit(f, "item", Len(xs)) THEN Res(st, "fault", {})
         ELSE IF \E k \in 1..Len(xs) : xs[k] = Bad THEN Res(st, "TraitError", {})
         ELSE Res([st EXCEPT !.lst = @ \o xs], "", {})
    [] op = "sset_update" ->
         IF Hit(f, "item", Len(xs)) THEN Res(st, "fault", {})
         ELSE IF \E k \in 1..Len(xs) : xs[k] = Bad THEN Res(st, "TraitError", {})
         ELSE Res([st EXCEPT !.sset = InsAll(@, xs)], "", {})
    [] op = "sset_symdiff" ->          \* only the items not yet in the set are validated
         LET new == SelectSeq(xs, LAMBDA x : \A k \in 1..Len(st.sset) : st.sset[k] # x) IN
         IF Hit(f, "item", Len(new)) THEN Res(st, "fault", {})
         ELSE IF \E k \in 1..Len(new) : new[k] = Bad THEN Res(st, "TraitError", {})
         ELSE Res([st EXCEPT !.sset = SymDiff(@, xs)], "", {})
    [] op = "sup_assign" ->            \* Supports(Target): a chain of a adapter factories (a = 0: provides already)
         IF Hit(f, "factory", a) THEN Res(st, "fault", {}) ELSE Res([st EXCEPT !.sup = a], "", {})
IsHandlerFault(f) == f.site \in HandlerSites
=============================================================================
