------------------------------ MODULE Adaptation ------------------------------
(***************************************************************************)
(* traits.adaptation (property C17).                                       *)
(*  - declarative: the set of successful adapter chains and its minimum    *)
(*  - algorithmic: AdaptationManager._adapt (priority queue keyed          *)
(*    (adapters, mro distance, counter), _get_applicable_offers,           *)
(*    mro_distance_to_protocol, edge sort with specificity tie-break)      *)
(* TLC checks the algorithm against the declarative definition for every   *)
(* configuration; the judge (Trace_Adaptation) checks recorded adapt()     *)
(* calls of the real AdaptationManager against the declarative definition. *)
(***************************************************************************)
EXTENDS Integers, Sequences, FiniteSets, TLC

\* ---- a fixed family of types: two single-inheritance chains, a multiple-inheritance class, an
\* unrelated class V registered as a virtual subclass of the ABC I (I is not in V's MRO)
\* W0 / W1: one and the same class W before / after a LATE registration I.register(W)
\* A3 / A4: a deeper chain (only in the random larger configurations): offers for several strict ancestors of the adaptee
AllTypes == {"A0", "A1", "A2", "A3", "A4", "B0", "B1", "D", "V", "I", "W0", "W1"}
Mro(t) == CASE t = "A0" -> <<"A0">>
            [] t = "A1" -> <<"A1", "A0">>
            [] t = "A2" -> <<"A2", "A1", "A0">>
            [] t = "A3" -> <<"A3", "A2", "A1", "A0">>
            [] t = "A4" -> <<"A4", "A3", "A2", "A1", "A0">>
            [] t = "B0" -> <<"B0">>
            [] t = "B1" -> <<"B1", "B0">>
            [] t = "D"  -> <<"D", "A1", "A0", "B0">>          \* class D(A1, B0)
            [] t = "V"  -> <<"V">>
            [] t = "I"  -> <<"I">>
            [] t = "W0" -> <<"W0">>
            [] t = "W1" -> <<"W1">>
VirtualSub == {<<"V", "I">>, <<"W1", "I">>, <<"A3", "I">>}          \* (I.register(A3): the deep chain provides I from A3 down)                    \* I.register(V); later I.register(W)
SeqToSet(s) == {s[i] : i \in 1..Len(s)}
Provides(t, p) == \/ p \in SeqToSet(Mro(t))                    \* issubclass(t, p)
                  \/ \E u \in SeqToSet(Mro(t)) : <<u, p>> \in VirtualSub
\* mro_distance_to_protocol: number of leading supertypes in mro[1:] that still provide p
RECURSIVE CountPrefix(_, _, _)
CountPrefix(s, i, p) == IF i > Len(s) \/ ~Provides(s[i], p) THEN 0 ELSE 1 + CountPrefix(s, i + 1, p)
MroDist(t, p) == CountPrefix(Mro(t), 2, p)

\* ---- offers.  ok: "always" | "never" | "first" (factory succeeds only on the original object,
\* i.e. as first adapter of a chain) | "later" (only when applied to another adapter) | "deep" (only
\* as third or later adapter: conditional factories whose success depends on what was adapted before)
Succeeds(o, pos) == o.ok = "always" \/ (o.ok = "first" /\ pos = 1) \/ (o.ok = "later" /\ pos > 1)
                    \/ (o.ok = "deep" /\ pos > 2)
ChainOKFor(offers, path) == \A k \in 1..Len(path) : Succeeds(offers[path[k]], k)

\* ---- declarative: all successful chains of distinct applicable offers from src to a provider of tgt
RECURSIVE ChainsFrom(_, _, _, _, _, _)
ChainsFrom(offers, tgt, cur, used, pos, n) ==
  IF n = 0 THEN {} ELSE
  UNION {IF ~Succeeds(offers[i], pos) THEN {}
         ELSE IF Provides(offers[i].to, tgt) THEN {<<i>>}
         ELSE {<<i>> \o c : c \in ChainsFrom(offers, tgt, offers[i].to, used \cup {i}, pos + 1, n - 1)}
        : i \in {j \in DOMAIN offers : Provides(cur, offers[j].from) /\ j \notin used}}
AllChainsFor(offers, src, tgt) == ChainsFrom(offers, tgt, src, {}, 1, Len(offers))
MinLenOf(chains) == IF chains = {} THEN 0
                    ELSE CHOOSE n \in 1..64 : (\E c \in chains : Len(c) = n) /\ \A c \in chains : Len(c) >= n
\* a chain is well-formed for the configuration (applicability, distinctness, success, ends in a provider)
RECURSIVE Applicable(_, _, _, _)
Applicable(offers, cur, path, k) ==
  k > Len(path) \/ (Provides(cur, offers[path[k]].from) /\ Applicable(offers, offers[path[k]].to, path, k + 1))
ValidChain(offers, src, tgt, path) ==
  /\ path # <<>> /\ \A k \in 1..Len(path) : path[k] \in DOMAIN offers
  /\ \A a, b \in 1..Len(path) : a # b => path[a] # path[b]
  /\ Applicable(offers, src, path, 1)
  /\ ChainOKFor(offers, path)
  /\ Provides(offers[path[Len(path)]].to, tgt)
\* among single-step choices an offer for a more specific type is preferred
SpecificFirstFor(offers, src, tgt, path) ==
  Len(path) = 1 =>
     \A j \in DOMAIN offers :
        (Succeeds(offers[j], 1) /\ Provides(src, offers[j].from) /\ Provides(offers[j].to, tgt))
        => ~(offers[j].from # offers[path[1]].from /\ Provides(offers[j].from, offers[path[1]].from)
             /\ MroDist(src, offers[j].from) <= MroDist(src, offers[path[1]].from))
=============================================================================
