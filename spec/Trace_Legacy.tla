------------------------------ MODULE Trace_Legacy ------------------------------
(* C16: legacy on_trait_change extended names and observe, both judged against the declarative Observe.tla *)
EXTENDS Observe, Json, IOUtils
Trace == ndJsonDeserialize(IOEnv.TRACE_FILE)
N == Len(Trace)
VARIABLE i
NB == 64
BSize == (N + NB - 1) \div NB
Init == i = 0
Next == \/ i = 0 /\ i' \in {-b : b \in 1..NB}
        \/ i < 0 /\ i' \in (((-i) - 1) * BSize + 1)..(IF (-i) * BSize < N THEN (-i) * BSize ELSE N)
Spec == Init /\ [][Next]_i
SetOf(q) == {q[k] : k \in 1..Len(q)}
\* the statement is about graphs in which every object is referenced from at most one place
Refs(h, y) == Cardinality({x \in Obj : h.child[x] = y}) + Cardinality({<<x, k>> \in Obj \X (1..8) : k <= Len(h.kids[x]) /\ h.kids[x][k] = y})
              + Cardinality({<<x, k>> \in Obj \X (1..4) : k <= Len(h.d[x]) /\ h.d[x][k][2] = y})
Unshared(h) == \A y \in Obj : Refs(h, y) <= 1
Clauses(c) ==
  IF ~Unshared(c.pre) \/ ~Unshared(c.post) THEN {"harness-heap-not-a-forest"} ELSE
  LET hp == c.post
      exp(r, x) == IF <<"trait", x, "value">> \in Notifying(hp, r.e) THEN 1 ELSE 0
      badL == {r \in SetOf(c.regs2) : \E x \in Obj : c.lprobe[r.h][x] # exp(r, x)}
      badO == {r \in SetOf(c.regs2) : \E x \in Obj : c.oprobe[r.h][x] # exp(r, x)}
      gone == {k \in 1..Len(c.lprobe) : (~\E r \in SetOf(c.regs2) : r.h = k) /\ \E x \in Obj : c.lprobe[k][x] # 0}
      ismut == c.m.t \notin {"observe", "unobserve"}
      \* a change of an intermediate link: reported to the legacy handler for '.' links, not for ':' links
      \* (assignment of the link: exactly as stated; an IN-PLACE mutation of a container link is reported by
      \* the legacy system only for some handler signatures / nesting levels - documented under "Dynamic Handler
      \* Special Cases" - so for '.' links it may or may not be reported, for ':' links it must not be)
      \* c.veq = 1: the objects of this pool all compare EQUAL (value-based __eq__): to a trait compared by equality a
      \* list / dict of other objects of the same shape is no change to report - the new objects are still the ones reachable
      chg == IF c.veq = 1 /\ c.m.t = "kidsassign" THEN Len(c.pre.kids[c.m.x]) # Len(c.m.xs)
             ELSE IF c.veq = 1 /\ c.m.t = "dassign" THEN DKeys(c.pre.d[c.m.x]) # DKeys(Mutate(c.pre, c.m).d[c.m.x])
             ELSE IsChange(c.pre, c.m)
      linkbad == {r \in SetOf(c.regs) : ismut /\ c.m.t # "value" /\ chg /\
                     IF c.m.t \in {"kids", "d"} THEN c.lcalls[r.h] > 0 /\ ~Called(c.pre, r.e, c.m)
                     \* handlers taking one or two arguments (new) / (name, new) are told about the DESTINATION: name / new are those of the
                     \* final attribute as reached through the new link - with nothing to report when the new link leads nowhere
                     \* (None assigned over None to a link compared with mode "none": left open for these signatures)
                     ELSE IF r.sig \in {1, 2} /\ c.m.t = "child" /\ c.pre.child[c.m.x] = NoneO /\ c.m.a[1] = NoneO THEN FALSE
                     ELSE (c.lcalls[r.h] > 0) # (Called(c.pre, r.e, c.m)
                                                 /\ (r.sig \notin {1, 2} \/ \E x \in Obj : <<"trait", x, "value">> \in Notifying(hp, r.e)))}
      valbad == {r \in SetOf(c.regs) : ismut /\ c.m.t = "value" /\ c.lcalls[r.h] # (IF Called(c.pre, r.e, c.m) THEN 1 ELSE 0)}
      stray == {k \in 1..Len(c.lcalls) : ismut /\ (~\E r \in SetOf(c.regs) : r.h = k) /\ c.lcalls[k] # 0}
  IN (IF ismut /\ ~(\A x \in Obj : hp.child[x] = Mutate(c.pre, c.m).child[x] /\ hp.kids[x] = Mutate(c.pre, c.m).kids[x])
      THEN {"C16-model-heap"} ELSE {})
     \cup (IF badL = {} THEN {} ELSE {"C16-legacy-final-attribute-reachability"})
     \cup (IF badO = {} THEN {} ELSE {"C16-observe-final-attribute-reachability"})
     \cup (IF gone = {} /\ stray = {} THEN {} ELSE {"C16-legacy-called-after-removal"})
     \cup (IF linkbad = {} THEN {} ELSE {"C16-legacy-intermediate-link-report"})
     \cup (IF valbad = {} THEN {} ELSE {"C16-legacy-final-attribute-call-count"})
     \cup (IF c.m.t \in {"observe", "unobserve"} /\ c.exc # "" THEN {"C16-registration-raised"} ELSE {})
Judge == i <= 0 \/ LET f == Clauses(Trace[i]) IN IF f = {} THEN TRUE ELSE PrintT(<<"REJECT", i, f>>)
AllJudged == TLCGet("distinct") = N + NB + 1
=============================================================================
