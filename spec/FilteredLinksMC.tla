--------------------------- MODULE FilteredLinksMC ---------------------------
EXTENDS FilteredLinks
CONSTANT MaxDepth
VARIABLES st, last, depth
vars == <<st, last, depth>>
Init == st = St0 /\ last = [op |-> "init"] /\ depth = 0
Do(op, k, c) == LET r == Apply(st, op, k, c) IN r.exc # "skip" /\ st' = r.st /\ depth' = depth + 1
                                                /\ last' = [op |-> op, k |-> k, c |-> c, pre |-> st, exc |-> r.exc, calls |-> r.calls]
Next == depth < MaxDepth /\ (\/ (st.reg < 2 /\ Do("observe", 1, 0)) \/ Do("unobserve", 1, 0) \/ Do("add3", 3, 0)
                             \/ \E k \in 1..3, c \in Children \cup {0} : Do("assign", k, c)
                             \/ \E c \in Children : Do("change", 1, c))
Spec == Init /\ [][Next]_vars
\* exactly once iff currently reachable - independent of the history
OnceIffReachable == last.op = "change" => last.calls = (IF last.pre.reg > 0 /\ \E k \in Links(last.pre) : last.pre.t[k] = last.c THEN 1 ELSE 0)
\* detached objects are silent
DetachedSilent == \A c \in Children : c \notin Held(st) => Probe(st)[c] = 0
=============================================================================
