---------------------------- MODULE CTraitUpdate ----------------------------
(***************************************************************************)
(* Replacing the default of a trait definition while user code can run     *)
(* (property C18).  CTrait.set_default_value(kind, value) writes two       *)
(* fields - default_value_type and default_value - and then releases the   *)
(* old value.  Releasing may run arbitrary Python code (a finaliser, a     *)
(* weak-reference callback) that reads the default of the very trait:      *)
(* default_value_for interprets `value` ACCORDING TO `kind`, for the kind   *)
(* callable_and_args by indexing it as a 3-tuple without a check.          *)
(* The discipline (as in ctraits.c): both fields are written BEFORE the    *)
(* old value is released.  KindFirst = FALSE is the ordering in which the  *)
(* kind is written after the release: TLC then produces the unsafe         *)
(* programs.  Every (old kind, new kind) state is executed on the real     *)
(* extension (forked children; ASan+UBSan build) with a finaliser that     *)
(* reads the default.                                                      *)
(***************************************************************************)
EXTENDS Integers, FiniteSets, TLC
CONSTANT KindFirst,
         UntrackFirst     \* trait_dealloc takes the dying definition off the collector's lists BEFORE it releases its fields
Kinds == {"constant", "callable_and_args", "list_copy", "callable"}
ShapeOf(k) == CASE k = "constant" -> "any" [] k = "callable_and_args" -> "tuple3" [] k = "list_copy" -> "list" [] k = "callable" -> "callable"
\* the two fields as a reader sees them while the old value is being released
AtRelease(oldk, newk) == [kind |-> IF KindFirst THEN newk ELSE oldk, value |-> ShapeOf(newk)]
\* interpreting a value of shape vs under kind k: every kind but callable_and_args checks what it is given (a Python
\* exception at worst); callable_and_args reads three tuple slots unchecked
MemorySafe(k, vs) == k # "callable_and_args" \/ vs = "tuple3"
\* what a reader obtains from a consistent pair (the programs' values: 5 / a factory giving 1 / a list / a callable giving 1)
ReadType(k) == IF k = "list_copy" THEN "list" ELSE IF k = "dealloc" THEN "collected" ELSE "int"
\* DEALLOCATION.  The definition itself dies (reference count 0) and releases its fields one by one; releasing the default may
\* run a finaliser, and the finaliser may run a garbage collection.  A collector that still has the dying object on its
\* lists takes it for unreachable garbage and clears - frees - it a second time.  newk = "dealloc" stands for these programs.
TrackedAtRelease == ~UntrackFirst
DeallocSafe == ~TrackedAtRelease
VARIABLES oldk, newk
vars == <<oldk, newk>>
Init == oldk \in Kinds /\ newk \in Kinds \cup {"dealloc"}
Next == UNCHANGED vars
Spec == Init /\ [][Next]_vars
\* the reader sees a consistent pair
Consistent == newk # "dealloc" => AtRelease(oldk, newk).kind = newk
Safe == IF newk = "dealloc" THEN DeallocSafe ELSE MemorySafe(AtRelease(oldk, newk).kind, AtRelease(oldk, newk).value)
=============================================================================
