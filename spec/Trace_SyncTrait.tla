--------------------------- MODULE Trace_SyncTrait ---------------------------
EXTENDS SyncTrait, Json, IOUtils
Trace == ndJsonDeserialize(IOEnv.TRACE_FILE)
N == Len(Trace)
VARIABLE i
NB == 64
BSize == (N + NB - 1) \div NB
Init == i = 0
Next == \/ i = 0 /\ i' \in {-b : b \in 1..NB}
        \/ i < 0 /\ i' \in (((-i) - 1) * BSize + 1)..(IF (-i) * BSize < N THEN (-i) * BSize ELSE N)
Spec == Init /\ [][Next]_i
SetOf(q) == {q[k] : k \in 1..Len(q)}
Scalars == {"A.x", "B.x", "C.y", "B.r"}
Lists == {"A.l", "B.l", "C.m"}
AccOf(c, v) == c # "B.r" \/ (v >= 0 /\ v <= 10)                   \* B.r = Range(0, 10)
\* the link table is PROJECTED from the real objects (their __sync_trait__ dictionaries) before and after every step;
\* the specification computes what it must be afterwards, and that is what propagation is judged against
RL(q) == {<<e[1], e[2]>> : e \in SetOf(q)}
ExpLinks(c) ==
  LET pre == RL(c.rl_pre) IN
  CASE c.op = "link"    -> LinkAdd(pre, c.s, c.t, c.mutual = 1)
    [] c.op = "unlink"  -> LinkRemove(pre, c.s, c.t, c.mutual = 1)
    [] c.op = "collect" -> {e \in pre : e[1] \notin SetOf(c.dead) /\ e[2] \notin SetOf(c.dead)}
    [] OTHER            -> pre
Links(c) == ExpLinks(c)
Live(c) == {x \in Scalars \cup Lists : x \notin SetOf(c.dead)}
Clauses(c) ==
  \* unbounded ping-pong between partners shows as lists that blew up (the driver keeps them below 10 items)
  IF \E d \in Lists : Len(c.post[d]) > 24 \/ Len(c.pre[d]) > 24 THEN {"C20-runaway-propagation"} ELSE
  LET links == {e \in Links(c) : e[1] \in Live(c) /\ e[2] \in Live(c)}
      live  == Live(c)
      kind  == IF c.c \in Scalars THEN Scalars \cap live ELSE Lists \cap live
      other == live \ kind
      frame == \A d \in other : c.post[d] = c.pre[d]
  IN (IF c.exc = "" \/ c.expect_exc = 1 THEN {} ELSE {"C20-raised"})
     \cup (IF RL(c.rl_post) = ExpLinks(c) THEN {} ELSE {"C20-link-table"})
     \cup (IF frame THEN {} ELSE {"C20-unrelated-attribute-changed"})
     \cup (IF \E d \in live : c.calls[d] > 1 THEN {"C20-handler-called-more-than-once"} ELSE {})
     \cup
     (CASE c.op = "assign" ->
            LET v == c.v
                ok == [d \in kind |-> c.c \in Lists \/ AccOf(d, v)]
                \* the value travels on only through cells it actually changes (an equal value runs no handler)
                pass == [d \in kind |-> ok[d] /\ (d = c.c \/ c.pre[d] # v)]
                reach == ReachFrom(links, pass, {c.c}, 8)
                changed == c.pre[c.c] # v
            IN IF ~ok[c.c] THEN (IF \A d \in kind : c.post[d] = c.pre[d] THEN {} ELSE {"C20-rejected-assignment-had-effect"})
               ELSE (IF \A d \in kind : c.post[d] = (IF d \in reach /\ changed THEN v ELSE c.pre[d])
                     THEN {} ELSE {"C20-not-converged"})
                    \cup (IF changed /\ \E d \in reach : c.calls[d] # (IF c.pre[d] # v THEN 1 ELSE 0)
                          THEN {"C20-handler-not-called-once-per-real-change"} ELSE {})
        [] c.op = "listop" ->
            LET r == L!Apply(c.m.op, c.pre[c.c], "id", c.m.a, c.m.xs)
                ok == [d \in kind |-> TRUE]
                reach == ReachFrom(links, ok, {c.c}, 8)
            IN (IF c.post[c.c] = r.post THEN {} ELSE {"C20-model-list"})
               \* partners that were equal before are equal afterwards; independent lists only must not be disturbed
               \cup (IF \A d \in reach : c.pre[d] = c.pre[c.c] => c.post[d] = c.post[c.c] THEN {} ELSE {"C20-lists-diverged"})
               \cup (IF \A d \in kind \ reach : c.post[d] = c.pre[d] THEN {} ELSE {"C20-propagated-without-link"})
        [] c.op = "link" ->
            LET push == Push(RL(c.rl_pre), c.s, c.t, c.mutual = 1) IN
            IF push = <<>> THEN (IF \A d \in live : c.post[d] = c.pre[d] THEN {} ELSE {"C20-relink-changed-values"})
            ELSE
            LET from == push[1]  to == push[2]
                v == c.pre[from]                        \* the source's value is pushed to the new partner
                ok == [d \in kind |-> (from \in Lists \/ AccOf(d, v)) /\ (d = to \/ c.pre[d] # v)]
                \* the reverse half of a mutual link is installed only AFTER the partner received the value, so the push
                \* does not travel back through it
                reach == ReachFrom(links \ {<<to, from>>}, ok, {to}, 8)
                changed == c.pre[to] # v
            IN IF \A d \in kind : c.post[d] = (IF d \in reach /\ changed /\ ok[to] THEN v ELSE c.pre[d])
               THEN {} ELSE {"C20-link-did-not-synchronise"}
        [] c.op \in {"unlink", "collect"} ->
            IF \A d \in live : c.post[d] = c.pre[d] THEN {} ELSE {"C20-unlink-changed-values"})
Judge == i <= 0 \/ LET f == Clauses(Trace[i]) IN IF f = {} THEN TRUE ELSE PrintT(<<"REJECT", i, f>>)
AllJudged == TLCGet("distinct") = N + NB + 1
=============================================================================
