--------------------------- MODULE Trace_Adaptation ---------------------------
(* Judge for recorded adapt() / Supports / AdaptsTo executions of the real AdaptationManager *)
EXTENDS Adaptation, Json, IOUtils
Trace == ndJsonDeserialize(IOEnv.TRACE_FILE)
N == Len(Trace)
VARIABLE i
NB == 64
BSize == (N + NB - 1) \div NB
Init == i = 0
Next == \/ i = 0 /\ i' \in {-b : b \in 1..NB}
        \/ i < 0 /\ i' \in (((-i) - 1) * BSize + 1)..(IF (-i) * BSize < N THEN (-i) * BSize ELSE N)
Spec == Init /\ [][Next]_i
\* c.result: "self" (the object itself), "adapter" (c.chain = offers applied, in order), "none" (AdaptationError /
\* default / TraitError / supports_protocol False), "adaptable" (AdaptsTo accepted the object as is)
Clauses(c) ==
  LET chains == AllChainsFor(c.offers, c.src, c.tgt)
      prov   == Provides(c.src, c.tgt)
  IN IF prov THEN (IF c.result \in {"self", "adaptable"} THEN {} ELSE {"provider-not-returned-as-is"})
     ELSE IF chains = {} THEN (IF c.result = "none" THEN {} ELSE {"adapter-although-no-chain"})
     ELSE IF c.result = "adaptable" THEN {}
     ELSE IF c.result # "adapter" THEN {"no-adapter-although-chain-exists"}
     ELSE (IF ValidChain(c.offers, c.src, c.tgt, c.chain) THEN {} ELSE {"not-a-valid-chain"})
          \cup (IF Len(c.chain) = MinLenOf(chains) THEN {} ELSE {"not-shortest"})
          \cup (IF SpecificFirstFor(c.offers, c.src, c.tgt, c.chain) THEN {} ELSE {"less-specific-offer-preferred"})
          \cup (IF c.isinst = 1 THEN {} ELSE {"result-does-not-provide-protocol"})
Judge == i <= 0 \/ LET f == Clauses(Trace[i]) IN IF f = {} THEN TRUE ELSE PrintT(<<"REJECT", i, f>>)
AllJudged == TLCGet("distinct") = N + NB + 1
=============================================================================
