------------------------------- MODULE TraitSet -------------------------------
(***************************************************************************)
(* Python set semantics + item validation + the event law of property C07. *)
(***************************************************************************)
EXTENDS Integers, Sequences, FiniteSets, TLC

None == 1000
Valid     == (1..9) \cup (20..98)    \* ordinary items (the model checker uses 1..4; recorded test-suite traces up to 88)
Coercible == 11..19
Invalid   == {99}
VModes    == {"id", "coerce", "strict"}
\* "id": no validation; "coerce": casts Coercible items; "strict": only Valid items
Accepts(vm, x) == vm = "id" \/ x \in Valid \/ (vm = "coerce" /\ x \in Coercible)
V(vm, x)       == IF vm = "coerce" /\ x \in Coercible THEN x - 10 ELSE x
AllOK(vm, A)   == \A x \in A : Accepts(vm, x)
VSet(vm, A)    == {V(vm, x) : x \in A}

Ok(post, ret) == [post |-> post, ret |-> ret, excs |-> {""}]
Fail(pre, ex) == [post |-> pre, ret |-> None, excs |-> ex]

OpAdd(s, vm, x)  == IF Accepts(vm, x) THEN Ok(s \cup {V(vm, x)}, None) ELSE Fail(s, {"TraitError"})
OpDiscard(s, x)  == Ok(s \ {x}, None)                                   \* argument not validated
OpRemove(s, x)   == IF x \in s THEN Ok(s \ {x}, None) ELSE Fail(s, {"KeyError"})
\* pop() removes an arbitrary member: the judge supplies the returned member
OpPop(s, got)    == IF s = {} THEN Fail(s, {"KeyError"})
                    ELSE IF got \in s THEN Ok(s \ {got}, got) ELSE [post |-> s, ret |-> None, excs |-> {"pop-returned-non-member"}]
OpClear(s)       == Ok({}, None)
OpUpdate(s, vm, As) ==       \* update(*iterables), |= set
  LET U == UNION {As[i] : i \in 1..Len(As)} IN
  IF AllOK(vm, U) THEN Ok(s \cup VSet(vm, U), None) ELSE Fail(s, {"TraitError"})
OpIntersect(s, As) == Ok({x \in s : \A i \in 1..Len(As) : x \in As[i]}, None)     \* not validated
OpDifference(s, As) == Ok({x \in s : \A i \in 1..Len(As) : x \notin As[i]}, None)  \* not validated
\* symmetric difference with the validated argument
OpSymDiff(s, vm, A) ==
  IF AllOK(vm, A) THEN LET W == VSet(vm, A) IN Ok((s \ W) \cup (W \ s), None) ELSE Fail(s, {"TraitError"})
\* Named deviation (known finding C07/F15): membership is tested on the RAW items; an argument item
\* that is absent raw but whose validated form is present is kept instead of removed (pinned by the
\* repository's test_ixor_validator_args_with_added).
KF15Guard(s, vm, A) == AllOK(vm, A) /\ \E x \in A : x \notin s /\ V(vm, x) \in s /\ V(vm, x) \notin A
OpSymDiff_KF15(s, vm, A) == LET rem == s \cap A IN Ok((s \ rem) \cup (VSet(vm, A \ rem) \ s), None)

\* op on a copy: copy/deepcopy/pickle yields an equal set that still validates: adding x to the
\* copy behaves like adding x to the original would
\* a[1] for the in-place operators: 0 set, 1 frozenset, 2 a list (not a set: Python raises TypeError)
InplaceOps == {"ior", "iand", "isub", "ixor"}
Apply(op, s, vm, a, As, got) ==
  IF op \in InplaceOps /\ a[1] = 2 THEN Fail(s, {"TypeError"}) ELSE
  CASE op = "add"       -> OpAdd(s, vm, a[1])
    [] op = "discard"   -> OpDiscard(s, a[1])
    [] op = "remove"    -> OpRemove(s, a[1])
    [] op = "pop"       -> OpPop(s, got)
    [] op = "clear"     -> OpClear(s)
    [] op = "update"    -> OpUpdate(s, vm, As)
    [] op = "ior"       -> OpUpdate(s, vm, As)
    [] op = "iand"      -> OpIntersect(s, As)
    [] op = "isub"      -> OpDifference(s, As)
    [] op = "ixor"      -> OpSymDiff(s, vm, As[1])
    [] op = "difference_update"   -> OpDifference(s, As)
    [] op = "intersection_update" -> OpIntersect(s, As)
    [] op = "symmetric_difference_update" -> OpSymDiff(s, vm, As[1])
    [] op = "construct" -> IF AllOK(vm, As[1]) THEN Ok(VSet(vm, As[1]), None) ELSE Fail({}, {"TraitError"})
    [] op = "copyadd"   -> OpAdd(s, vm, a[2])            \* a[1]: copy kind, a[2]: probe item added to the copy
IsXor(op) == op \in {"ixor", "symmetric_difference_update"}

\* ---- event law: ev = [removed, added] (sets)
EventOK(pre, ev, post) ==
  /\ ev.removed \subseteq pre
  /\ ev.added \cap pre = {}
  /\ (pre \ ev.removed) \cup ev.added = post
EventsOK(pre, evs, post) ==
  /\ pre = post => evs = <<>>                        \* operations that change nothing are silent
  /\ pre # post => Len(evs) = 1 /\ EventOK(pre, evs[1], post)
=============================================================================
