------------------------------- MODULE TraitSet -------------------------------
(***************************************************************************)
(* Python set semantics + item validation + the event law of property C07. *)
(***************************************************************************)
EXTENDS Integers, Sequences, FiniteSets, TLC

None == 1000
Valid     == (1..9) \cup (20..98)    \* ordinary items (the model checker uses 1..4; recorded test-suite traces up to 88)
Coercible == 11..19
Invalid   == {99}
VModes    == {"id", "coerce", "strict"}
\* "id": no validation; "coerce": casts Coercible items; "strict": only Valid items
Accepts(vm, x) == vm = "id" \/ x \in Valid \/ (vm = "coerce" /\ x \in Coercible)
V(vm, x)       == IF vm = "coerce" /\ x \in Coercible THEN x - 10 ELSE x
AllOK(vm, A)   == \A x \in A : Accepts(vm, x)
VSet(vm, A)    == {V(vm, x) : x \in A}

\* malformed operands, as item codes inside an argument set: the operand is not iterable at all (the int 5); an iterable
\* whose last item is unhashable ([..., [1]]); an iterator that raises ZeroDivisionError after yielding the other items
NotIterable == -1   Unhashable == -2   RaisingIter == -3
BadItems == {NotIterable, Unhashable, RaisingIter}
Clean(A) == A \ BadItems
CleanAll(As) == [i \in 1..Len(As) |-> Clean(As[i])]
ArgExcs(As) == (IF \E i \in 1..Len(As) : As[i] \cap {NotIterable, Unhashable} # {} THEN {"TypeError"} ELSE {})
               \cup (IF \E i \in 1..Len(As) : RaisingIter \in As[i] THEN {"ZeroDivisionError"} ELSE {})

Ok(post, ret) == [post |-> post, ret |-> ret, excs |-> {""}]
Fail(pre, ex) == [post |-> pre, ret |-> None, excs |-> ex]

OpAdd(s, vm, x)  == IF Accepts(vm, x) THEN Ok(s \cup {V(vm, x)}, None) ELSE Fail(s, {"TraitError"})
OpDiscard(s, x)  == Ok(s \ {x}, None)                                   \* argument not validated
OpRemove(s, x)   == IF x \in s THEN Ok(s \ {x}, None) ELSE Fail(s, {"KeyError"})
\* pop() removes an arbitrary member: the judge supplies the returned member
OpPop(s, got)    == IF s = {} THEN Fail(s, {"KeyError"})
                    ELSE IF got \in s THEN Ok(s \ {got}, got) ELSE [post |-> s, ret |-> None, excs |-> {"pop-returned-non-member"}]
OpClear(s)       == Ok({}, None)
OpUpdate(s, vm, As) ==       \* update(*iterables), |= set
  LET U == UNION {As[i] : i \in 1..Len(As)} IN
  IF AllOK(vm, U) THEN Ok(s \cup VSet(vm, U), None) ELSE Fail(s, {"TraitError"})
OpIntersect(s, As) == Ok({x \in s : \A i \in 1..Len(As) : x \in As[i]}, None)     \* not validated
OpDifference(s, As) == Ok({x \in s : \A i \in 1..Len(As) : x \notin As[i]}, None)  \* not validated
\* symmetric difference with the validated argument
OpSymDiff(s, vm, A) ==
  IF AllOK(vm, A) THEN LET W == VSet(vm, A) IN Ok((s \ W) \cup (W \ s), None) ELSE Fail(s, {"TraitError"})
\* Named deviation (known finding C07/F15): membership is tested on the RAW items; an argument item
\* that is absent raw but whose validated form is present is kept instead of removed (pinned by the
\* repository's test_ixor_validator_args_with_added).
KF15Guard(s, vm, A) == AllOK(vm, A) /\ \E x \in A : x \notin s /\ V(vm, x) \in s /\ V(vm, x) \notin A
OpSymDiff_KF15(s, vm, A) == LET rem == s \cap A IN Ok((s \ rem) \cup (VSet(vm, A \ rem) \ s), None)

\* op on a copy: copy/deepcopy/pickle yields an equal set that still validates: adding x to the
\* copy behaves like adding x to the original would
\* a[1] for the in-place operators: 0 set, 1 frozenset, 2 a list (not a set: Python raises TypeError)
InplaceOps == {"ior", "iand", "isub", "ixor"}
\* set.intersection_update(*iterables) as CPython computes it: the iterables in order, each one consumed only until every
\* item of the current result has been met - a malformed tail behind the items is reached only otherwise
RECURSIVE InterFold(_, _, _)
InterFold(cur, As, i) ==
  IF i > Len(As) THEN [set |-> cur, excs |-> {}]
  ELSE LET A == As[i] IN
       IF A \cap BadItems = {} THEN InterFold(cur \cap A, As, i + 1)
       ELSE IF NotIterable \notin A /\ cur # {} /\ cur \subseteq Clean(A) THEN InterFold(cur, As, i + 1)
       ELSE [set |-> cur, excs |-> ArgExcs(<<A>>)]
Validating(op) == op \in {"update", "ior", "ixor", "symmetric_difference_update", "construct"}
\* copy kinds of "copyadd": 0 copy.copy, 1 deepcopy, 2 pickle of a TraitSet; 3 copy.copy, 4 deepcopy, 5 pickle of the
\* TraitSetObject held by a Set trait, 6: the very TraitSetObject after its owner was garbage-collected
\* Named deviation (known finding C07/F24): a TraitSetObject pickled on its own comes back without its trait
\* (__setstate__: trait = None) and accepts everything
KF24Guard(a) == a[1] = 5
Apply(op, s, vm, a, As, got) ==
  IF op \in InplaceOps /\ a[1] = 2 THEN Fail(s, {"TypeError"}) ELSE
  \* a malformed operand: the exception class of the builtin set (or the TraitError of an invalid item met before
  \* it), and nothing changes - also where the builtin set is left half-updated
  IF op = "intersection_update" /\ ArgExcs(As) # {} THEN
     LET f == InterFold(s, As, 1) IN IF f.excs # {} THEN Fail(s, f.excs) ELSE Ok(f.set, None)
  ELSE IF ArgExcs(As) # {} THEN
     \* (to a validator that is not the identity the unhashable item is an invalid item as well)
     Fail(s, ArgExcs(As) \cup (IF Validating(op) /\ (~AllOK(vm, UNION {Clean(As[i]) : i \in 1..Len(As)})
                                                      \/ (vm # "id" /\ \E i \in 1..Len(As) : Unhashable \in As[i]))
                               THEN {"TraitError"} ELSE {}))
  ELSE IF op \in {"add", "discard", "remove"} /\ a[1] = Unhashable THEN
     Fail(s, {"TypeError"} \cup (IF op = "add" /\ vm # "id" THEN {"TraitError"} ELSE {}))
  ELSE
  CASE op = "add"       -> OpAdd(s, vm, a[1])
    [] op = "discard"   -> OpDiscard(s, a[1])
    [] op = "remove"    -> OpRemove(s, a[1])
    [] op = "pop"       -> OpPop(s, got)
    [] op = "clear"     -> OpClear(s)
    [] op = "update"    -> OpUpdate(s, vm, As)
    [] op = "ior"       -> OpUpdate(s, vm, As)
    [] op = "iand"      -> OpIntersect(s, As)
    [] op = "isub"      -> OpDifference(s, As)
    [] op = "ixor"      -> OpSymDiff(s, vm, As[1])
    [] op = "difference_update"   -> OpDifference(s, As)
    [] op = "intersection_update" -> OpIntersect(s, As)
    [] op = "symmetric_difference_update" -> OpSymDiff(s, vm, As[1])
    [] op = "construct" -> IF AllOK(vm, As[1]) THEN Ok(VSet(vm, As[1]), None) ELSE Fail({}, {"TraitError"})
    [] op = "copyadd"   -> OpAdd(s, vm, a[2])            \* a[1]: copy kind, a[2]: probe item added to the copy
IsXor(op) == op \in {"ixor", "symmetric_difference_update"}

\* ---- event law: ev = [removed, added] (sets)
EventOK(pre, ev, post) ==
  /\ ev.removed \subseteq pre
  /\ ev.added \cap pre = {}
  /\ (pre \ ev.removed) \cup ev.added = post
EventsOK(pre, evs, post) ==
  /\ pre = post => evs = <<>>                        \* operations that change nothing are silent
  /\ pre # post => Len(evs) = 1 /\ EventOK(pre, evs[1], post)
=============================================================================
