----------------------------- MODULE MoreTypesMC -----------------------------
(* one state per (configuration, value, route): case record for the harness; C01 / C03 on the specification *)
EXTENDS MoreTypes
VARIABLES cfg, tok, route, last
vars == <<cfg, tok, route, last>>
B == BOOLEAN
Cfgs == {C(t, an, FALSE, FALSE, FALSE, TRUE) : t \in {"This", "self"}, an \in B}
        \cup {C("Module", FALSE, FALSE, FALSE, FALSE, TRUE)}
        \cup {C("Date", an, adt, FALSE, FALSE, FALSE) : an \in B, adt \in B}
        \cup {C(t, an, FALSE, FALSE, FALSE, FALSE) : t \in {"Datetime", "Time"}, an \in B}
        \cup {C("UUID", FALSE, FALSE, FALSE, ci, FALSE) : ci \in B}
        \cup {C(t, FALSE, FALSE, ex, FALSE, fast) : t \in {"File", "Directory"}, ex \in B, fast \in B}
        \cup {C("Expression", FALSE, FALSE, FALSE, FALSE, FALSE)}
Routes == {"setattr", "ctor", "trait_set"}
Init == /\ cfg \in Cfgs /\ tok \in Tokens /\ route \in Routes
        /\ last = [assign |-> Assign(cfg, tok, route), val |-> Validate(cfg, tok, TRUE)]
Next == UNCHANGED vars
Spec == Init /\ [][Next]_vars
C01_StoredInDomain == last.assign.tag = "store" => InDomain(cfg, last.assign.w)
C01_NoForeignException == last.assign.tag # "prop"
\* a value that already satisfies the declared criteria is accepted as it is (except where the trait is read-only)
C01_DomainValuesKept == (InDomain(cfg, tok) /\ cfg.t # "UUID") => last.assign = Store(tok)
\* read-only UUID: only a constructor keyword of a can_init trait ever stores
C01_UUIDReadOnly == (cfg.t = "UUID" /\ last.assign.tag = "store") => (cfg.ci /\ route = "ctor")
=============================================================================
