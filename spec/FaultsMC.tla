------------------------------- MODULE FaultsMC -------------------------------
(* The two laws of C19, decided by TLC for every operation x every fault site x occurrence over small states *)
EXTENDS Faults
VARIABLES st, op, a, xs, f
vars == <<st, op, a, xs, f>>
Ops == {"set_v", "setq_v", "read_dflt", "read_p", "set_p", "read_cp", "lst_extend", "sset_update", "sset_symdiff", "sup_assign"}
Sites == Deciding \cup HandlerSites \cup {"cpgetter_notify", "none"}
States == [v : {0, 1}, vq : {0}, dflt : {-1, 7}, p : {0}, lst : {<<>>, <<1>>}, sset : {<<>>, <<1, 2>>}, sup : {0, 1}, cached : {0, 1}]
Init == /\ st \in States /\ op \in Ops /\ a \in {0, 1, 2, Bad}
        /\ xs \in {<<>>, <<1>>, <<2, 3>>, <<1, Bad>>, <<3, 2, 1>>}
        /\ f \in [site : Sites, occ : 0..3, exc : {"ValueError"}]
        /\ (op = "sup_assign" => a \in 0..2)
Next == UNCHANGED vars
Spec == Init /\ [][Next]_vars
R == Apply(op, st, a, xs, f)
Ideal == Apply(op, st, a, xs, NoFault)
\* a fault that fires in a deciding callback: no effect at all, nobody notified, the exception reaches the caller
DecidingIsAtomic == R.exc = "fault" => R.st = st /\ R.hs = {} /\ f.site \in Deciding
\* any failing operation (fault or rejection) has no effect
FailureHasNoEffect == R.exc # "" => R.st = st /\ R.hs = {}
\* a fault in a change handler (or in a getter run by a notification) does not alter the outcome of the operation
HandlerFaultIsContained == f.site \in HandlerSites \cup {"cpgetter_notify"} => R = Ideal
\* a fault that never fires (occurrence beyond the invocations of the site) changes nothing
UnreachedFaultIsInert == R.exc # "fault" /\ f.site \in Deciding => (R = Ideal \/ R.exc = "TraitError")
=============================================================================
