------------------------------- MODULE FaultsMC -------------------------------
(* The two laws of C19, decided by TLC for every operation x every fault site x occurrence over small states *)
EXTENDS Faults
VARIABLES st, op, a, xs, f
vars == <<st, op, a, xs, f>>
Ops == {"set_v", "setq_v", "read_dflt", "read_p", "set_p", "read_cp", "lst_extend", "sset_update", "sset_symdiff", "sup_assign",
        "ea_assign", "set_dr", "read_dr", "sync_a", "sync_b", "dct_update", "dct_ior", "dct_setitem"}
Sites == Deciding \cup HandlerSites \cup {"cpgetter_notify", "none"}
\* every operation reads and writes only its own part of the state: the other part is held at its initial value
NewOps == {"ea_assign", "set_dr", "read_dr", "sync_a", "sync_b"}
OldPart == [v : {0, 1}, vq : {0}, dflt : {-1, 7}, p : {0}, lst : {<<>>, <<1>>}, sset : {<<>>, <<1, 2>>}, sup : {0, 1}, cached : {0, 1},
            dct : {<<>>, <<<<1, 1>>>>}]
NewPart == {n \in [ea : {0}, dr : {-1, 2}, start : {-1, 3}, sva : {0, 1}, svb : {0, 1}] : n.dr # -1 => n.start # -1}
Join(o, n) == [v |-> o.v, vq |-> o.vq, dflt |-> o.dflt, p |-> o.p, lst |-> o.lst, sset |-> o.sset, sup |-> o.sup, cached |-> o.cached, dct |-> o.dct,
               ea |-> n.ea, dr |-> n.dr, start |-> n.start, sva |-> n.sva, svb |-> n.svb]
Old0 == [v |-> 0, vq |-> 0, dflt |-> -1, p |-> 0, lst |-> <<>>, sset |-> <<>>, sup |-> 0, cached |-> 0, dct |-> <<>>]
New0 == [ea |-> 0, dr |-> -1, start |-> -1, sva |-> 0, svb |-> 0]
StatesFor(o) == IF o \in NewOps THEN {Join(Old0, n) : n \in NewPart} ELSE {Join(x, New0) : x \in OldPart}
Init == /\ op \in Ops /\ st \in StatesFor(op) /\ a \in {0, 1, 2, Bad}
        /\ xs \in {<<>>, <<1>>, <<2, 3>>, <<1, Bad>>, <<3, 2, 1>>}
        /\ f \in [site : Sites, occ : 0..3, exc : {"ValueError"}]
        /\ (op = "sup_assign" => a \in 0..2) /\ (op = "ea_assign" => a \in 0..1) /\ (op = "dct_setitem" => xs # <<>>)
Next == UNCHANGED vars
Spec == Init /\ [][Next]_vars
R == Apply(op, st, a, xs, f)
Ideal == Apply(op, st, a, xs, NoFault)
\* a fault that fires in a deciding callback: no effect at all, nobody notified, the exception reaches the caller
DecidingIsAtomic == R.exc = "fault" => R.st = st /\ R.hs = {} /\ f.site \in Deciding
\* any failing operation (fault or rejection) has no effect
FailureHasNoEffect == R.exc # "" => R.st = st /\ R.hs = {}
\* a fault in a change handler (or in a getter run by a notification) does not alter the outcome of the operation
HandlerFaultIsContained == f.site \in HandlerSites \cup {"cpgetter_notify"} => R = Ideal
\* a fault that never fires (occurrence beyond the invocations of the site) changes nothing
PartnerHit == op = "sync_a" /\ st.sva # a /\ Hit(f, "pvalidator", 1)
UnreachedFaultIsInert == R.exc # "fault" /\ f.site \in Deciding /\ ~PartnerHit => (R = Ideal \/ R.exc = "TraitError")
\* the partner of a synchronised pair refusing the propagated value: the operation on the object itself is complete,
\* the partner untouched, nothing escapes
PartnerFaultIsContained == PartnerHit => R.exc = "" /\ R.st.sva = Ideal.st.sva /\ R.st = [Ideal.st EXCEPT !.svb = st.svb]
=============================================================================
