------------------------ MODULE Trace_ContainerTraits ------------------------
EXTENDS ContainerTraits, Json, IOUtils
Trace == ndJsonDeserialize(IOEnv.TRACE_FILE)
N == Len(Trace)
VARIABLE i
NB == 64
BSize == (N + NB - 1) \div NB
Init == i = 0
Next == \/ i = 0 /\ i' \in {-b : b \in 1..NB}
        \/ i < 0 /\ i' \in (((-i) - 1) * BSize + 1)..(IF (-i) * BSize < N THEN (-i) * BSize ELSE N)
Spec == Init /\ [][Next]_i
SetOf(q) == {q[k] : k \in 1..Len(q)}
SetsOf(qs) == [k \in 1..Len(qs) |-> SetOf(qs[k])]
A3(a) == <<a[1], a[2], a[3]>>

\* the specification's outcome for the record
Result(c) ==
  LET g == c.cfg IN
  CASE c.kind = "list" ->
         IF c.op = "assign" THEN ListAssign(c.pre, g.vm, g.lo, g.hi, c.cs[1])
         ELSE IF c.op = "default" THEN ListDefault(c.pre, g.lo, g.hi)
         ELSE IF c.op = "reset" THEN ListReset(c.pre, g.lo, g.hi)
         ELSE ListOp(c.pre, g.vm, g.lo, g.hi, c.op, A3(c.a), c.xs)
    [] c.kind = "listlist" ->
         IF c.op = "assign" THEN NestAssign(c.pre, g.vm, g.ilo, g.ihi, g.lo, g.hi, c.cs[1])
         ELSE IF c.sub = "outer" THEN NestOuter(c.pre, g.vm, g.ilo, g.ihi, g.lo, g.hi, c.op, A3(c.a), c.cs)
         ELSE NestInner(c.pre, g.vm, g.ilo, g.ihi, c.a[4], c.op, A3(c.a), c.xs)
    [] c.kind = "dict" ->
         IF c.op = "assign" THEN DictAssign(c.pre, g.kvm, g.vvm, c.cs[1])
         ELSE DictOp(c.pre, g.kvm, g.vvm, c.op, A3(c.a), c.xs)
    [] c.kind = "set" ->
         IF c.op = "assign"
         THEN SetAssign(SetOf(c.pre), g.vm, [isset |-> c.cs[1].isset, items |-> SetOf(c.cs[1].items)])
         ELSE SetOp(SetOf(c.pre), g.vm, c.op, <<c.a[1], c.a[2]>>, SetsOf(c.cs), c.ret)
    [] c.kind = "dictlist" ->
         IF c.sub = "outer"
         THEN (IF c.op = "setitem" THEN DLSetItem(c.pre, g.kvm, g.vm, g.ilo, g.ihi, c.a[1], c.cs[1])
               ELSE DLDelItem(c.pre, c.a[1]))
         ELSE DLInner(c.pre, g.vm, g.ilo, g.ihi, c.a[4], c.op, A3(c.a), c.xs)

Same(c, a, b) ==      \* contents comparison per kind
  CASE c.kind \in {"dict", "dictlist"} -> D!WellFormed(a) /\ D!DictEq(a, b)
    [] c.kind = "set" -> SetOf(a) = b
    [] OTHER -> a = b
PostInv(c) ==         \* C04 itself, evaluated on the observed post-state
  LET g == c.cfg IN
  CASE c.kind = "list" -> ListInv(c.post, g.vm, g.lo, g.hi)
    [] c.kind = "listlist" -> NestInv(c.post, g.vm, g.ilo, g.ihi, g.lo, g.hi)
    [] c.kind = "dict" -> DictInv(c.post, g.kvm, g.vvm)
    [] c.kind = "set" -> SetInv(SetOf(c.post))
    [] c.kind = "dictlist" -> DLInv(c.post, g.kvm, g.vm, g.ilo, g.ihi)

Outcome(c, r) ==
     (IF c.exc \in r.excs THEN {} ELSE {"exception"})
     \cup (IF Same(c, c.post, r.post) THEN {} ELSE {"contents"})
     \cup (IF c.kind = "listlist" /\ c.sub = "outer" THEN {} ELSE IF c.ret = r.ret THEN {} ELSE {"return"})
Clauses(c) ==
  LET r   == Result(c)
      g   == c.cfg
      kf14 == c.kind = "dict" /\ c.op = "setdefault" /\ D!KF14Guard(c.pre, g.kvm, g.vvm, c.a[1], c.a[2])
      kf15 == c.kind = "set" /\ S!IsXor(c.op) /\ S!KF15Guard(SetOf(c.pre), g.vm, SetOf(c.cs[1]))
      o1  == Outcome(c, r)
      o2  == IF kf14 THEN Outcome(c, D!OpSetDefault_KF14(c.pre, g.kvm, g.vvm, c.a[1], c.a[2]))
             ELSE IF kf15 THEN Outcome(c, S!OpSymDiff_KF15(SetOf(c.pre), g.vm, SetOf(c.cs[1])))
             ELSE o1
      failed == c.exc # ""
     \* C04 says nothing about refinement of dict/set: the two named deviations of C06/C07 (raw-key
     \* containment in setdefault / symmetric difference) are alternative lawful outcomes here
  IN (IF o1 = {} \/ ((kf14 \/ kf15) /\ o2 = {}) THEN {} ELSE o1)
     \cup (IF PostInv(c) THEN {} ELSE {"C04-invariant"})
     \* Transfer (ContainerTraits.tla): the object under test received its value by assignment, constructor keyword, deep
     \* copy, clone_traits, copy_traits, pickling or from another object's attribute of the same trait - same value
     \cup (IF (IF c.kind = "set" THEN SetOf(c.viapre) = SetOf(c.pre) ELSE Same(c, c.viapre, c.pre)) THEN {} ELSE {"transfer-changed-value"})
     \cup (IF failed /\ (c.nitems # 0 \/ c.nchange # 0) THEN {"notified-on-failure"} ELSE {})
     \cup (IF failed /\ ~Same(c, c.post, IF c.kind = "set" THEN SetOf(c.pre) ELSE c.pre) THEN {"changed-on-failure"} ELSE {})
     \cup (IF ~failed /\ c.op = "assign" /\ c.nitems # 0 THEN {"items-event-on-assign"} ELSE {})
     \cup (IF ~failed /\ c.kind = "list" /\ c.op \notin {"assign", "default", "reset"} /\ ~L!EventsOK(c.pre, c.evs, c.post)
           THEN {"list-event-law"} ELSE {})
     \cup (IF ~failed /\ c.kind \in {"dict", "set"} /\ c.op # "assign" /\ c.nitems > 1 THEN {"several-events"} ELSE {})
Judge == i <= 0 \/ LET f == Clauses(Trace[i]) IN IF f = {} THEN TRUE ELSE PrintT(<<"REJECT", i, f>>)
AllJudged == TLCGet("distinct") = N + NB + 1
=============================================================================
