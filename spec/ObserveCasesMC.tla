--------------------------- MODULE ObserveCasesMC ---------------------------
(* Mode A for C08: every (observed container with duplicates, one mutating operation) case over objects  *)
(* 2 and 3.  The harness establishes the container on the root, registers the items expressions, applies *)
(* the operation, probes, then clears the container and probes again (stale hooks surface there).        *)
EXTENDS Observe
CONSTANTS NegI, HiI       \* integer index range -NegI..HiI of the list operations
LoI == -NegI
VARIABLES kind, pre, m
vars == <<kind, pre, m>>
None == 1000
Items == {2, 3}
SeqsUpTo(S, n) == UNION {[1..k -> S] : k \in 0..n}
Idx == (LoI..HiI) \cup {None}
Mk(t, op, a, xs, ps) == [t |-> t, op |-> op, x |-> 1, a |-> a, xs |-> xs, ps |-> ps]
ListOps ==
       {Mk("kids", "setitem", <<i, 0, 0>>, <<y>>, <<>>) : i \in LoI..HiI, y \in Items}
  \cup {Mk("kids", "setslice", <<st, sp, stp>>, ys, <<>>) : st \in Idx, sp \in Idx, stp \in {None, 2, -1}, ys \in SeqsUpTo(Items, 2)}
  \cup {Mk("kids", "delitem", <<i, 0, 0>>, <<>>, <<>>) : i \in LoI..HiI}
  \cup {Mk("kids", "delslice", <<st, sp, stp>>, <<>>, <<>>) : st \in Idx, sp \in Idx, stp \in {None, 2, -1}}
  \cup {Mk("kids", op, <<0, 0, 0>>, <<y>>, <<>>) : op \in {"append", "remove"}, y \in Items}
  \cup {Mk("kids", "extend", <<0, 0, 0>>, ys, <<>>) : ys \in SeqsUpTo(Items, 2)}
  \cup {Mk("kids", "insert", <<i, 0, 0>>, <<y>>, <<>>) : i \in LoI..HiI, y \in Items}
  \cup {Mk("kids", "pop", <<i, 0, 0>>, <<>>, <<>>) : i \in Idx}
  \cup {Mk("kids", op, <<0, 0, 0>>, <<>>, <<>>) : op \in {"reverse", "clear"}}
  \cup {Mk("kids", "imul", <<k, 0, 0>>, <<>>, <<>>) : k \in 0..2}
  \cup {Mk("kidsassign", "", <<0, 0, 0>>, ys, <<>>) : ys \in SeqsUpTo(Items, 3)}
  \cup {Mk("del", "kids", <<0, 0, 0>>, <<>>, <<>>)}          \* (the harness then fills the NEW default container)
Keys == {1, 2, 11, 12}
PairLists == SeqsUpTo(Keys \X Items, 2)
Distinct(ps) == \A i, j \in 1..Len(ps) : i # j => D!V("coerce", ps[i][1]) # D!V("coerce", ps[j][1])
DictOps ==
       {Mk("d", "setitem", <<k, y, 0>>, <<>>, <<>>) : k \in Keys, y \in Items}
  \cup {Mk("d", "delitem", <<k, 0, 0>>, <<>>, <<>>) : k \in {1, 2}}
  \cup {Mk("d", op, <<0, 0, 0>>, <<>>, ps) : op \in {"update", "ior"}, ps \in {q \in PairLists : Distinct(q)}}
  \cup {Mk("d", "pop", <<k, 1, 0>>, <<>>, <<>>) : k \in {1, 2}}
  \cup {Mk("d", "clear", <<0, 0, 0>>, <<>>, <<>>)}
  \cup {Mk("dassign", "", <<0, 0, 0>>, <<>>, ps) : ps \in {q \in PairLists : Distinct(q)}}
  \cup {Mk("del", "d", <<0, 0, 0>>, <<>>, <<>>)}
\* sets: m.xs the argument set (as a sequence), a[1] the item of add / discard / remove
SubSeqs == {<<>>, <<2>>, <<3>>, <<2, 3>>}
SetOps ==
       {Mk("s", op, <<y, 0, 0>>, <<>>, <<>>) : op \in {"add", "discard", "remove"}, y \in Items}
  \cup {Mk("s", op, <<0, 0, 0>>, ys, <<>>) : op \in {"update", "ior", "iand", "isub", "ixor", "difference_update",
                                                       "intersection_update", "symmetric_difference_update"}, ys \in SubSeqs}
  \cup {Mk("s", "clear", <<0, 0, 0>>, <<>>, <<>>)}
  \cup {Mk("sassign", "", <<0, 0, 0>>, ys, <<>>) : ys \in SubSeqs}
  \cup {Mk("del", "s", <<0, 0, 0>>, <<>>, <<>>)}
\* the nested container: pre = the list stored under key 1 (and, when it has two items, its reverse under key 2)
DLOps ==
       {Mk("dl", "setitem", <<k, 0, 0, 0>>, ys, <<>>) : k \in {1, 2, 11}, ys \in SeqsUpTo(Items, 2)}
  \cup {Mk("dl", "delitem", <<k, 0, 0, 0>>, <<>>, <<>>) : k \in {1, 2}}
  \cup {Mk("dl", "clear", <<0, 0, 0, 0>>, <<>>, <<>>)}
  \cup {Mk("dlin", op, <<0, 0, 0, k>>, <<y>>, <<>>) : op \in {"append", "remove"}, k \in {1, 2}, y \in Items}
  \cup {Mk("dlin", "setitem", <<i, 0, 0, 1>>, <<y>>, <<>>) : i \in {0, -1}, y \in Items}
  \cup {Mk("dlin", "pop", <<None, 0, 0, k>>, <<>>, <<>>) : k \in {1, 2}}
  \cup {Mk("dlin", "clear", <<0, 0, 0, 1>>, <<>>, <<>>)}
  \cup {Mk("dlassign", "", <<0, 0, 0, 0>>, <<>>, <<<<1, ys>>>>) : ys \in SeqsUpTo(Items, 2)}
  \cup {Mk("del", "dl", <<0, 0, 0, 0>>, <<>>, <<>>)}
\* the dynamic trait: the root's child is pre[1]; m.xs: the order in which objects are given the trait (add_trait with
\* another object's instance trait as the definition)
DynOps == {Mk("addx", "", <<0, 0, 0>>, ys, <<>>) : ys \in {<<2>>, <<3>>, <<2, 3>>, <<3, 2>>, <<1, 2, 3>>}}
Init == \/ /\ kind = "set" /\ pre \in SubSeqs /\ m \in SetOps
        \/ /\ kind = "dl" /\ pre \in SeqsUpTo(Items, 2) /\ m \in DLOps
        \/ /\ kind = "dyn" /\ pre \in {<<2>>, <<3>>} /\ m \in DynOps
        \/ /\ kind = "list" /\ pre \in SeqsUpTo(Items, 3) /\ m \in ListOps
        \/ /\ kind = "dict" /\ pre \in {q \in SeqsUpTo({1, 2} \X Items, 2) : D!WellFormed(q)} /\ m \in DictOps
Next == UNCHANGED vars
Spec == Init /\ [][Next]_vars
=============================================================================
