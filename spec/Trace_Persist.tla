----------------------------- MODULE Trace_Persist -----------------------------
EXTENDS Persist, Json, IOUtils
Trace == ndJsonDeserialize(IOEnv.TRACE_FILE)
N == Len(Trace)
VARIABLE i
NB == 64
BSize == (N + NB - 1) \div NB
Init == i = 0
Next == \/ i = 0 /\ i' \in {-b : b \in 1..NB}
        \/ i < 0 /\ i' \in (((-i) - 1) * BSize + 1)..(IF (-i) * BSize < N THEN (-i) * BSize ELSE N)
Spec == Init /\ [][Next]_i
StEq(a, b) == a.n = b.n /\ a.xs = b.xs /\ a.nested = b.nested /\ a.dl = b.dl /\ a.s = b.s /\ a.child = b.child
              /\ a.tmp = b.tmp /\ a.ro = b.ro /\ a.kids = b.kids /\ a.hasx = b.hasx /\ a.xval = b.xval
              /\ a.pvset = b.pvset /\ a.pvval = b.pvval /\ a.wr = b.wr /\ a.bl = b.bl
Clauses(c) ==
  IF c.op = "copy"
  THEN (IF c.exc # "" THEN {"C14-copy-raised"} ELSE
        (IF StEq(c.post, CopiedAs(c.pre, c.kind, c.haspv)) THEN {} ELSE
           IF KF22Guard(c.pre) /\ StEq(c.post, Copied_KF22(c.pre, c.kind, c.haspv)) THEN {"KF22"} ELSE
           IF KF22Guard(c.pre) /\ c.kind = "clone_deep" /\ StEq(c.post, Copied_KF22_deep(c.pre, c.kind, c.haspv)) THEN {"KF22"} ELSE
           IF StEq([c.post EXCEPT !.tmp = 0], CopiedAs(c.pre, c.kind, c.haspv)) THEN {"C14-transient-not-at-default"} ELSE {"C14-copy-state-differs"})
        \cup (IF c.sameclass = 1 THEN {} ELSE {"C14-copy-of-other-class"})
        \cup (IF c.pvread = PvRead(c.post) THEN {} ELSE {"C14-deferred-attribute-read-on-copy"})
        \cup (IF c.shared = 0 THEN {} ELSE {"C14-copy-shares-mutable-container"})
        \cup (IF c.total = Sum(c.post.xs) THEN {} ELSE {"C14-property-stale-on-copy"})
        \cup (IF c.total2 = Sum(c.post.xs) THEN {} ELSE {"C14-depends_on-property-stale-on-copy"})
        \cup (IF StEq(c.orig_after, c.pre) THEN {} ELSE {"C14-copying-changed-the-original"}))
  ELSE LET r == Step(c.pre, c.op, c.v) IN
       (IF StEq(c.post, r.st) THEN {} ELSE {"C14-state"})
       \cup (IF (c.exc = r.exc) \/ (r.exc # "" /\ r.exc # "TraitError" /\ c.exc # "") THEN {} ELSE {"C14-outcome"})
       \cup (IF c.pvread = PvRead(c.post) THEN {} ELSE {"C14-deferred-attribute-read"})
       \* a change of the prototype's value notifies the handlers of the deferred attribute while it is linked, and not
       \* once it holds a value of its own - on originals and on copies alike
       \cup (IF c.haspv = 1 /\ c.op = "child_value" /\ c.exc = "" /\ c.pvn # (IF c.pre.pvset = 0 /\ c.pre.child.value # c.v THEN 1 ELSE 0)
             THEN {"C14-deferred-attribute-notification"} ELSE {})
       \cup (IF c.obs = r.obs THEN {} ELSE {"C14-declared-observer"})
       \cup (IF c.dyn = r.dyn THEN {} ELSE {"C14-items-handler"})
       \cup (IF c.pobs = r.pobs THEN {} ELSE {"C14-declared-post-init-observer"})
       \cup (IF c.total = Sum(c.post.xs) THEN {} ELSE {"C14-property-dependency"})
       \cup (IF c.total2 = Sum(c.post.xs) THEN {} ELSE {"C14-depends_on-property-dependency"})
Judge == i <= 0 \/ LET f == Clauses(Trace[i]) IN IF f = {} THEN TRUE ELSE PrintT(<<"REJECT", i, f>>)
AllJudged == TLCGet("distinct") = N + NB + 1
=============================================================================
