------------------------------ MODULE ObserveDSL ------------------------------
(***************************************************************************)
(* The observe mini-language (property C15): the grammar of                *)
(* _dsl_grammar.lark as sets of token strings with parse trees, built      *)
(* bottom-up by token length, the documented terminal-position rule for    *)
(* "*", and the denotation (set of observer paths with notify flags).      *)
(***************************************************************************)
EXTENDS Integers, Sequences, FiniteSets, TLC
CONSTANT L                       \* maximal number of tokens

Names == {"a", "b"}
Leaves == {"a", "b", "items", "+m"}
Conn == {".", ":"}
\* the deep configuration (cfg: Leaves <- LeavesDeep, Conn <- ConnDeep): only names and ".", twice as many tokens - long
\* enough for groups nested under a parent whose branches begin alike ("a.[b.a,b.b]")
LeavesDeep == {"a", "b"}
ConnDeep == {"."}
Tok == Leaves \cup {"*"} \cup Conn \cup {",", "[", "]"}

\* a member of a syntactic category: [s |-> token string, t |-> parse tree]
\* trees: <<"el", token>> | <<"ser", left, connector, right>> | <<"par", left, right>>   (brackets leave no node)
M(s, t) == [s |-> s, t |-> t]

Star == M(<<"*">>, <<"el", "*">>)
Bracket(p) == M(<<"[">> \o p.s \o <<"]">>, p.t)
Ser(s, c, e) == M(s.s \o <<c>> \o e.s, <<"ser", s.t, c, e.t>>)
Par(p, s) == M(p.s \o <<",">> \o s.s, <<"par", p.t, s.t>>)

\* The categories are tabulated by exact token length n = 1..L; level n only needs the lower levels
\* (tab[k], k < n) and, inside the level, the categories defined before it.  Categories:
\*   non-terminal position (grammar rules element / series / parallel):        elemNT serNT parNT
\*   terminal position, the grammar AS WRITTEN (series_terminal / parallel_terminal; "*" only as the
\*   last element of a top-level branch, never inside brackets):                 serTL parTL
\*   terminal position AS DOCUMENTED (user manual and the grammar file's own comment: "[a.*, b.c]" and
\*   "[a:*,b]" are valid; "*" wherever no connector follows directly or indirectly): elemTD serTD parTD
Level(n, tab) ==
  LET G(cat, k) == IF k < 1 THEN {} ELSE tab[k][cat]
      Splits == 1..(n - 2)
      elemNT == (IF n = 1 THEN {M(<<x>>, <<"el", x>>) : x \in Leaves} ELSE {})
                \cup {Bracket(p) : p \in G("parNT", n - 2)}
      serNT  == elemNT \cup UNION {{Ser(s, c, e) : s \in G("serNT", k), c \in Conn, e \in G("elemNT", n - k - 1)} : k \in Splits}
      parNT  == serNT \cup UNION {{Par(p, s) : p \in G("parNT", k), s \in G("serNT", n - k - 1)} : k \in Splits}
      star   == IF n = 1 THEN {Star} ELSE {}
      serTL  == serNT \cup star \cup {Ser(s, c, Star) : s \in G("serNT", n - 2), c \in Conn}
      parTL  == serTL \cup UNION {{Par(p, s) : p \in G("parTL", k), s \in G("serTL", n - k - 1)} : k \in Splits}
      elemTD == elemNT \cup star \cup {Bracket(p) : p \in G("parTD", n - 2)}
      serTD  == elemTD \cup UNION {{Ser(s, c, e) : s \in G("serNT", k), c \in Conn, e \in G("elemTD", n - k - 1)} : k \in Splits}
      parTD  == serTD \cup UNION {{Par(p, s) : p \in G("parTD", k), s \in G("serTD", n - k - 1)} : k \in Splits}
  IN [elemNT |-> elemNT, serNT |-> serNT, parNT |-> parNT, serTL |-> serTL, parTL |-> parTL,
      elemTD |-> elemTD, serTD |-> serTD, parTD |-> parTD]
RECURSIVE Build(_, _)
Build(n, tab) == IF n > L THEN tab ELSE Build(n + 1, Append(tab, Level(n, tab)))
Table == Build(1, <<>>)

\* (LET forces a single evaluation of the table: TLC does not cache operators defined via RECURSIVE)
LangLark == LET T == Table IN UNION {T[n].parTL : n \in 1..L}
LangDoc  == LET T == Table IN UNION {T[n].parTD : n \in 1..L}

\* ---- denotation: set of paths; a path is a sequence of observers [k, n, notify, opt]
Obs(k, n, nf, opt) == [k |-> k, n |-> n, notify |-> nf, opt |-> opt]
ElemPaths(tok, nf) ==
  CASE tok \in Names   -> {<<Obs("trait", tok, nf, FALSE)>>}
    [] tok = "items"   -> {<<Obs("trait", "items", nf, TRUE)>>, <<Obs("dict_items", "", nf, TRUE)>>,
                           <<Obs("list_items", "", nf, TRUE)>>, <<Obs("set_items", "", nf, TRUE)>>}
    [] tok = "+m"      -> {<<Obs("metadata", "m", nf, FALSE)>>}
    [] tok = "*"       -> {<<Obs("anytrait", "", nf, FALSE)>>}
RECURSIVE Denote(_, _)
Denote(t, nf) ==
  CASE t[1] = "el"  -> ElemPaths(t[2], nf)
    [] t[1] = "ser" -> {p \o q : p \in Denote(t[2], t[3] = "."), q \in Denote(t[4], nf)}
    [] t[1] = "par" -> Denote(t[2], nf) \cup Denote(t[3], nf)
Meaning(m) == Denote(m.t, TRUE)

\* ---- what the elements match (the documented tables), on a universe of objects of one class whose traits all hold
\* objects of that class: the named traits a, b, items; traits carrying the metadata m with the values True, False, 0, ""
\* (tT tF t0 tE: "a metadata attribute is defined" = its value is not None); tN with m = None; plain without it
U == {"a", "b", "items", "tT", "tF", "t0", "tE", "tN", "plain"}
Match(o, t) == CASE o.k = "trait"    -> o.n = t
                 [] o.k = "metadata" -> t \in {"tT", "tF", "t0", "tE"}
                 [] o.k = "anytrait" -> TRUE
                 [] OTHER            -> FALSE               \* list / dict / set items: the values are objects, not containers
\* assigning root.t calls the handler; assigning child.t of the object held by root.c calls the handler
Fires1(m) == {t \in U : \E p \in Meaning(m) : p[1].notify /\ Match(p[1], t)}
Fires2(m) == {<<c, t>> \in U \X U : \E p \in Meaning(m) : Len(p) >= 2 /\ Match(p[1], c) /\ p[2].notify /\ Match(p[2], t)}

\* ---- known finding F9b: the right operand of a connector compiles to sibling graphs that must be
\* pairwise different; branches of a parallel that are equal trees make compile_str raise
RECURSIVE Branches(_)
Branches(t) == IF t[1] = "par" THEN Branches(t[2]) \o Branches(t[3]) ELSE <<t>>
RECURSIVE Firsts(_, _)          \* the first-level observers a (sub)tree contributes as children
Firsts(t, nf) == {p[1] : p \in Denote(t, nf)}
HasDup(q) == \E i, j \in 1..Len(q) : i # j /\ q[i] = q[j]
RECURSIVE DupSiblings(_)
DupSiblings(t) ==
  CASE t[1] = "el"  -> FALSE
    [] t[1] = "par" -> DupSiblings(t[2]) \/ DupSiblings(t[3])
    [] t[1] = "ser" -> DupSiblings(t[2]) \/ DupSiblings(t[4]) \/ HasDup(Branches(t[4]))

\* ---- properties TLC checks on the language itself
Balanced(q) == LET d[i \in 0..Len(q)] == IF i = 0 THEN 0 ELSE d[i - 1] + (IF q[i] = "[" THEN 1 ELSE IF q[i] = "]" THEN -1 ELSE 0)
               IN d[Len(q)] = 0 /\ \A i \in 1..Len(q) : d[i] >= 0
\* documented rule: "*" is never followed, directly or through closing brackets, by a connector
RECURSIVE NextNonClose(_, _)
NextNonClose(q, i) == IF i > Len(q) THEN "end" ELSE IF q[i] = "]" THEN NextNonClose(q, i + 1) ELSE q[i]
StarTerminal(q) == \A i \in 1..Len(q) : q[i] = "*" => NextNonClose(q, i + 1) \in {"end", ","}
\* notify flag law: an observer notifies iff it is last in its path or was followed by "."
\* (checked through Denote's construction: every path's last observer has notify = TRUE)
LastNotifies(m) == \A p \in Meaning(m) : p[Len(p)].notify

\* one state per member of the documented language, carrying everything the replay needs
VARIABLES m, lark, den, dup, f1, f2
vars == <<m, lark, den, dup, f1, f2>>
\* membership in the as-written grammar, decided on the tokens: no "*" inside brackets (TLC checks
\* LarkFlagRight: this coincides with membership in LangLark; evaluated for small L only, it is quadratic)
Depth(q, i) == Cardinality({j \in 1..i : q[j] = "["}) - Cardinality({j \in 1..i : q[j] = "]"})
StarOutsideBrackets(q) == \A i \in 1..Len(q) : q[i] = "*" => Depth(q, i) = 0
Init == /\ m \in LangDoc /\ lark = StarOutsideBrackets(m.s)
        /\ den = Meaning(m) /\ dup = DupSiblings(m.t)
        /\ f1 = Fires1(m) /\ f2 = Fires2(m)
Next == UNCHANGED vars
Spec == Init /\ [][Next]_vars
WellFormed == Balanced(m.s) /\ StarTerminal(m.s) /\ LastNotifies(m)
LarkSubset == LangLark \subseteq LangDoc
LarkFlagRight == lark = (m \in LangLark)
\* one parse tree per string (the grammar is unambiguous): the meaning of a string is well defined
Unambiguous == \A x \in LangDoc : x.s = m.s => x.t = m.t
\* ":" silences exactly the element before it: with only "." connectors every matched first-level trait fires
DotsFireAll == (\A i \in 1..Len(m.s) : m.s[i] # ":") => \A p \in den : \A t \in U : Match(p[1], t) => t \in f1
=============================================================================
