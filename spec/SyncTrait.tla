------------------------------ MODULE SyncTrait ------------------------------
(***************************************************************************)
(* sync_trait (property C20).  Objects with attributes; directed links     *)
(* (a mutual link is two directed links); the propagation is modelled      *)
(* OPERATIONALLY as the code does it: the change handler of (o, a) locks a *)
(* on o, assigns the new value to every partner whose own attribute is not *)
(* locked, which runs the partner's handler recursively, then unlocks.     *)
(* SyncTraitMC checks convergence, termination and at-most-once            *)
(* notification for every link topology; Trace_SyncTrait judges recorded   *)
(* executions with Reach (the declarative closure).                        *)
(***************************************************************************)
EXTENDS Integers, Sequences, FiniteSets, TLC
L == INSTANCE TraitList

\* a cell is <<object, attribute>>; links: set of <<src cell, dst cell>>; accepts[cell]: the set of values the
\* cell's trait accepts (a Range partner rejects out-of-range values: it then keeps its value and propagates nothing)
Partners(links, c) == {e[2] : e \in {e \in links : e[1] = c}}
\* declarative: the cells a change of c reaches (through cells that accept the value)
RECURSIVE ReachFrom(_, _, _, _)
ReachFrom(links, ok, S, n) ==
  LET S2 == S \cup UNION {{d \in Partners(links, c) : ok[d]} : c \in S} IN
  IF n = 0 \/ S2 = S THEN S ELSE ReachFrom(links, ok, S2, n - 1)

\* the link table: sync_trait(s, t, mutual) adds s -> t (and t -> s); with remove it deletes them; a directed link that
\* already exists is left alone (no second push), which makes "mutual over an existing one-way link" add the reverse half
LinkAdd(links, s, t, mutual) == links \cup {<<s, t>>} \cup (IF mutual THEN {<<t, s>>} ELSE {})
LinkRemove(links, s, t, mutual) == links \ ({<<s, t>>} \cup (IF mutual THEN {<<t, s>>} ELSE {}))
\* the push a sync_trait call performs: the source's value goes to the new partner of the first NEW directed link
Push(links, s, t, mutual) == IF <<s, t>> \notin links THEN <<s, t>>
                             ELSE IF mutual /\ <<t, s>> \notin links THEN <<t, s>> ELSE <<>>

\* operational: st = [vals, locks (set of cells), calls (cell -> number of handler runs), depth]
RECURSIVE Propagate(_, _, _, _, _)
SetCell(links, acc, st, c, v) ==        \* setattr(c.object, c.attr, v) as performed by a partner's handler or the user
  IF v \notin acc[c] THEN st                                           \* TraitError, swallowed by the handler
  ELSE IF st.vals[c] = v THEN st                                       \* no change: no handler
  ELSE Propagate(links, acc, [st EXCEPT !.vals[c] = v, !.calls[c] = @ + 1], c, v)
RECURSIVE Each(_, _, _, _, _, _)
Each(links, acc, st, ps, c, v) ==       \* the loop over the partners (a sequence: the order of registration)
  IF ps = <<>> THEN st
  ELSE LET d == Head(ps)
           st2 == IF d \in st.locks THEN st ELSE SetCell(links, acc, st, d, v)
       IN Each(links, acc, st2, Tail(ps), c, v)
Propagate(links, acc, st, c, v) ==      \* _sync_trait_modified of cell c
  IF st.depth > 12 THEN [st EXCEPT !.depth = 99]                       \* runaway recursion marker
  ELSE LET locked == [st EXCEPT !.locks = @ \cup {c}, !.depth = @ + 1]
           order  == CHOOSE q \in [1..Cardinality(Partners(links, c)) -> Partners(links, c)] :
                        \A i, j \in DOMAIN q : i # j => q[i] # q[j]
           done   == Each(links, acc, locked, order, c, v)
       IN [done EXCEPT !.locks = @ \ {c}, !.depth = @ - 1]
Assign(links, acc, vals, c, v) ==       \* a top-level user assignment
  SetCell(links, acc, [vals |-> vals, locks |-> {}, calls |-> [x \in DOMAIN vals |-> 0], depth |-> 0], c, v)
=============================================================================
