---------------------------- MODULE Trace_RefLedger ----------------------------
EXTENDS RefLedger, Json, IOUtils
Trace == ndJsonDeserialize(IOEnv.TRACE_FILE)
N == Len(Trace)
VARIABLE i
Init == i \in 1..N
Next == UNCHANGED i
Spec == Init /\ [][Next]_i
Clauses(c) ==
  LET e == Expected(c.op) n == Len(c.deltas)
      keepall == c.op = "list_append"
  IN (IF keepall THEN (IF \A k \in 1..n : c.deltas[k] = 1 THEN {} ELSE {"C18-value-reference-count"})
      ELSE (IF \A k \in 1..(n - 1) : c.deltas[k] = 0 THEN {} ELSE {"C18-earlier-value-still-referenced-or-over-released"})
           \cup (IF c.deltas[n] = e.holds THEN {} ELSE {"C18-last-value-reference-count"}))
     \cup (IF \A k \in 1..Len(c.persist) : c.persist[k] = 0 THEN {} ELSE {"C18-persistent-object-reference-count"})
     \cup (IF c.raised = (IF e.raises THEN n ELSE 0) THEN {} ELSE {"C18-unexpected-outcome"})
Judge == LET f == Clauses(Trace[i]) IN IF f = {} THEN TRUE ELSE PrintT(<<"REJECT", i, f>>)
AllJudged == TLCGet("distinct") = N
=============================================================================
