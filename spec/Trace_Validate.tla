---------------------------- MODULE Trace_Validate ----------------------------
(* Judge of recorded assignments / validate calls on real traits built from the configuration *)
EXTENDS Validate, Json, IOUtils
Trace == ndJsonDeserialize(IOEnv.TRACE_FILE)
N == Len(Trace)
VARIABLE i
NB == 64
BSize == (N + NB - 1) \div NB
Init == i = 0
Next == \/ i = 0 /\ i' \in {-b : b \in 1..NB}
        \/ i < 0 /\ i' \in (((-i) - 1) * BSize + 1)..(IF (-i) * BSize < N THEN (-i) * BSize ELSE N)
Spec == Init /\ [][Next]_i
SetOf(q) == {q[k] : k \in 1..Len(q)}
RECURSIVE Fix(_)
Fix(c) == [c EXCEPT !.vals = SetOf(@), !.ms = [k \in 1..Len(c.ms) |-> Fix(c.ms[k])]]
\* observed result o = [tag, w, e, members] against a specification result r with members m
Cmp(o, r, m, what) ==
  IF o.tag # r.tag THEN {what \o "-outcome"}
  ELSE IF r.tag = "prop" /\ o.e # r.e THEN {what \o "-exception-class"}
  ELSE IF r.tag = "store" /\ (o.w # r.w \/ o.members # m) THEN {what \o "-value"}
  ELSE {}
Clauses(c) ==
  IF c.skip = 1 THEN {} ELSE       \* (C14) a trait definition that pickle refuses cleanly: outside the quantifier
  LET g == Fix(c.cfg)
      useFast == HasFast(g)
      \* route "prop": the attribute is Property(trait) - the factory installs the trait's Python-level validate method
      \* (traits.py: fvalidate = handler.validate), whose result is what the setter receives
      viaPy == c.route = "prop"
  IN Cmp(c.a, IF viaPy THEN Py(g, c.tok) ELSE Assign(g, c.tok), Members(g, c.tok, IF viaPy THEN "py" ELSE "assign"), "assign")
     \cup Cmp(c.f, Assign(g, c.tok), Members(g, c.tok, "assign"), "cpath")
     \cup Cmp(c.p, Py(g, c.tok), Members(g, c.tok, "py"), "pypath")
     \* C01 on the observed value itself
     \cup (IF c.a.tag = "store" /\ ~InDomain(g, c.a.w, c.a.members) THEN {"C01-stored-outside-domain"} ELSE {})
     \cup (IF c.a.tag = "store" /\ ~ShadowOK(g, c.a.w, c.sh) THEN {"C01-mapped-shadow-value"} ELSE {})
     \cup (IF c.a.tag # "store" /\ c.frame = 0 THEN {"C01-failed-assignment-had-effect"} ELSE {})
     \cup (IF c.a.tag = "store" /\ c.frame = 0 THEN {"C01-other-attribute-changed"} ELSE {})
     \cup (IF c.a.tag = "reject" /\ c.msg = 0 THEN {"C01-error-does-not-name-attribute"} ELSE {})
     \* C03 on the observed pair
     \cup (IF useFast /\ (c.f.tag = "store") # (c.p.tag = "store") THEN {"C03-accept-sets-differ"} ELSE {})
     \cup (IF useFast /\ c.f.tag = "store" /\ c.p.tag = "store" /\ (c.f.w # c.p.w \/ c.f.members # c.p.members)
           THEN {"C03-results-differ"} ELSE {})
     \cup (IF useFast /\ c.p.tag = "reject" /\ c.f.tag # "reject" THEN {"C03-python-rejects-fast-does-not"} ELSE {})
Judge == i <= 0 \/ LET f == Clauses(Trace[i]) IN IF f = {} THEN TRUE ELSE PrintT(<<"REJECT", i, f>>)
AllJudged == TLCGet("distinct") = N + NB + 1
=============================================================================
