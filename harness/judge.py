"""Mode B plumbing: hand an ndjson file of recorded executions to a Trace_*.tla judge."""
from . import tlc, tlaval, cases
from .core import MachineryError


MAX_CHUNK_BYTES = 300 * 1024 * 1024


def split_trace(trace_file, max_bytes=None):
    """[(path, number of lines)]: the trace itself, or consecutive chunks of at most max_bytes (the JSON module reads a
    whole file into memory; very large thorough-tier traces are judged chunk by chunk)"""
    import os
    max_bytes = max_bytes or MAX_CHUNK_BYTES
    size = os.path.getsize(trace_file)
    if size <= max_bytes:
        return None
    out = []
    k, cur, nbytes, nlines = 0, None, 0, 0
    with open(trace_file) as f:
        for line in f:
            if cur is None or nbytes + len(line) > max_bytes:
                if cur is not None:
                    cur.close()
                    out.append((path, nlines))
                k += 1
                path = "%s.chunk%d" % (trace_file, k)
                cur = open(path, "w")
                nbytes, nlines = 0, 0
            cur.write(line)
            nbytes += len(line)
            nlines += 1
    if cur is not None:
        cur.close()
        out.append((path, nlines))
    return out


def judge(rep, name, spec, cfg, trace_file, n_expected, sig_of=None, workers=2, timeout=3600, env=None,
          heap="6g"):
    """Runs TLC on `spec` with TRACE_FILE=trace_file. The spec prints <<"REJECT", i, clauses>> for every
    rejected record and must visit exactly n_expected states. Returns number of rejects."""
    chunks = split_trace(trace_file)
    if chunks:
        import os
        if sum(n for _, n in chunks) != n_expected:
            raise MachineryError("%s: trace has %d records, expected %d" % (name, sum(n for _, n in chunks), n_expected))
        tot = 0
        for k, (path, n) in enumerate(chunks, 1):
            tot += judge(rep, "%s[chunk %d/%d]" % (name, k, len(chunks)), spec, cfg, path, n, sig_of=sig_of, workers=workers,
                         timeout=timeout, env=env, heap=heap)
            os.unlink(path)
        return tot
    e = {"TRACE_FILE": trace_file}
    if env:
        e.update(env)
    res = tlc.run_tlc(spec, cfg, workers=workers, env=e, timeout=timeout, heap=heap)
    rep.add_tlc(name, res)
    if res.distinct != n_expected + 65:   # + root + 64 fan-out blocks
        raise MachineryError("%s: judge visited %d states, expected %d records" % (name, res.distinct, n_expected))
    rejects = tlaval.find_printed(res.stdout, "REJECT")
    if res.stdout.count('"REJECT"') != len(rejects):
        raise MachineryError("%s: %d REJECT markers in TLC output but %d parsed" %
                             (name, res.stdout.count('"REJECT"'), len(rejects)))
    seen = {}
    for r in rejects:
        seen.setdefault(r[0], r[1])
    recs = {}
    if seen:
        import json
        with open(trace_file) as f:
            for k, line in enumerate(f, 1):
                if k in seen:
                    recs[k] = json.loads(line)
    for i in sorted(seen):
        clauses = seen[i]
        rec = recs.get(i)
        cl = sorted(str(c) for c in clauses) if isinstance(clauses, (set, frozenset, tuple, list)) else [str(clauses)]
        sig = sig_of(rec, cl) if sig_of else "%s:%s" % (name, "+".join(cl))
        if sig is None:
            continue                  # the clauses belong to another property's check (shared judge)
        rep.violation(sig, "recorded execution rejected by %s, failing clause(s) %s: %s" % (spec, cl, _short(rec)),
                      case={"record": rec, "clauses": cl, "judge": spec})
    return len(seen)


def _short(rec):
    s = repr(rec)
    return s if len(s) < 400 else s[:400] + "..."
