"""Trace validation of /repo's own test-suite (see suite_trace.py): runs the repository's tests under the recorder and hands
the recorded container operations to the ordinary mode-B judges."""
import glob
import json
import os
import shutil
import subprocess
import sys

from . import build, judge, tlc
from .core import MachineryError, VERIF

KINDS = {"list": ("Trace_TraitList", "Trace_TraitList.cfg"),
         "dict": ("Trace_TraitDict", "Trace_TraitDict.cfg"),
         "set": ("Trace_TraitSet", "Trace_TraitSet.cfg")}
# quick tier: the test modules that exercise the container objects most; thorough: the whole suite
QUICK_FILES = {
    "list": ["traits/tests/test_trait_list_object.py", "traits/tests/test_list.py", "traits/tests/test_list_events.py",
             "traits/tests/test_trait_list_dict.py", "traits/tests/test_sync_traits.py",
             "traits/tests/test_trait_dict_list_set_event.py"],
    "dict": ["traits/tests/test_trait_dict_object.py", "traits/tests/test_dict.py", "traits/tests/test_trait_list_dict.py",
             "traits/tests/test_pickle_validated_dict.py", "traits/tests/test_trait_dict_list_set_event.py",
             "traits/observation"],
    "set": ["traits/tests/test_trait_set_object.py", "traits/tests/test_trait_dict_list_set_event.py", "traits/tests/test_set.py",
            "traits/observation"],
}


def record(kinds, tier, work):
    """runs pytest under the recorder; returns {kind: ndjson path}, summary"""
    repo = build.REPO
    out = os.path.join(work, "suite")
    os.makedirs(out, exist_ok=True)
    if tier == "thorough":
        targets = ["traits"]
    else:
        targets = []
        for k in kinds:
            for f in QUICK_FILES[k]:
                if f not in targets and os.path.exists(os.path.join(repo, f)):
                    targets.append(f)
    env = dict(os.environ, PYTHONPATH=VERIF, VERIF_SUITE_TRACE=out, PYTHONHASHSEED="0")
    env.pop("VERIF_CTRAITS_SO", None)
    cmd = [sys.executable, "-m", "pytest", "-q", "-p", "no:cacheprovider", "-p", "harness.suite_trace", "--timeout=1800",
           "-x", "--no-header"] + targets
    p = subprocess.run(cmd, cwd=repo, env=env, stdout=subprocess.PIPE, stderr=subprocess.STDOUT, text=True, timeout=3600)
    tail = p.stdout.strip().splitlines()[-1:] or [""]
    summ = {"skips": {}, "counts": {}, "pytest_exit": p.returncode, "pytest_summary": tail[0][:200], "targets": targets}
    for f in glob.glob(os.path.join(out, "summary.*.json")):
        s = json.load(open(f))
        for k, v in s["skips"].items():
            summ["skips"][k] = summ["skips"].get(k, 0) + v
        for k, v in s["counts"].items():
            summ["counts"][k] = summ["counts"].get(k, 0) + v
    if not summ["counts"]:
        sys.stderr.write(p.stdout[-3000:])
        raise MachineryError("suite trace: the recorder produced no summary (pytest exit %d)" % p.returncode)
    files = {}
    for k in kinds:
        path = os.path.join(out, "%s.ndjson" % k)
        with open(path, "w") as w:
            for f in sorted(glob.glob(os.path.join(out, "%s.*.ndjson" % k))):
                with open(f) as r:
                    shutil.copyfileobj(r, w)
                os.unlink(f)
        files[k] = path
    return files, summ


def run(rep, pid, kind, tier, sig_of):
    """records the repository's tests and judges the `kind` operations; sig_of(rec, clauses) -> signature"""
    work = tlc.scratch_dir("suite_")
    try:
        files, summ = record([kind], tier, work)
        n = sum(1 for _ in open(files[kind]))
        if n == 0:
            raise MachineryError("suite trace: no %s operation recorded" % kind)
        spec, cfg = KINDS[kind]
        judge.judge(rep, "%s(suite)" % spec, spec, cfg, files[kind], n, sig_of=sig_of)
        rep.case(n)
        rep.extra["suite_trace"] = {
            "what": "every mutating %s-object call made while the repository's own tests ran, judged by %s" % (kind, spec),
            "records_judged": n, "skipped_by_reason": {k: v for k, v in summ["skips"].items() if k.startswith(kind + ":")},
            "pytest": summ["pytest_summary"], "pytest_exit": summ["pytest_exit"], "targets": summ["targets"]}
        return n
    finally:
        shutil.rmtree(work, ignore_errors=True)
