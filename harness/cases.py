"""Mode A plumbing: stream a TLC state dump through a case executor in parallel processes."""
import json
import multiprocessing as mp
import os
import re

from . import tlaval

_HDR = re.compile(rb"^State \d+:", re.M)


def _chunks(path, n):
    size = os.path.getsize(path)
    if size == 0:
        return []
    bounds = [0]
    with open(path, "rb") as f:
        for k in range(1, n):
            pos = size * k // n
            f.seek(pos)
            buf = f.read(1 << 20)
            m = _HDR.search(buf)
            if m is None:
                continue
            b = pos + m.start()
            if b > bounds[-1]:
                bounds.append(b)
    bounds.append(size)
    return [(bounds[i], bounds[i + 1]) for i in range(len(bounds) - 1)]


def _iter_range(path, lo, hi):
    with open(path, "rb") as f:
        f.seek(lo)
        data = f.read(hi - lo).decode()
    cur = None
    curvar = None
    buf = []
    for line in data.split("\n"):
        if line.startswith("State ") and line.endswith(":"):
            if cur is not None:
                if curvar is not None:
                    cur[curvar] = tlaval.parse_value("\n".join(buf))
                yield cur
            cur = {}
            curvar = None
            buf = []
            continue
        if cur is None:
            continue
        if line.startswith("/\\ "):
            m = tlaval._VAR.match(line)
            if m:
                if curvar is not None:
                    cur[curvar] = tlaval.parse_value("\n".join(buf))
                curvar = m.group(1)
                buf = [m.group(2)]
                continue
        if line.strip():
            buf.append(line)
    if cur is not None:
        if curvar is not None:
            cur[curvar] = tlaval.parse_value("\n".join(buf))
        if cur:
            yield cur


def _worker(args):
    path, lo, hi, fn, outpath, k, reps = args
    ncases = 0
    nlines = 0
    fails = []
    nfail = 0
    samples = []
    out = open(outpath, "w") if outpath else None
    try:
        for st in _iter_range(path, lo, hi):
            for rep in range(reps):
                r = fn(st, rep)
                if r is None:
                    break
                ncases += 1
                f = r.get("fail")
                if f:
                    nfail += 1
                    if len(fails) < 40:
                        fails.append(f)
                lines = r.get("lines")
                if lines is None:
                    lines = [r["line"]] if r.get("line") is not None else []
                if out is not None:
                    for line in lines:
                        out.write(json.dumps(line, separators=(",", ":")))
                        out.write("\n")
                        nlines += 1
                if len(samples) < 2 and r.get("sample") is not None:
                    samples.append(r["sample"])
    finally:
        if out:
            out.close()
    return dict(k=k, ncases=ncases, nlines=nlines, nfail=nfail, fails=fails, samples=samples)


def run_dump_cases(dump_path, fn, out_ndjson=None, nproc=16, reps=1):
    """fn(state_dict, rep) -> None (not a case) or dict(fail=None|(sig, text, case), line=dict|None, sample=...).
    fn must be a module-level function (fork start method; traits already installed in parent).
    Returns dict(ncases, nlines, nfail, fails, samples)."""
    chunks = _chunks(dump_path, nproc * 4)
    jobs = []
    for k, (lo, hi) in enumerate(chunks):
        jobs.append((dump_path, lo, hi, fn, (out_ndjson + ".part%d" % k) if out_ndjson else None, k, reps))
    ctx = mp.get_context("fork")
    with ctx.Pool(min(nproc, max(1, len(jobs)))) as pool:
        results = pool.map(_worker, jobs, chunksize=1)
    results.sort(key=lambda r: r["k"])
    tot = dict(ncases=0, nlines=0, nfail=0, fails=[], samples=[])
    if out_ndjson:
        with open(out_ndjson, "w") as out:
            for r in results:
                pth = out_ndjson + ".part%d" % r["k"]
                with open(pth) as f:
                    for line in f:
                        out.write(line)
                os.unlink(pth)
    for r in results:
        tot["ncases"] += r["ncases"]
        tot["nlines"] += r["nlines"]
        tot["nfail"] += r["nfail"]
        tot["fails"].extend(r["fails"])
        tot["samples"].extend(r["samples"])
    tot["fails"] = tot["fails"][:60]
    tot["samples"] = tot["samples"][:4]
    return tot


def read_line(path, i):
    """1-based line i of an ndjson file."""
    with open(path) as f:
        for k, line in enumerate(f, 1):
            if k == i:
                return json.loads(line)
    return None
