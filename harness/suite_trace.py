"""pytest plugin (``-p harness.suite_trace``): trace validation of the repository's OWN test-suite.

While /repo's tests run, every mutating call on a TraitList / TraitDict / TraitSet (whoever makes it: the test, a
HasTraits object, a sync_trait handler, ...) is recorded at the public method's return (error path included):
   pre-contents, operation, arguments, what the item/key/value validators were asked and what they answered,
   the arguments of every notify() made during the call, exception, return value, post-contents.
The record is abstracted into the value domain of spec/TraitList.tla / TraitDict.tla / TraitSet.tla (objects are interned
by Python equality; a raw argument the validator converted becomes a `Coercible` item mapping to its result, a raw
argument it refused becomes the `Invalid` item) and written as one ndjson line in exactly the format of the mode-B
judges Trace_TraitList / Trace_TraitDict / Trace_TraitSet, which then judge the repository's tests' executions with the
same specification that judges our own drivers.  Records that cannot be abstracted soundly (argument type errors,
unorderable sorts, re-entrant mutation of the same container from its own notifier, more distinct items than the
domain has, ...) are counted by reason and skipped, never guessed.

Nothing of /repo is modified: the recorder wraps the methods of the three classes in this process only."""
import json
import operator
import os
import threading

OUT = os.environ.get("VERIF_SUITE_TRACE")
NONE = 1000
NORMAL_IDS = list(range(1, 10)) + list(range(20, 99))
MAXLEN = 150

_tls = threading.local()
_files = {}
_skips = {}
_counts = {"list": 0, "dict": 0, "set": 0}
MISSING = object()


class Skip(Exception):
    pass


def _stack():
    s = getattr(_tls, "stack", None)
    if s is None:
        s = _tls.stack = []
    return s


def _skip(kind, why):
    k = kind + ":" + why
    _skips[k] = _skips.get(k, 0) + 1


DEBUG = bool(os.environ.get("VERIF_SUITE_DEBUG"))


def _out(kind, rec, dbg=None):
    if DEBUG and dbg is not None:
        try:
            rec["dbg"] = repr(dbg)[:700]
        except Exception:
            pass
        rec["test"] = os.environ.get("PYTEST_CURRENT_TEST", "")
    f = _files.get(kind)
    if f is None:
        f = _files[kind] = open(os.path.join(OUT, "%s.%d.ndjson" % (kind, os.getpid())), "a")
    f.write(json.dumps(rec, separators=(",", ":")) + "\n")
    _counts[kind] += 1


def _same(x, y):
    if x is y:
        return True
    try:
        return bool(x == y)
    except Exception:
        return False


class Interner:
    """objects -> small ints by Python equality (identity first, as list/dict/set membership does)"""

    def __init__(self):
        self.h = {}
        self.lin = []
        self.order = []          # representatives in order of first appearance

    def find(self, x):
        try:
            return self.h.get(x, None) if x in self.h else self._lin(x)
        except TypeError:
            return self._lin(x)
        except Exception:
            raise Skip("eq-raises")

    def _lin(self, x):
        for slot in self.order:
            if _same(slot[1], x):
                return slot
        return None

    def add(self, x):
        s = self.find(x)
        if s is not None:
            return s
        slot = [None, x]
        try:
            hash(x)
            self.h[x] = slot
        except Exception:
            self.lin.append((x, slot))
        self.order.append(slot)
        return slot


class Frame:
    __slots__ = ("obj", "pre", "vlog", "vlog2", "events", "nested", "saved")

    def __init__(self, obj):
        self.obj = obj
        self.vlog = []       # (raw, result, exception) of the item / key validator
        self.vlog2 = []      # ... of the value validator (dict)
        self.events = []
        self.nested = False
        self.saved = {}


def _interpose(fr, obj, attr, log):
    d = getattr(obj, "__dict__", None)
    if d is None or attr not in d:
        return
    inner = d[attr]

    def recording_validator(x, _inner=inner):
        try:
            y = _inner(x)
        except BaseException as e:
            log.append((x, None, e))
            raise
        log.append((x, y, None))
        return y
    fr.saved[attr] = (inner, recording_validator)
    d[attr] = recording_validator


def _restore(fr, obj):
    d = getattr(obj, "__dict__", None)
    for attr, (inner, rv) in fr.saved.items():
        if d is not None and d.get(attr) is rv:
            d[attr] = inner


def _wrap(cls, name, kind, emit, validators, snapshot):
    orig = cls.__dict__[name]

    def wrapper(self, *args, **kw):
        st = _stack()
        for f in st:
            if f.obj is self:
                f.nested = True
                return orig(self, *args, **kw)
        fr = Frame(self)
        try:
            fr.pre = snapshot(self)
            for attr, which in validators:
                _interpose(fr, self, attr, fr.vlog if which == 1 else fr.vlog2)
        except Exception:
            _restore(fr, self)
            return orig(self, *args, **kw)
        st.append(fr)
        exc = None
        ret = None
        try:
            ret = orig(self, *args, **kw)
            return ret
        except BaseException as e:
            exc = e
            raise
        finally:
            st.pop()
            _restore(fr, self)
            try:
                if fr.nested:
                    raise Skip("reentrant")
                if type(self).notify is not _patched_notify[kind]:
                    raise Skip("notify-overridden")
                emit(name, fr, args, kw, ret, exc, snapshot(self))
            except Skip as s:
                _skip(kind, s.args[0])
            except Exception as e:       # the recorder must never disturb the test
                _skip(kind, "recorder-error:%s" % type(e).__name__)
    wrapper.__name__ = getattr(orig, "__name__", name)
    wrapper.__doc__ = getattr(orig, "__doc__", None)
    wrapper.__wrapped__ = orig
    setattr(cls, name, wrapper)


_patched_notify = {}


def _snap(x):
    t = type(x)
    if t in (list, dict, set):
        return t(x)
    return x


def _wrap_notify(cls, kind):
    orig = cls.__dict__["notify"]

    def notify(self, *args, **kw):
        for f in reversed(_stack()):
            if f.obj is self:
                # snapshot now: notifiers downstream may edit the very containers they are handed
                f.events.append((tuple(_snap(x) for x in args), {k: _snap(v) for k, v in kw.items()}))
                break
        return orig(self, *args, **kw)
    notify.__doc__ = orig.__doc__
    notify.__wrapped__ = orig
    cls.notify = notify
    _patched_notify[kind] = notify


# ---------------------------------------------------------------------------------------------------------------
# abstraction helpers

def _classify(vlog):
    """[(raw, 'valid'|'coerce'|'invalid', result)] ; the exception objects the validator raised"""
    out = []
    raised = []
    for x, y, e in vlog:
        if e is not None:
            out.append((x, "invalid", None))
            raised.append(e)
        elif _same(x, y):
            out.append((x, "valid", y))
        else:
            out.append((x, "coerce", y))
    return out, raised


class Coder:
    """assigns specification item codes: normal values 1..9, 20..98; converted raws 11..19 (-> 1..9); refused raws 99"""

    def __init__(self, classified):
        self.t = Interner()
        self.raw = []            # (raw, kind, slot_of_target)
        # conversion targets first: they need the ids 1..9
        for x, k, y in classified:
            if k == "coerce":
                self.t.add(y)
        self.ntargets = len(self.t.order)
        if self.ntargets > 9:
            raise Skip("more-than-9-conversion-targets")
        for x, k, y in classified:
            if k == "valid":
                self.t.add(y)
                self.t.add(x)
        self.classified = classified

    def note(self, x):
        """x is an ordinary (validated / unvalidated-argument / stored) value"""
        self.t.add(x)

    def finish(self, sort_key=None, want_order=False):
        order = self.t.order
        if len(order) > len(NORMAL_IDS):
            raise Skip("too-many-distinct-items")
        if want_order:
            if self.ntargets:
                raise Skip("sort-with-conversions")
            try:
                keyed = [((sort_key(s[1]) if sort_key else s[1]), s) for s in order]
                keyed.sort(key=lambda p: p[0])
                for a, b in zip(keyed, keyed[1:]):
                    if not (a[0] < b[0]) or (b[0] < a[0]):
                        raise Skip("sort-keys-not-strictly-ordered")
                order = [s for _, s in keyed]
            except Skip:
                raise
            except Exception:
                raise Skip("unorderable")
        for n, s in zip(NORMAL_IDS, order):
            s[0] = n
        # raws the validator converted / refused must not coincide with an ordinary value
        self.rawcodes = []
        for x, k, y in self.classified:
            if k == "valid":
                continue
            if self.t.find(x) is not None:
                raise Skip("raw-argument-equals-a-stored-value")
            self.rawcodes.append((x, 99 if k == "invalid" else 10 + self.t.find(y)[0]))

    def code(self, x):
        s = self.t.find(x)
        if s is not None:
            if s[0] is None:
                raise Skip("internal-uncoded")
            return s[0]
        for r, c in self.rawcodes:
            if _same(r, x):
                return c
        raise Skip("internal-unknown-item")


def _exc_name(exc, raised):
    if exc is None:
        return ""
    if not isinstance(exc, Exception):
        raise Skip("base-exception")
    if any(exc is e for e in raised):
        return "TraitError"           # whatever class the validator raised: "the validator refused"
    n = type(exc).__name__
    if n == "TypeError":
        raise Skip("argument-type-error")
    if n == "TraitError":
        # raised by something other than the validator (e.g. a length constraint of a subclass)
        raise Skip("traiterror-not-from-validator")
    if n not in ("IndexError", "ValueError", "KeyError"):
        # not an exception of the container operation itself: raised by a notifier (documented as "expected not to
        # raise") or by a test double - e.g. an assertion inside a test's listener - after the operation took effect
        raise Skip("foreign-exception")
    return n


def _idx(v):
    if v is None:
        return NONE
    try:
        i = operator.index(v)
    except Exception:
        raise Skip("non-integer-index")
    return max(-500, min(500, i))


def _materialise(value, vlog_raws, exc_from_validator, exc):
    """the raw items of an iterable argument; a one-shot iterator is reconstructed from what the validator was shown"""
    if isinstance(value, (list, tuple, str, bytes, range, set, frozenset, dict)):
        return list(value)
    if exc is None or exc_from_validator:
        return list(vlog_raws)
    raise Skip("one-shot-iterable-with-early-error")


# ---------------------------------------------------------------------------------------------------------------
# list

LIST_OPS = {"__setitem__": "setitem", "__delitem__": "delitem", "__iadd__": "iadd", "__imul__": "imul", "append": "append",
            "clear": "clear", "extend": "extend", "insert": "insert", "pop": "pop", "remove": "remove", "reverse": "reverse",
            "sort": "sort"}


def _emit_list(name, fr, args, kw, ret, exc, post):
    op = LIST_OPS[name]
    pre = fr.pre
    if len(pre) > MAXLEN or len(post) > MAXLEN:
        raise Skip("too-long")
    classified, raised = _classify(fr.vlog)
    from_val = exc is not None and any(exc is e for e in raised)
    excn = _exc_name(exc, raised)
    a = [0, 0, 0]
    raws = []
    plain_args = []          # unvalidated item arguments (remove)
    sort_key = None
    if op in ("setitem", "delitem"):
        key = args[0]
        if isinstance(key, slice):
            op = "setslice" if op == "setitem" else "delslice"
            a = [_idx(key.start), _idx(key.stop), _idx(key.step)]
            if op == "setslice":
                raws = _materialise(args[1], [x for x, _, _ in fr.vlog], from_val, exc)
        else:
            a = [_idx(key), 0, 0]
            if op == "setitem":
                raws = [args[1]]
    elif op in ("iadd", "extend"):
        raws = _materialise(args[0], [x for x, _, _ in fr.vlog], from_val, exc)
    elif op == "imul":
        a = [_idx(args[0]), 0, 0]
        if a[0] * len(pre) > MAXLEN:
            raise Skip("too-long")
    elif op == "append":
        raws = [args[0]]
    elif op == "insert":
        a = [_idx(args[0]), 0, 0]
        raws = [args[1]]
    elif op == "pop":
        a = [_idx(args[0]) if args else (_idx(kw["index"]) if "index" in kw else NONE), 0, 0]
    elif op == "remove":
        plain_args = [args[0]]
    elif op == "sort":
        sort_key = kw.get("key")
        a = [0, 1 if kw.get("reverse") else 0, 0]
    if len(raws) > MAXLEN:
        raise Skip("too-long")
    c = Coder(classified)
    # a raw item the validator was never shown (the operation failed first, or it is not validated): ordinary
    shown = Interner()
    for x, _, _ in fr.vlog:
        shown.add(x)
    for x in pre:
        c.note(x)
    for x in post:
        c.note(x)
    for x in plain_args:
        c.note(x)
    for x in raws:
        if shown.find(x) is None:
            c.note(x)
    evs_raw = []
    for eargs, ekw in fr.events:
        if ekw or len(eargs) != 3:
            raise Skip("notify-called-with-keywords")
        index, removed, added = eargs
        removed, added = list(removed), list(added)
        for x in removed + added:
            c.note(x)
        evs_raw.append((index, removed, added))
    if op == "pop" and exc is None:
        c.note(ret)
    c.finish(sort_key=sort_key, want_order=(op == "sort"))
    evs = []
    for index, removed, added in evs_raw:
        rem = [c.code(x) for x in removed]
        add = [c.code(x) for x in added]
        if isinstance(index, slice):
            f = [v if type(v) is int else -999 for v in (index.start, index.stop, index.step)]
            evs.append({"slice": 1, "a": f[0], "b": f[1], "c": f[2], "removed": rem, "added": add})
        else:
            evs.append({"slice": 0, "a": index if type(index) is int else -999, "b": 0, "c": 0, "removed": rem, "added": add})
    cpre = [c.code(x) for x in pre]
    cpost = [c.code(x) for x in post]
    xs = [c.code(x) for x in (raws or plain_args)]
    rec = {"pre": cpre, "op": op, "a": a, "xs": xs, "vm": "coerce", "post": cpost, "exc": excn,
           "ret": c.code(ret) if (op == "pop" and exc is None) else NONE, "evs": evs,
           "builtin": cpost if exc is None else cpre, "idxrep": 0, "suite": 1}
    _out("list", rec, (name, pre, args, kw, fr.events, post))


# ---------------------------------------------------------------------------------------------------------------
# dict: records in the format of Trace_TraitDict (pre/post/ps: pair lists, a: ints, ret: 1-tuple, evs: removed/added/changed)

DICT_OPS = {"__setitem__": "setitem", "__delitem__": "delitem", "__ior__": "ior", "clear": "clear", "update": "update",
            "setdefault": "setdefault", "pop": "pop", "popitem": "popitem"}


def _emit_dict(name, fr, args, kw, ret, exc, post):
    op = DICT_OPS[name]
    pre = fr.pre
    if len(pre) > 60 or len(post) > 60:
        raise Skip("too-long")
    if kw:
        raise Skip("keyword-arguments")
    if ret is NotImplemented:
        raise Skip("not-implemented")
    kcl, kraised = _classify(fr.vlog)
    vcl, vraised = _classify(fr.vlog2)
    raised = kraised + vraised
    from_val = exc is not None and any(exc is e for e in raised)
    excn = _exc_name(exc, raised)
    K, V = Coder(kcl), Coder(vcl)
    kshown, vshown = Interner(), Interner()
    for x, _, _ in fr.vlog:
        kshown.add(x)
    for x, _, _ in fr.vlog2:
        vshown.add(x)
    for k, v in pre:
        K.note(k)
        V.note(v)
    for k, v in post:
        K.note(k)
        V.note(v)
    a_raw = [None, None, None]          # (kind, object) slots resolved after coding
    pairs_raw = []
    if op == "setitem":
        a_raw[0], a_raw[1] = ("k", args[0]), ("v", args[1])
    elif op == "delitem":
        a_raw[0] = ("kplain", args[0])
    elif op in ("update", "ior"):
        other = args[0] if args else {}
        if hasattr(other, "keys"):
            pairs_raw = [(k, other[k]) for k in other.keys()]
        elif isinstance(other, (list, tuple)):
            pairs_raw = [tuple(p) for p in other]
        else:
            if exc is not None and not from_val:
                raise Skip("one-shot-iterable-with-early-error")
            ks = [x for x, _, _ in fr.vlog]
            vs = [x for x, _, _ in fr.vlog2]
            if len(ks) != len(vs) and not (from_val and len(ks) == len(vs) + 1):
                raise Skip("cannot-reconstruct-pairs")
            pairs_raw = list(zip(ks, vs + [None] * (len(ks) - len(vs))))
        if any(len(p) != 2 for p in pairs_raw):
            raise Skip("malformed-pairs")
    elif op == "setdefault":
        a_raw[0], a_raw[1] = ("k", args[0]), ("v", args[1] if len(args) > 1 else None)
    elif op == "pop":
        a_raw[0] = ("kplain", args[0])
        if len(args) > 1:
            a_raw[1], a_raw[2] = ("one", None), ("vplain", args[1])
    if len(pairs_raw) > 60:
        raise Skip("too-long")

    def note_raw(kind, x):
        if kind in ("kplain",):
            K.note(x)
        elif kind == "vplain":
            V.note(x)
        elif kind == "k":
            if kshown.find(x) is None:
                K.note(x)
        elif kind == "v":
            if vshown.find(x) is None:
                V.note(x)
    for slot in a_raw:
        if slot is not None and slot[0] != "one":
            note_raw(*slot)
    for k, v in pairs_raw:
        note_raw("k", k)
        note_raw("v", v)
    evs_raw = []
    for eargs, ekw in fr.events:
        names = ("removed", "added", "changed")
        vals = dict(zip(names, eargs))
        vals.update(ekw)
        if set(vals) != set(names):
            raise Skip("odd-notify-arguments")
        for n in names:
            for k, v in vals[n].items():
                K.note(k)
                V.note(v)
        evs_raw.append(vals)
    ret_pair = None
    if exc is None:
        if op in ("setdefault", "pop"):
            V.note(ret)
        elif op == "popitem":
            K.note(ret[0])
            V.note(ret[1])
    K.finish()
    V.finish()
    pl = lambda d: [[K.code(k), V.code(v)] for k, v in d]
    a = [0, 0, 0]
    for n, slot in enumerate(a_raw):
        if slot is None:
            continue
        kind, x = slot
        a[n] = 1 if kind == "one" else (K.code(x) if kind in ("k", "kplain") else V.code(x))
    if exc is None and op in ("setdefault", "pop"):
        r = [V.code(ret)]
    elif exc is None and op == "popitem":
        r = [K.code(ret[0]), V.code(ret[1])]
    else:
        r = [NONE]
    evs = [{n: [[K.code(k), V.code(v)] for k, v in e[n].items()] for n in ("removed", "added", "changed")} for e in evs_raw]
    cpre, cpost = pl(pre), pl(post)
    rec = {"pre": cpre, "op": op, "a": a, "ps": [[K.code(k), V.code(v)] for k, v in pairs_raw], "kvm": "coerce", "vvm": "coerce",
           "post": cpost, "exc": excn, "ret": r, "evs": evs, "builtin": cpost if exc is None else cpre, "suite": 1}
    _out("dict", rec, (name, pre, args, kw, fr.events, post))


# ---------------------------------------------------------------------------------------------------------------
# set: format of Trace_TraitSet (pre/post/builtin: lists, args: list of lists, a, ret, evs: removed/added lists)

SET_OPS = {"__iand__": "iand", "__ior__": "ior", "__isub__": "isub", "__ixor__": "ixor", "add": "add", "clear": "clear",
           "discard": "discard", "difference_update": "difference_update", "intersection_update": "intersection_update",
           "pop": "pop", "remove": "remove", "symmetric_difference_update": "symmetric_difference_update", "update": "update"}
VALIDATING_SET_OPS = ("ior", "ixor", "add", "symmetric_difference_update", "update")


def _emit_set(name, fr, args, kw, ret, exc, post):
    op = SET_OPS[name]
    pre = fr.pre
    if len(pre) > 60 or len(post) > 60:
        raise Skip("too-long")
    if kw:
        raise Skip("keyword-arguments")
    if ret is NotImplemented:
        raise Skip("not-implemented")
    cl, raised = _classify(fr.vlog)
    excn = _exc_name(exc, raised)
    C = Coder(cl)
    shown = Interner()
    for x, _, _ in fr.vlog:
        shown.add(x)
    for x in pre:
        C.note(x)
    for x in post:
        C.note(x)
    a_obj = [None, None, None]
    groups = []
    if op in ("add", "discard", "remove"):
        a_obj[0] = args[0]
    elif op in ("iand", "ior", "isub", "ixor"):
        if not isinstance(args[0], (set, frozenset)):
            raise Skip("non-set-operand")
        groups = [list(args[0])]
    elif op == "symmetric_difference_update":
        if not isinstance(args[0], (set, frozenset, list, tuple, dict, str, range)):
            raise Skip("one-shot-iterable")
        groups = [list(args[0])]
    elif op in ("update", "difference_update", "intersection_update"):
        for g in args:
            if not isinstance(g, (set, frozenset, list, tuple, dict, str, range)):
                raise Skip("one-shot-iterable")
            groups.append(list(g))
        if op == "intersection_update" and not groups:
            pass
    if sum(len(g) for g in groups) > 80:
        raise Skip("too-long")
    validating = op in VALIDATING_SET_OPS
    if op in ("add", "discard", "remove"):
        if not (validating and shown.find(a_obj[0]) is not None):
            C.note(a_obj[0])
    for g in groups:
        for x in g:
            if not (validating and shown.find(x) is not None):
                C.note(x)
    evs_raw = []
    for eargs, ekw in fr.events:
        vals = dict(zip(("removed", "added"), eargs))
        vals.update(ekw)
        if set(vals) != {"removed", "added"}:
            raise Skip("odd-notify-arguments")
        for n in ("removed", "added"):
            for x in vals[n]:
                C.note(x)
        evs_raw.append(vals)
    if op == "pop" and exc is None:
        C.note(ret)
    C.finish()
    cs = lambda s: sorted(C.code(x) for x in s)
    a = [0, 0, 0]
    if op in ("add", "discard", "remove"):
        a[0] = C.code(a_obj[0])
    cpre, cpost = cs(pre), cs(post)
    rec = {"pre": cpre, "op": op, "a": a, "args": [sorted(set(C.code(x) for x in g)) for g in groups], "vm": "coerce", "post": cpost,
           "exc": excn, "ret": C.code(ret) if (op == "pop" and exc is None) else NONE,
           "evs": [{"removed": cs(e["removed"]), "added": cs(e["added"])} for e in evs_raw],
           "builtin": cpost if exc is None else cpre, "suite": 1}
    _out("set", rec, (name, pre, args, kw, fr.events, post))


# ---------------------------------------------------------------------------------------------------------------

def install():
    from . import build
    build.install()
    from traits.trait_list_object import TraitList
    from traits.trait_dict_object import TraitDict
    from traits.trait_set_object import TraitSet
    _wrap_notify(TraitList, "list")
    _wrap_notify(TraitDict, "dict")
    _wrap_notify(TraitSet, "set")
    for m in LIST_OPS:
        _wrap(TraitList, m, "list", _emit_list, [("item_validator", 1)], lambda s: list.copy(s))
    for m in DICT_OPS:
        if m in TraitDict.__dict__:
            _wrap(TraitDict, m, "dict", _emit_dict, [("key_validator", 1), ("value_validator", 2)],
                  lambda s: list(dict.items(s)))
    for m in SET_OPS:
        _wrap(TraitSet, m, "set", _emit_set, [("item_validator", 1)], lambda s: list(set.__iter__(s)))


def pytest_sessionfinish(session, exitstatus):
    for f in _files.values():
        f.close()
    with open(os.path.join(OUT, "summary.%d.json" % os.getpid()), "w") as f:
        json.dump({"skips": _skips, "counts": _counts, "exitstatus": int(exitstatus)}, f)


if OUT:
    os.makedirs(OUT, exist_ok=True)
    install()
