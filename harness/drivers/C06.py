"""C06 — TraitDict refines dict; events are faithful deltas.
spec/TraitDict.tla, TraitDictMC (enumeration), Trace_TraitDict (judge). Pure driver: every verdict is TLC's."""
import copy
import json
import os
import pickle
import random
import shutil

from .. import build, tlc, cases, judge
from ..core import MachineryError

NONE = 1000
VALID = {1, 2, 3, 4}


def _coerce_validator(x):
    from traits.trait_errors import TraitError
    if type(x) is int and x in VALID:
        return x
    if type(x) is str and x.isdigit():
        return int(x)
    raise TraitError("invalid %r" % (x,))


class _Falsy(object):
    """a hashable object whose truth value is False (copies and pickles are the object itself)"""
    def __init__(self, k):
        self.k = k

    def __bool__(self):
        return False

    def __copy__(self):
        return self

    def __deepcopy__(self, memo):
        return self

    def __reduce__(self):
        return (_falsy, (self.k,))


def _falsy(k):
    return (_FALSY_A, _FALSY_B)[k]


_FALSY_A, _FALSY_B = _Falsy(0), _Falsy(1)
# representatives, rep == 2: without a validator every key / value is FALSY (0, '', None, (), ...)
# items 151..154 (TraitDict.tla EqInvalid): floats equal to the int keys 1..4, used under validating key modes
FALSY = {1: 0, 2: "", 3: None, 4: (), 11: b"", 12: frozenset(), 13: _FALSY_A, 99: _FALSY_B}


def conc(vm, x, rep=0):
    if vm == "id":
        if rep == 2:
            return FALSY[x]
        return float(x) if rep == 1 else x
    if x in VALID:
        return x
    if x in (11, 12, 13):
        return str(x - 10)
    if 151 <= x <= 154:
        return float(x - 150)
    return "bad"


def proj(x):
    if type(x) is int:
        return 1 if x == 0 else x
    if type(x) is float and x == int(x):
        return int(x)
    if x is None:
        return 3
    if x is _FALSY_A:
        return 13
    if x is _FALSY_B:
        return 99
    if type(x) in (str, tuple, bytes, frozenset) and len(x) == 0:
        return {str: 2, tuple: 4, bytes: 11, frozenset: 12}[type(x)]
    return 777


def _rk(k):
    return k - 150 if 151 <= k <= 154 else k


def proj_pairs(d):
    if not isinstance(d, dict):
        return [[778, 778]]
    return [[proj(k), proj(v)] for k, v in d.items()]


def perform(obj, op, a, ps, kvm, vvm, rep):
    """returns (ret_list, copy_or_None)"""
    ck = lambda k: conc(kvm, k, rep)
    cv = lambda v: conc(vvm, v, 2 if rep == 2 else 0)
    if op == "setitem":
        obj[ck(a[0])] = cv(a[1])
    elif op == "delitem":
        del obj[ck(a[0])]
    elif op in ("update", "ior"):
        pairs = [(ck(k), cv(v)) for k, v in ps]
        arg = dict(pairs) if a[0] == 0 else iter(pairs)
        if op == "update":
            obj.update(arg)
        else:
            obj |= arg
    elif op == "setdefault":
        return [proj(obj.setdefault(ck(a[0]), cv(a[1])))], None
    elif op == "pop":
        if a[1] == 1:
            return [proj(obj.pop(ck(a[0]), cv(a[2]) if rep == 2 and vvm == "id" else a[2]))], None
        return [proj(obj.pop(ck(a[0])))], None
    elif op == "popitem":
        k, v = obj.popitem()
        return [proj(k), proj(v)], None
    elif op == "clear":
        obj.clear()
    elif op == "copy":
        if a[0] == 0:
            return [NONE], copy.copy(obj)
        if a[0] == 1:
            return [NONE], copy.deepcopy(obj)
        return [NONE], pickle.loads(pickle.dumps(obj))
    else:
        raise MachineryError("unknown op " + op)
    return [NONE], None


def execute(pre, op, a, ps, kvm, vvm, rep=0):
    build.install()
    from traits.trait_dict_object import TraitDict
    from traits.trait_errors import TraitError
    events = []

    def rec(td, removed, added, changed):
        events.append({"removed": proj_pairs(removed), "added": proj_pairs(added), "changed": proj_pairs(changed)})
    kv = _coerce_validator if kvm == "coerce" else None
    vv = _coerce_validator if vvm == "coerce" else None
    exc = ""
    ret = [NONE]
    if op == "construct":
        pairs = [(conc(kvm, k, rep), conc(vvm, v, 2 if rep == 2 else 0)) for k, v in ps]
        try:
            td = TraitDict(dict(pairs) if a[0] == 0 else iter(pairs), key_validator=kv, value_validator=vv, notifiers=[rec])
            post = proj_pairs(td)
        except TraitError:
            exc, post = "TraitError", []
        except Exception as e:
            exc, post = type(e).__name__, []
    else:
        if rep == 2:
            td = TraitDict(dict((conc(kvm, k, 2), conc(vvm, v, 2)) for k, v in pre), key_validator=kv, value_validator=vv,
                           notifiers=[rec])
        else:
            td = TraitDict(dict((k, v) for k, v in pre), key_validator=kv, value_validator=vv, notifiers=[rec])
        try:
            ret, other = perform(td, op, a, ps, kvm, vvm, rep)
            if other is not None:
                if not isinstance(other, TraitDict) or proj_pairs(td) != [list(p) for p in pre]:
                    exc = "CopyBroken"
                post = proj_pairs(other)
            else:
                post = proj_pairs(td)
        except TraitError:
            exc, post = "TraitError", proj_pairs(td)
        except Exception as e:
            exc, post = type(e).__name__, proj_pairs(td)
    # builtin dict on validated arguments
    bd = dict((k, v) for k, v in pre)
    try:
        va = list(a)
        if op in ("setitem", "setdefault"):
            va[0] = _coerce_validator(conc(kvm, a[0])) if kvm == "coerce" else a[0]
            va[1] = _coerce_validator(conc(vvm, a[1])) if vvm == "coerce" else a[1]
        vps = [((_coerce_validator(conc(kvm, k)) if kvm == "coerce" else k),
                (_coerce_validator(conc(vvm, v)) if vvm == "coerce" else v)) for k, v in ps]
        if op == "construct":
            bd = dict(vps)
        elif op in ("copy",):
            pass
        elif op in ("delitem", "pop"):
            perform(bd, op, a, ps, kvm, vvm, 0)
        else:
            perform(bd, op, va, vps, "id", "id", 0)
    except Exception:
        bd = dict((k, v) for k, v in pre)
    return {"op": op, "a": list(a), "ps": [list(p) for p in ps], "kvm": kvm, "vvm": vvm,
            "pre": [list(p) for p in pre], "post": post, "exc": exc, "ret": ret, "evs": events,
            "builtin": proj_pairs(bd), "rep": rep}


def case_fn(st, rep):
    last = st["last"]
    if last["op"] == "init":
        return None
    if rep == 1 and last["kvm"] != "id":
        return None
    if rep == 2 and not (last["kvm"] == "id" or last["vvm"] == "id"):
        return None               # (the third representative differs only where there is no validator)
    r = execute([list(p) for p in last["pre"]], last["op"], list(last["a"]), [list(p) for p in last["ps"]],
                last["kvm"], last["vvm"], rep)
    return {"fail": None, "line": r, "sample": r}


def history_lines(seed, ntraces, steps):
    rnd = random.Random(seed)
    out = []
    ops = ["setitem", "setitem", "delitem", "update", "ior", "setdefault", "pop", "popitem", "clear", "copy"]
    for t in range(ntraces):
        kvm, vvm = rnd.choice([("id", "id"), ("coerce", "coerce"), ("coerce", "id"), ("id", "coerce")])
        keys = [1, 2, 3, 4] + ([11, 12, 99] if kvm == "id" else [])
        vals = [1, 2, 3, 4] + ([11, 99] if vvm == "id" else [])
        cur = []
        for k in rnd.sample(keys, rnd.randint(0, min(4, len(keys)))):
            cur.append([k, rnd.choice(vals)])
        for _ in range(steps):
            op = rnd.choice(ops)
            a = [0, 0, 0]
            ps = []
            ka = [1, 2, 3, 4, 11, 12, 13] + ([99] if rnd.random() < 0.15 else [])
            va = [1, 2, 3, 4, 11, 12] + ([99] if rnd.random() < 0.15 else [])
            if kvm != "id" and rnd.random() < 0.3:
                ka = ka + [151, 152, 153, 154]
                keys = [1, 2, 3, 4, 151, 152, 153, 154]
            if op in ("setitem", "setdefault"):
                a = [rnd.choice(ka), rnd.choice(va), 0]
            elif op == "delitem":
                a = [rnd.choice(keys), 0, 0]
            elif op in ("update", "ior"):
                n = rnd.randint(0, 4)
                ps = [[rnd.choice(ka), rnd.choice(va)] for _ in range(n)]
                a[0] = rnd.randint(0, 1)
                if a[0] == 0:
                    seen = set()
                    ps = [p for p in ps if not (_rk(p[0]) in seen or seen.add(_rk(p[0])))]
            elif op == "pop":
                h = rnd.randint(0, 1)
                a = [rnd.choice(keys), h, 3 if h else 0]
            elif op == "copy":
                a[0] = rnd.randint(0, 2)
            rep = (1 if rnd.random() < 0.5 else 2) if (kvm == "id" and rnd.random() < 0.5) else 0
            r = execute(cur, op, a, ps, kvm, vvm, rep)
            r["tid"] = t
            out.append(r)
            if op != "copy":
                cur = r["post"]
                if any(777 in p for p in cur):
                    break
    return out


_owners = {}


def _dict_owner(kvm, vvm):
    """HasTraits class with d = Dict(key trait, value trait) validating like the TraitDict validators of kvm / vvm"""
    key = (kvm, vvm)
    if key not in _owners:
        from traits.api import Any, Dict, HasTraits, TraitType

        class CoerceItem(TraitType):
            def validate(self, object, name, value):
                return _coerce_validator(value)
        mk = lambda vm: CoerceItem() if vm == "coerce" else Any()
        _owners[key] = type("DictOwner_%s_%s" % key, (HasTraits,), {"d": Dict(mk(kvm), mk(vvm))})
    return _owners[key]


def owner_history_lines(seed, ntraces, steps):
    """the TraitDict as the value of a Dict trait: operations on the current value, whole-value assignments, and
    operations on FORMER values of the attribute (kept by the driver); what is recorded is the attribute's contents and
    the d_items events the owner's handler received"""
    build.install()
    from traits.trait_errors import TraitError
    rnd = random.Random(seed + 7919)
    out = []
    ops = ["setitem", "setitem", "delitem", "update", "ior", "setdefault", "pop", "popitem", "clear"]
    for t in range(ntraces):
        kvm, vvm = rnd.choice([("id", "id"), ("coerce", "coerce"), ("coerce", "id"), ("id", "coerce")])
        keys = [1, 2, 3, 4] + ([11, 12] if kvm == "id" else [])
        falsy = kvm == "id" and vvm == "id" and rnd.random() < 0.5        # every key and value a falsy object
        o = _dict_owner(kvm, vvm)()
        events = []

        def handler(event):
            events.append({"removed": proj_pairs(event.removed), "added": proj_pairs(event.added),
                           "changed": proj_pairs(event.changed)})
        o.on_trait_change(handler, "d_items")
        stale = []
        for _ in range(steps):
            pre = proj_pairs(o.d)
            del events[:]
            ka = [1, 2, 3, 4, 11, 12, 13] + ([99] if rnd.random() < 0.15 else [])
            va = [1, 2, 3, 4, 11, 12] + ([99] if rnd.random() < 0.15 else [])
            if kvm != "id" and rnd.random() < 0.3:
                ka = ka + [151, 152, 153, 154]
            a, ps, exc, ret, is_stale = [0, 0, 0], [], "", [NONE], 0
            u = rnd.random()
            if u < 0.14:
                op = "assign"
                ps = [[rnd.choice(ka), rnd.choice(va)] for _ in range(rnd.randint(0, 4))]
                seen = set()
                ps = [p for p in ps if not (_rk(p[0]) in seen or seen.add(_rk(p[0])))]
                if stale and rnd.random() < 0.4:
                    # (a superset / subset of a former value: one operation on that value can make the two equal)
                    ps = [list(p) for p in proj_pairs(rnd.choice(stale))] + [[rnd.choice([1, 2, 3, 4]), rnd.choice([1, 2, 3, 4])]]
                    seen = set()
                    ps = [p for p in ps if p[0] < 700 and not (p[0] in seen or seen.add(p[0]))]
                old = o.d
                try:
                    o.d = dict((conc(kvm, k, 2 if falsy else 0), conc(vvm, v, 2 if falsy else 0)) for k, v in ps)
                    stale.append(old)
                except TraitError:
                    exc = "TraitError"
                except Exception as e:
                    exc = type(e).__name__
            else:
                op = rnd.choice(ops)
                target = o.d
                if stale and u < 0.34:
                    target, is_stale = rnd.choice(stale), 1
                if op in ("setitem", "setdefault"):
                    a = [rnd.choice(ka), rnd.choice(va), 0]
                elif op == "delitem":
                    a = [rnd.choice(keys), 0, 0]
                elif op in ("update", "ior"):
                    ps = [[rnd.choice(ka), rnd.choice(va)] for _ in range(rnd.randint(0, 4))]
                    a[0] = rnd.randint(0, 1)
                    if a[0] == 0:
                        seen = set()
                        ps = [p for p in ps if not (_rk(p[0]) in seen or seen.add(_rk(p[0])))]
                elif op == "pop":
                    h = rnd.randint(0, 1)
                    a = [rnd.choice(keys), h, 3 if h else 0]
                if is_stale and not falsy and rnd.random() < 0.6:
                    # steer the former value towards the current one
                    live, cur = dict(o.d), dict(target)
                    diff = [k for k in set(live) | set(cur) if live.get(k, None) != cur.get(k, None) or (k in live) != (k in cur)]
                    if diff:
                        k = rnd.choice(diff)
                        if k in live and type(k) is int and type(live[k]) is int:
                            op, a = "setitem", [k, live[k], 0]
                        elif type(k) is int:
                            op, a = "delitem", [k, 0, 0]
                orep = 2 if falsy else 0
                try:
                    ret, _ = perform(target, op, a, ps, kvm, vvm, orep)
                except TraitError:
                    exc = "TraitError"
                except Exception as e:
                    exc = type(e).__name__
            post = proj_pairs(o.d)
            out.append({"op": op, "a": a, "ps": ps, "kvm": kvm, "vvm": vvm, "pre": pre, "post": post, "exc": exc, "ret": ret,
                        "evs": list(events), "builtin": [], "rep": 0, "owner": 1, "stale": is_stale, "tid": t})
            if any(777 in p for p in post):
                break
    return out


def sig_of(rec, cl):
    if cl == ["KF14"]:
        return "C06:KF14:setdefault-raw-key-absent-validated-present"
    return "C06:judge:%s:%s" % (rec["op"], "+".join(cl))


def run(rep, tier, seed):
    build.install()
    work = tlc.scratch_dir("c06_")
    try:
        cfg = "TraitDictMC_%s.cfg" % tier
        dump = os.path.join(work, "cases")
        res = tlc.run_tlc("TraitDictMC", cfg, dump=dump, timeout=3000, workers=8,
                          heap="4g" if tier == "quick" else "12g")
        rep.add_tlc("TraitDictMC", res)
        trace = os.path.join(work, "trace.ndjson")
        tot = cases.run_dump_cases(dump + ".dump", case_fn, out_ndjson=trace, reps=3)
        os.unlink(dump + ".dump")
        if tot["ncases"] == 0:
            raise MachineryError("no cases in dump")
        rep.case(tot["ncases"])
        for s in tot["samples"][:2]:
            rep.sample(s)
        nh, steps = (400, 25) if tier == "quick" else (6000, 40)
        hl = history_lines(seed, nh, steps)
        with open(trace, "a") as f:
            for r in hl:
                f.write(json.dumps(r, separators=(",", ":")) + "\n")
        rep.case(len(hl))
        rep.sample(hl[len(hl) // 2])
        ol = owner_history_lines(seed, nh // 2, steps)
        with open(trace, "a") as f:
            for r in ol:
                f.write(json.dumps(r, separators=(",", ":")) + "\n")
        rep.case(len(ol))
        rep.extra["owner_level_steps"] = len(ol)
        rep.extra["owner_level_steps_on_detached_values"] = sum(r["stale"] for r in ol)
        n = tot["nlines"] + len(hl) + len(ol)
        judge.judge(rep, "Trace_TraitDict", "Trace_TraitDict", "Trace_TraitDict.cfg", trace, n, sig_of=sig_of,
                    heap="8g" if tier == "quick" else "24g")
        from .. import suite_phase
        ns = suite_phase.run(rep, "C06", "dict", tier, sig_of=lambda rec, cl: sig_of(rec, cl).replace("C06:judge:", "C06:suite:"))
        rep.notes.append("%d TraitDict operations recorded while the repository's own tests ran were judged by the same judge" % ns)
        rep.rule = ("every (ordered dict, key/value validator modes, operation, arguments) state enumerated by TLC from "
                    "TraitDictMC (%s) executed on a real TraitDict (int keys and, under the identity validator, equal "
                    "float keys) and on a builtin dict, plus %d seeded history steps, plus %d steps on the TraitDict of a Dict "
                    "trait seen from its owner (d_items events, whole-value assignment, operations on detached former "
                    "values); every record judged by TLC" % (cfg, len(hl), len(ol)))
        rep.exhaustive = True
        rep.extra["cases_from_tlc_dump"] = tot["ncases"]
        rep.extra["history_steps"] = len(hl)
    finally:
        shutil.rmtree(work, ignore_errors=True)


def replay(rep, path):
    build.install()
    obj = json.load(open(path))
    rec = (obj.get("case") or {}).get("record")
    r = execute(rec["pre"], rec["op"], rec["a"], rec["ps"], rec["kvm"], rec["vvm"], rec.get("rep", 0))
    print("recorded:", rec)
    print("now     :", r)
