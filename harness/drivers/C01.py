"""C01 — assigned values always lie in the trait's declared domain (see validate_common.py, spec/Validate.tla)."""
from . import validate_common as vc


def run(rep, tier, seed):
    vc.run_for(rep, tier, seed, "C01")


replay = vc.replay
