"""C01 — assigned values always lie in the trait's declared domain (see validate_common.py, spec/Validate.tla; Array /
CArray / ArrayOrNone traits: array_common.py, spec/ArrayTrait.tla; This, Module, Date, Datetime, Time, UUID, File,
Directory, Expression: more_types.py, spec/MoreTypes.tla)."""
import json

from . import validate_common as vc
from . import array_common as ac
from . import more_types as mt
from . import dyn_range as dr
from . import dyn_enum as de


def run(rep, tier, seed):
    vc.run_for(rep, tier, seed, "C01")
    rule = rep.rule
    mt.run_for(rep, tier, seed, "C01")
    ac.run_for(rep, tier, seed)
    dr.run_for(rep, tier, seed)
    de.run_for(rep, tier, seed)
    rep.rule = rule + ("; This / self, Module, Date, Datetime, Time, UUID, File, Directory, Expression: every (configuration, "
                       "value, route) state of MoreTypesMC on real values (temporary files, paths, dates, ...), judged against "
                       "Validate / Assign / InDomain of MoreTypes.tla; Array / CArray / ArrayOrNone: every (dtype, shape "
                       "pattern, casting rule, value) state of ArrayTraitMC instantiated with numpy values, judged by TLC "
                       "against Py / InDomain / Default of ArrayTrait.tla; Range traits whose bounds name other attributes: histories of bound "
                       "changes, assignments and reads judged against DynRange.tla; Enum(values='name'): the same against DynEnum.tla")


def replay(rep, path):
    obj = json.load(open(path))
    rec = (obj.get("case") or {}).get("record") or {}
    if "v" in rec and "tok" not in rec:
        return ac.replay_record(rec)
    if isinstance(rec.get("tok"), dict):
        return mt.replay_record(rec)
    return vc.replay(rep, path)
