"""C01 for Enum(values="name") (spec/DynEnum.tla): histories of changes of the named list, assignments and reads."""
import json
import os
import random
import shutil

from .. import build, tlc, judge

UNSET, NONEV, BAD, DFLT = 999, 998, 997, 996
_K = {}


def cls():
    if not _K:
        build.install()
        from traits.api import Any, Enum, HasTraits, List, Str
        _K["C"] = type("DynE", (HasTraits,), {"choices": List(Any, [1, 2]), "x": Enum(values="choices"), "z": Str("z")})
    return _K["C"]


def state(o):
    d = o.__dict__
    stored = UNSET
    for key in ("_traits_cache_x", "x"):
        if key in d:
            stored = d[key] if type(d[key]) is int else (NONEV if d[key] is None else DFLT)
            break
    return {"vals": [v if type(v) is int else BAD for v in o.choices], "stored": stored}


def run_history(rnd, steps, t):
    from traits.trait_errors import TraitError
    o = cls()()
    out = []
    for s in range(steps):
        pre = state(o)
        op = rnd.choice(["read", "read", "assign", "assign", "setvals"])
        v, vs = 0, []
        exc, val = "", 0
        try:
            if op == "read":
                r = o.x
                val = r if type(r) is int else (NONEV if r is None else BAD)
            elif op == "assign":
                v = rnd.choice([1, 2, 3, 3, BAD])
                o.x = [9] if v == BAD else v
            else:
                vs = rnd.choice([[], [1], [2, 3], [3, 1, 2], [2, 2]])
                o.choices = list(vs)
        except TraitError:
            exc = "TraitError"
        except Exception as e:
            exc = type(e).__name__
        out.append({"tid": t, "step": s, "op": op, "v": v, "vs": vs, "pre": pre, "post": state(o), "exc": exc, "val": val,
                    "frame": 1 if o.z == "z" else 0})
    return out


def run_for(rep, tier, seed):
    build.install()
    rnd = random.Random(seed + 31337)
    work = tlc.scratch_dir("dyne_")
    try:
        res = tlc.run_tlc("DynEnumMC", "DynEnumMC.cfg", timeout=1200, workers=4)
        rep.add_tlc("DynEnumMC", res)
        ntr, steps = (500, 12) if tier == "quick" else (10000, 20)
        trace = os.path.join(work, "trace.ndjson")
        n = 0
        with open(trace, "w") as f:
            for t in range(ntr):
                for r in run_history(rnd, steps, t):
                    f.write(json.dumps(r, separators=(",", ":")) + "\n")
                    n += 1
        rep.case(n)
        judge.judge(rep, "Trace_DynEnum", "Trace_DynEnum", "Trace_DynEnum.cfg", trace, n,
                    sig_of=lambda rec, cl: "C01:dynenum:%s:%s" % (rec["op"], "+".join(cl)))
        rep.extra["dynamic_enum_steps"] = n
    finally:
        shutil.rmtree(work, ignore_errors=True)
