"""C09 for several observed objects sharing a downstream object (spec/RegCount.tla): two of the observed objects compare
EQUAL (value-based __eq__ / __hash__) without being the same object."""
import gc
import json
import os
import random
import shutil
import weakref

from .. import build, tlc, judge

_K = {}


def classes():
    if _K:
        return _K
    build.install()
    from traits.api import HasTraits, Instance, Int

    class Child(HasTraits):
        value = Int

    class Parent(HasTraits):
        key = Int
        tag = Int
        child = Instance(Child)

        def __eq__(self, other):
            return isinstance(other, Parent) and other.key == self.key

        def __ne__(self, other):
            return not self.__eq__(other)

        def __hash__(self):
            return hash(("Parent", self.key))
    _K.update(Child=Child, Parent=Parent)
    return _K


def run_history(rnd, steps, t):
    from traits.observation.exceptions import NotifierNotFound
    k = classes()
    child = k["Child"]()
    targets = {"T1": k["Parent"](key=1, child=child), "T2": k["Parent"](key=1, child=child), "T3": k["Parent"](key=2, child=child)}
    log = {"H1": [], "H2": []}

    def h1(event):
        log["H1"].append(1)

    def h2(event):
        log["H2"].append(1)
    handlers = {"H1": h1, "H2": h2}
    cnt = {tn: {"H1": [0, 0], "H2": [0, 0]} for tn in targets}
    EXPR = {1: "child.value", 2: "tag", 3: ["child.value", "tag"]}
    alive = ["T1", "T2", "T3"]
    out = []

    def probe():
        for v in log.values():
            del v[:]
        child.value += 1
        r = {h: len(v) for h, v in log.items()}
        for v in log.values():
            del v[:]
        return r

    def probetag():
        out_ = {}
        for tn2 in ("T1", "T2", "T3"):
            for v in log.values():
                del v[:]
            if tn2 in targets:
                targets[tn2].tag += 1
            out_[tn2] = {h: len(v) for h, v in log.items()}
        for v in log.values():
            del v[:]
        return out_
    for s in range(steps):
        op = rnd.choice(["reg", "reg", "unreg", "unreg", "change", "changetag", "collect"] if s > 3 else ["reg", "reg", "unreg", "change"])
        mask = rnd.choice([1, 2, 3, 3])
        tn = rnd.choice(alive) if alive else "T1"
        hn = rnd.choice(["H1", "H2"])
        if op == "collect" and (len(alive) <= 1 or rnd.random() < 0.7):
            op = "change"
        if op in ("reg", "unreg", "collect") and not alive:
            op = "change"
        if op == "reg" and max(cnt[tn][hn]) >= 2:
            op = "unreg"
        if op == "changetag" and not alive:
            op = "change"
        pre_cnt = {a: {h: list(c) for h, c in b.items()} for a, b in cnt.items()}
        pre_alive = list(alive)
        exc, collected = "", 1
        for v in log.values():
            del v[:]
        try:
            graphs = [0, 1] if mask == 3 else [mask - 1]
            if op == "reg":
                targets[tn].observe(handlers[hn], EXPR[mask])
                for g in graphs:
                    cnt[tn][hn][g] += 1
            elif op == "unreg":
                targets[tn].observe(handlers[hn], EXPR[mask], remove=True)
                for g in graphs:
                    cnt[tn][hn][g] -= 1
            elif op == "change":
                child.value += 1
            elif op == "changetag":
                targets[tn].tag += 1
            else:
                w = weakref.ref(targets[tn])
                del targets[tn]
                gc.collect()
                collected = 1 if w() is None else 0
                alive.remove(tn)
                cnt[tn] = {"H1": [0, 0], "H2": [0, 0]}
        except NotifierNotFound:
            exc = "NotifierNotFound"
        except Exception as e:
            exc = type(e).__name__
        calls = {h: len(v) for h, v in log.items()}
        out.append({"tid": t, "step": s, "op": op, "t": tn, "h": hn, "m": mask, "probetag": probetag(), "cnt": pre_cnt, "alive": pre_alive, "exc": exc, "calls": calls,
                    "probe": probe(), "collected": collected})
    return out


def run_for(rep, tier, seed):
    build.install()
    classes()
    rnd = random.Random(seed + 9009)
    work = tlc.scratch_dir("regc_")
    try:
        res = tlc.run_tlc("RegCountMC", "RegCountMC.cfg", timeout=1200, workers=4)
        rep.add_tlc("RegCountMC", res)
        ntr, steps = (400, 14) if tier == "quick" else (8000, 24)
        trace = os.path.join(work, "trace.ndjson")
        n = 0
        with open(trace, "w") as f:
            for t in range(ntr):
                for r in run_history(rnd, steps, t):
                    f.write(json.dumps(r, separators=(",", ":")) + "\n")
                    n += 1
        rep.case(n)
        judge.judge(rep, "Trace_RegCount", "Trace_RegCount", "Trace_RegCount.cfg", trace, n,
                    sig_of=lambda rec, cl: "C09:several-observed-objects:%s:%s" % (rec["op"], "+".join(cl)))
        rep.extra["several_observed_objects_steps"] = n
    finally:
        shutil.rmtree(work, ignore_errors=True)
