"""Programs of spec/Reentrancy.tla: user code running inside a compiled entry point calls back into the API and drops the
references the C frame borrowed.  run_program(where, site, act) executes one state of the specification on real objects;
under the ASan+UBSan build a use-after-free is a sanitiser report, in a plain build possibly a crash."""
import gc


def run_program(where, site, act):
    from traits.api import (Any, DefaultValue, DelegatesTo, HasTraits, Instance, Int, Property, PrototypedFrom, TraitType)
    box = {"armed": False, "outer": None, "log": []}

    def noop():
        pass

    def fire(obj, name):
        if not box["armed"]:
            return
        box["armed"] = False
        outer = box["outer"]
        try:
            if act == "remove_trait":
                obj.remove_trait(name)
            elif act == "replace_trait":
                obj.add_trait(name, Int(0))
            elif act == "delete_value":
                delattr(obj, name)
            elif act == "clear_dict":
                obj.__dict__.clear()
            elif act == "unhook":
                obj.on_trait_change(noop, name, remove=True)
            elif act == "swap_delegate":
                outer.d = type(outer.d)()
            elif act == "drop_delegate":
                outer.__dict__.pop("d", None)
            elif act == "reassign":
                setattr(obj, name, 99)
            elif act == "read":
                getattr(obj, name)
            elif act == "add_other_trait":
                obj.add_trait("other_%d" % len(box["log"]), Int(1))
        except Exception as e:
            box["log"].append("action:" + type(e).__name__)
        gc.collect()

    class V(TraitType):
        def get_default_value(self):
            return (DefaultValue.callable, self._dflt)

        def _dflt(self, obj):
            if site == "default":
                fire(obj, "x")
            return 1

        def validate(self, obj, name, value):
            if site in ("validate", "validated_setter"):
                fire(obj, name)
            return value

        def post_setattr(self, obj, name, value):
            if site == "post_setattr":
                fire(obj, name)

    def static(self, new):
        if site == "static_handler":
            fire(self, "x")

    def dynamic(obj, name, old, new):
        if site == "dynamic_handler":
            fire(obj, name)

    def _get_p(self):
        if site == "getter":
            fire(self, "p")
        return 2

    def _set_p(self, v):
        if site == "setter":
            fire(self, "p")

    def _get_pv(self):
        return 3

    def _set_pv(self, v):
        pass

    if where in ("delegated", "proto"):
        D = type("RD", (HasTraits,), {"x": V(), "_x_changed": static})
        O = type("RO", (HasTraits,), {"d": Instance(D), "x": (DelegatesTo if where == "delegated" else PrototypedFrom)("d")})
        target = O()
        target.d = D()
        box["outer"] = target
        target.d.on_trait_change(dynamic, "x")
        name = "x"
    else:
        ns = {"_x_changed": static, "p": Property(), "_get_p": _get_p, "_set_p": _set_p,
              "pv": Property(V()), "_get_pv": _get_pv, "_set_pv": _set_pv}
        if where != "added":
            ns["x"] = V()
        A = type("RA", (HasTraits,), ns)
        target = A()
        if where == "added":
            target.add_trait("x", V())
        name = {"getter": "p", "setter": "p", "validated_setter": "pv"}.get(site, "x")
        if where in ("instance", "added") or site == "dynamic_handler":
            target.on_trait_change(dynamic, name)       # (gives the object its own copy of the trait)
    box["armed"] = True
    try:
        if site in ("default", "getter"):
            getattr(target, name)
        else:
            setattr(target, name, 5)
    except Exception as e:
        box["log"].append("op:" + type(e).__name__)
    fired = not box["armed"]
    # the object must still be usable
    try:
        getattr(target, name, None)
        setattr(target, name, 6)
    except Exception as e:
        box["log"].append("after:" + type(e).__name__)
    del target
    box["outer"] = None
    return {"where": where, "site": site, "act": act, "fired": fired, "log": box["log"]}


def programs_from_dump(path):
    from .. import tlaval
    out = []
    for st in tlaval.iter_dump_states(path):
        out.append((str(st["where"]), str(st["site"]), str(st["act"])))
    return sorted(out)


def run_all(progs):
    """every program in turn (one process); returns the list of results"""
    return [run_program(*p) for p in progs]
