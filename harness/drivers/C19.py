"""C19 — a failing user callback never leaves an object half-updated.
spec/Faults.tla (fault parameter on every operation), Trace_Faults (judge).  Counting fault injectors in every user
callback site; the history continues after each fault and must stay a behaviour of the specification."""
import json
import os
import random
import shutil

from .. import build, tlc, judge
from ..core import MachineryError

BAD = 99
EXC = {"TraitError": None, "ValueError": ValueError, "AttributeError": AttributeError, "RuntimeError": RuntimeError}
FAULT = {"site": "none", "occ": 0, "exc": "", "count": {}}
CP_SITE = ["cpgetter_notify"]
_W = {}


def maybe_fail(site):
    c = FAULT["count"]
    c[site] = c.get(site, 0) + 1
    if FAULT["site"] == site and c[site] == FAULT["occ"]:
        raise EXC[FAULT["exc"]]("injected fault at %s #%d" % (site, c[site]))


def world():
    if _W:
        return _W
    build.install()
    import logging
    logging.getLogger("traits").addHandler(logging.NullHandler())
    logging.getLogger("traits").propagate = False
    from traits.api import (HasTraits, TraitType, Int, List, Set, Dict, Property, cached_property, Supports, TraitError, Either,
                            Instance, Range)
    from traits.adaptation.api import AdaptationManager, set_global_adaptation_manager
    EXC["TraitError"] = TraitError

    class VT(TraitType):
        default_value = 0

        def validate(self, obj, name, value):
            maybe_fail("validator")
            if value == "bad":
                self.error(obj, name, value)
            return value

    class Item(TraitType):
        default_value = 0

        def validate(self, obj, name, value):
            maybe_fail("item")
            if value == "bad":
                self.error(obj, name, value)
            return value

    class KItem(Item):
        def validate(self, obj, name, value):
            maybe_fail("kitem")
            if value == "bad":
                self.error(obj, name, value)
            return value

    class VItem(Item):
        def validate(self, obj, name, value):
            maybe_fail("vitem")
            if value == "bad":
                self.error(obj, name, value)
            return value

    class PVT(TraitType):
        default_value = 0

        def validate(self, obj, name, value):
            maybe_fail("pvalidator")
            return value

    class Partner(HasTraits):
        sv = PVT()

    class Target(HasTraits):
        depth = Int(0)

    class Plain(HasTraits):
        pass

    class S3(Plain):
        pass

    class S1(HasTraits):
        pass

    class S2(HasTraits):
        pass

    class Mid(HasTraits):
        depth = Int(0)

    def f_s1(adaptee):
        maybe_fail("factory")
        return Target(depth=1)

    def f_s2(adaptee):
        maybe_fail("factory")
        return Mid(depth=1)

    def f_mid(adaptee):
        maybe_fail("factory")
        return Target(depth=adaptee.depth + 1)
    def f_s3(adaptee):
        maybe_fail("factory")
        return Target(depth=1)
    mgr = AdaptationManager()
    mgr.register_factory(f_s1, S1, Target)
    mgr.register_factory(f_s2, S2, Mid)
    mgr.register_factory(f_mid, Mid, Target)
    mgr.register_factory(f_s3, S3, Target)
    set_global_adaptation_manager(mgr)

    class F(HasTraits):
        v = VT()
        vq = VT()
        aux = Int
        dflt = Int
        p = Property(Int)
        _p = Int
        cp = Property(depends_on="v")
        lst = List(Item())
        sset = Set(Item())
        dct = Dict(KItem(), VItem())
        sup = Supports(Target)
        ea = Either(Instance(Target, adapt="yes"), Instance(Plain))
        lo = Int(0)
        hi = Int(10)
        start = Int
        dr = Range(low="lo", high="hi", value="start")
        sv = Int

        def _start_default(self):
            maybe_fail("drdflt")
            return 3

        def _dflt_default(self):
            maybe_fail("dflt")
            return 7

        def _get_p(self):
            maybe_fail("getter")
            return self._p

        def _set_p(self, x):
            maybe_fail("setter")
            self._p = x

        @cached_property
        def _get_cp(self):
            maybe_fail(CP_SITE[0])
            return self.v * 10

        def _v_changed(self, new):
            self._log.append("hstatic")
            maybe_fail("hstatic")
    _W.update(F=F, Target=Target, S=[Target, S1, S2], EA=[Target, S3], Partner=Partner, mgr=mgr)
    return _W


class Obj(object):
    def __init__(self):
        w = world()
        o = w["F"].__new__(w["F"])
        o.__dict__["_log"] = []
        w["F"].__init__(o)
        o.sup = w["Target"]()
        o.ea = w["Target"]()
        self.o = o
        self.partner = w["Partner"]()
        o.sync_trait("sv", self.partner, mutual=True)
        self.aux_calls = []
        o.on_trait_change(self._dyn, "v")
        o.observe(self._obs, "v")
        o.on_trait_change(lambda: None, "cp")          # a listener on cp: its getter runs inside v's notification
        o.on_trait_change(lambda: self.aux_calls.append(1), "aux")

    def _dyn(self, new):
        self.o._log.append("hdyn")
        maybe_fail("hdyn")

    def _obs(self, event):
        self.o._log.append("hobs")
        maybe_fail("hobs")

    def state(self):
        o = self.o
        sup = o.sup
        return {"v": o.v, "vq": o.vq, "dflt": o.__dict__.get("dflt", -1), "p": o._p, "lst": list(o.lst), "sset": sorted(o.sset),
                "dct": [[k, v] for k, v in sorted(o.dct.items(), key=lambda p: str(p[0]))],
                "sup": getattr(sup, "depth", 0) if sup is not None else -1,
                "ea": getattr(o.ea, "depth", 50) if o.ea is not None else -1,        # 50: a raw (unadapted) Plain object
                "dr": o.__dict__.get("_traits_cache_dr", -1), "start": o.__dict__.get("start", -1),
                "sva": o.sv, "svb": self.partner.sv,
                "cached": 1 if "_traits_cache_cp" in o.__dict__ else 0}


def conc(x):
    return "bad" if x == BAD else x


def step(ob, op, a, xs, f, probe_cp=True):
    w = world()
    o = ob.o
    pre = ob.state()
    o._log.clear()
    FAULT.update(site=f["site"], occ=f["occ"], exc=f["exc"], count={})
    CP_SITE[0] = "cpgetter_read" if op == "read_cp" else "cpgetter_notify"
    exc = ""
    try:
        if op == "set_v":
            o.v = conc(a)
        elif op == "setq_v":
            o.trait_setq(vq=conc(a))
        elif op == "read_dflt":
            o.dflt
        elif op == "read_p":
            o.p
        elif op == "set_p":
            o.p = conc(a)
        elif op == "read_cp":
            o.cp
        elif op == "lst_extend":
            o.lst.extend([conc(x) for x in xs])
        elif op == "sset_update":
            o.sset.update([conc(x) for x in xs])
        elif op == "sset_symdiff":
            o.sset.symmetric_difference_update([conc(x) for x in xs])
        elif op == "dct_update":
            o.dct.update(dict((conc(k), conc(a)) for k in xs))
        elif op == "dct_ior":
            d = o.dct          # (the in-place operator on the container itself, not an augmented ASSIGNMENT of the attribute,
            d |= dict((conc(k), conc(a)) for k in xs)      # which would also re-validate the whole value)
        elif op == "dct_setitem":
            o.dct[conc(xs[0])] = conc(a)
        elif op == "sup_assign":
            o.sup = w["S"][a]()
        elif op == "ea_assign":
            o.ea = w["EA"][a]()
        elif op == "set_dr":
            o.dr = 99 if a == BAD else a
        elif op == "read_dr":
            o.dr
        elif op == "sync_a":
            o.sv = a
        elif op == "sync_b":
            ob.partner.sv = a
        else:
            raise MachineryError(op)
    except EXC["TraitError"]:
        exc = "TraitError"
    except Exception as e:
        exc = type(e).__name__
    called = sorted(set(o._log))
    FAULT.update(site="none", occ=0, exc="", count={})
    CP_SITE[0] = "cpgetter_notify"
    post = ob.state()
    cp = -1
    if probe_cp:
        try:
            cp = o.cp
        except Exception:
            cp = -12345
    ob.aux_calls.clear()
    o.aux += 1
    return {"op": op, "a": a, "xs": xs, "f": f, "pre": pre, "post": post, "exc": exc, "called": called, "cp": cp,
            "probe_notifies": 1 if ob.aux_calls else 0}


SITES = ["drdflt", "pvalidator", "validator", "dflt", "getter", "setter", "item", "kitem", "vitem", "factory", "cpgetter_read", "cpgetter_notify", "hstatic", "hdyn", "hobs"]
OP_SITES = {"set_v": ["validator", "hstatic", "hdyn", "hobs", "cpgetter_notify"], "setq_v": ["validator"], "read_dflt": ["dflt"],
            "read_p": ["getter"], "set_p": ["setter"], "read_cp": ["cpgetter_read"], "lst_extend": ["item"],
            "sset_update": ["item"], "sset_symdiff": ["item"], "sup_assign": ["factory"], "ea_assign": ["factory"],
            "set_dr": ["drdflt"], "read_dr": ["drdflt"], "sync_a": ["pvalidator"], "sync_b": ["pvalidator"],
            "dct_update": ["kitem", "vitem"], "dct_ior": ["kitem", "vitem"], "dct_setitem": ["kitem", "vitem"]}


def run_history(rnd, steps, t):
    ob = Obj()
    out = []
    for s in range(steps):
        op = rnd.choice(sorted(OP_SITES))
        a, xs = 0, []
        if op in ("set_v", "setq_v", "set_p", "set_dr"):
            a = rnd.choice([1, 2, 3, 4, BAD])
        elif op in ("sync_a", "sync_b"):
            a = rnd.choice([1, 2, 3])
        elif op == "ea_assign":
            a = rnd.randint(0, 1)
        elif op == "sup_assign":
            a = rnd.randint(0, 2)
        elif op in ("lst_extend", "sset_update", "sset_symdiff", "dct_update", "dct_ior", "dct_setitem"):
            xs = [rnd.choice([1, 2, 3, 4, 5] + ([BAD] if rnd.random() < 0.15 else [])) for _ in range(rnd.randint(1 if op == "dct_setitem" else 0, 4))]
            if op.startswith("dct"):
                a = rnd.choice([1, 2, 3, BAD] if rnd.random() < 0.3 else [1, 2, 3])
            if op != "lst_extend":
                seen = set()
                xs = [x for x in xs if not (x in seen or seen.add(x))]
        if rnd.random() < 0.55:
            f = {"site": rnd.choice(OP_SITES[op]), "occ": rnd.randint(1, 3), "exc": rnd.choice(sorted(EXC))}
        else:
            f = {"site": "none", "occ": 0, "exc": ""}
        r = step(ob, op, a, xs, f, probe_cp=rnd.random() < 0.5)
        r.update(tid=t, step=s)
        out.append(r)
    return out


def run(rep, tier, seed):
    build.install()
    world()
    import warnings
    warnings.filterwarnings("ignore", message="default value resolution raised")
    rnd = random.Random(seed)
    work = tlc.scratch_dir("c19_")
    try:
        res = tlc.run_tlc("FaultsMC", "FaultsMC.cfg", timeout=3000, workers=4)
        rep.add_tlc("FaultsMC", res)
        ntr, steps = (1500, 18) if tier == "quick" else (25000, 30)
        trace = os.path.join(work, "trace.ndjson")
        n = 0
        nf = 0
        with open(trace, "w") as f:
            for t in range(ntr):
                for r in run_history(rnd, steps, t):
                    f.write(json.dumps(r, separators=(",", ":")) + "\n")
                    n += 1
                    nf += 1 if r["f"]["site"] != "none" else 0
                    if r["f"]["site"] == "item" and r["exc"] and len(rep.samples) < 2:
                        rep.sample(r)
        rep.case(n)
        judge.judge(rep, "Trace_Faults", "Trace_Faults", "Trace_Faults.cfg", trace, n,
                    sig_of=lambda rec, cl: "C19:judge:%s:%s:%s" % (rec["op"], rec["f"]["site"], "+".join(cl)))
        rep.rule = ("%d recorded steps (%d with an injected fault) of seeded histories on a real object with counting fault "
                    "injectors in every user callback site (custom validator, _name_default, property getter and setter, "
                    "cached-property getter during a read and during a dependency notification, List / Set item validator "
                    "at its k-th item, adapter factory k of a chain, static / on_trait_change / observe handlers) x 4 "
                    "exception classes; every step judged by TLC against Faults.tla (no effect + exception for deciding "
                    "callbacks, completion + all other handlers for change handlers), with the cached property and the "
                    "notification switch probed after every step; the history continues after each fault" % (n, nf))
        rep.extra.update(history_steps=n, faulted_steps=nf)
    finally:
        shutil.rmtree(work, ignore_errors=True)


def replay(rep, path):
    print(json.dumps(json.load(open(path)), indent=1)[:3000])
