"""C08 — observe handlers track exactly the objects currently reachable (spec/Observe.tla, Trace_Observe)."""
from . import observe_common as oc


def run(rep, tier, seed):
    from .. import tlc
    res = tlc.run_tlc("ObserveMC", "ObserveMC_%s.cfg" % tier, timeout=5000, workers=16, heap="8g")
    rep.add_tlc("ObserveMC", res)
    res1 = tlc.run_tlc("ObserveMC", "ObserveMC_sets_%s.cfg" % tier, timeout=5000, workers=8, heap="8g")
    rep.add_tlc("ObserveMC(sets, nested containers, dynamic traits)", res1)
    res1b = tlc.run_tlc("ObserveMC", "ObserveMC_box_%s.cfg" % tier, timeout=5000, workers=8, heap="8g")
    rep.add_tlc("ObserveMC(list-or-int attribute with required list items, deletions)", res1b)
    res2 = tlc.run_tlc("ObserveImpl", "ObserveImpl_%s.cfg" % tier, timeout=5000, workers=8, heap="8g")
    rep.add_tlc("ObserveImpl(refinement, no self-loops)", res2)
    # design-level evidence of known finding F8: with mutations of objects on a cycle allowed the refinement FAILS
    res3 = tlc.run_tlc("ObserveImpl", "ObserveImpl_F8.cfg", timeout=600, workers=1, heap="2g")
    rep.add_tlc("ObserveImpl(F8: cyclic mutation allowed - expected to violate TracksReachable)", res3, must_pass=False)
    rep.extra["F8_reproduced_by_TLC_on_ObserveImpl"] = (res3.violated == "TracksReachable")
    n = oc.run_for(rep, tier, seed, "C08")
    # a filtered link followed by more, on an object whose matching link traits grow at run time: FilteredLinks.tla
    from . import filtered_links
    filtered_links.run_for(rep, tier, seed)
    rep.rule = ("TLC: (a) ObserveMC - laws of the declarative reachability semantics over all heaps of the bound; (b) "
                "ObserveImpl - the incremental hook maintenance refines the declarative definition on all histories "
                "without self-loops; (c) %d recorded steps of seeded histories on a real pool of 4 interlinked objects "
                "(child / kids list / d dict with coercing keys, duplicates, sharing, cycles) under up to 3 registrations "
                "from a 16-expression catalogue, each step with the handler calls during the change and a reachability "
                "probe of every object afterwards, judged by TLC against Observe.tla; (d) histories on an object observed with "
                "'+tracked.value' whose matching link traits are reassigned, shared and extended with add_trait, judged against "
                "FilteredLinks.tla" % n)


def replay(rep, path):
    import json
    print(json.dumps(json.load(open(path)), indent=1)[:3000])
