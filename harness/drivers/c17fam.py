"""The class family of Adaptation.tla at module level (so that offers can NAME the classes: "module.Class")."""
import abc


class C17_A0(object):
    pass


class C17_A1(C17_A0):
    pass


class C17_A2(C17_A1):
    pass


class C17_A3(C17_A2):
    pass


class C17_A4(C17_A3):
    pass


class C17_B0(object):
    pass


class C17_B1(C17_B0):
    pass


class C17_D(C17_A1, C17_B0):
    pass


class C17_V(object):
    pass


class C17_W(object):
    pass


class C17_I(abc.ABC):
    pass


C17_I.register(C17_V)
C17_I.register(C17_A3)
