"""C15 — the observe mini-language means what its grammar and tables say.
spec/ObserveDSL.tla: TLC computes the complete bounded language (documented grammar) with parse trees and
denotations; every member is compiled by the real parser and its projected graphs compared with the
denotation (mode A); every token string up to the bound that is NOT in TLC's set must raise ValueError."""
import itertools
import json
import os
import random
import shutil

from .. import build, tlc, tlaval
from ..core import MachineryError

TOKENS = ["a", "b", "items", "+m", "*", ".", ":", ",", "[", "]"]
CONC = {"a": "alpha", "b": "b_2", "items": "items", "+m": "+meta", "*": "*", ".": ".", ":": ":", ",": ",", "[": "[", "]": "]"}
NAME_OF = {"alpha": "a", "b_2": "b", "meta": "m", "items": "items"}
# other spellings of the two NAME tokens: names that begin / end with the keyword, digits, underscores, capitals
# ... and word characters beyond ASCII after the first character (the documented NAME rule is [a-zA-Z_]\\w* on str)
NAMES_A = ["alpha", "itemsize", "items_total", "item", "xitems", "_a", "A9", "items_", "na\u00efve", "a\u00e9"]
NAMES_B = ["b_2", "items2", "b", "notitems", "Items", "itemss", "b\u00fc", "b_\u03b2"]
NAME_OF.update({n: "a" for n in NAMES_A})
NAME_OF.update({n: "b" for n in NAMES_B})
WS = ["", "", " ", "  ", "\t", "\n"]


NAMEY = ("a", "b", "items", "+m")


def text_of(tokens, rnd=None, names=None):
    """token string -> text; two adjacent name-like tokens are always separated by a blank (otherwise they
    would fuse into one longer name, which is a different token string)"""
    out = [rnd.choice(WS) if rnd else ""]
    prev = None
    for t in tokens:
        c = (names or CONC).get(t, CONC[t])
        if rnd and t == "+m" and rnd.random() < 0.3:
            c = "+ meta"
        if prev in NAMEY and t in ("a", "b", "items") and not out[-1]:
            out.append(" ")
        out.append(c)
        out.append(rnd.choice(WS) if rnd else "")
        prev = t
    return "".join(out)


def project_graphs(graphs):
    """compiled ObserverGraph list -> set of paths of (kind, name, notify, optional)"""
    from traits.observation._named_trait_observer import NamedTraitObserver
    from traits.observation._list_item_observer import ListItemObserver
    from traits.observation._dict_item_observer import DictItemObserver
    from traits.observation._set_item_observer import SetItemObserver
    from traits.observation._filtered_trait_observer import FilteredTraitObserver
    from traits.observation._metadata_filter import MetadataFilter
    from traits.observation._anytrait_filter import anytrait_filter

    def obs(o):
        if type(o) is NamedTraitObserver:
            return ("trait", NAME_OF.get(o.name, "?" + o.name), bool(o.notify), bool(o.optional))
        if type(o) is ListItemObserver:
            return ("list_items", "", bool(o.notify), bool(o.optional))
        if type(o) is DictItemObserver:
            return ("dict_items", "", bool(o.notify), bool(o.optional))
        if type(o) is SetItemObserver:
            return ("set_items", "", bool(o.notify), bool(o.optional))
        if type(o) is FilteredTraitObserver:
            if isinstance(o.filter, MetadataFilter):
                return ("metadata", NAME_OF.get(o.filter.metadata_name, "?"), bool(o.notify), False)
            if o.filter is anytrait_filter:
                return ("anytrait", "", bool(o.notify), False)
        return ("unknown:" + type(o).__name__, "", False, False)

    paths = set()

    def walk(g, pre):
        p = pre + (obs(g.node),)
        if not g.children:
            paths.add(p)
        for c in g.children:
            walk(c, p)
    for g in graphs:
        walk(g, ())
    return paths


def den_of(state_den):
    return set(tuple((o["k"], o["n"], bool(o["notify"]), bool(o["opt"])) for o in p) for p in state_den)


def clear_caches():
    """drop every lru cache in the parsing module (whatever functions currently carry one)"""
    from traits.observation import parsing
    for v in list(vars(parsing).values()):
        cc = getattr(v, "cache_clear", None)
        if callable(cc):
            cc()


def compile_fresh(text):
    from traits.observation import parsing
    clear_caches()
    return parsing.compile_str(text)


_R = {}


def root_object():
    from traits.api import HasTraits, Instance, Int
    if "cls" not in _R:
        class C15Root(HasTraits):
            alpha = Instance(HasTraits)
            b_2 = Instance(HasTraits)
            tagged = Instance(HasTraits, meta=True)
        _R["cls"] = C15Root
    return _R["cls"]()


def universe():
    from traits.api import HasTraits, Instance
    if "U" not in _R:
        class C15U(HasTraits):
            alpha = Instance(HasTraits)
            b_2 = Instance(HasTraits)
            items = Instance(HasTraits)
            tT = Instance(HasTraits, meta=True)
            tF = Instance(HasTraits, meta=False)
            t0 = Instance(HasTraits, meta=0)
            tE = Instance(HasTraits, meta="")
            tN = Instance(HasTraits, meta=None)
            plain = Instance(HasTraits)
        _R["U"] = C15U
    return _R["U"]


U_NAMES = {"alpha": "a", "b_2": "b", "items": "items", "tT": "tT", "tF": "tF", "t0": "t0", "tE": "tE", "tN": "tN", "plain": "plain"}


def fires(text):
    """(set of root traits, set of (holding trait, child trait)) whose assignment calls a handler observing `text`"""
    U = universe()
    root = U()
    kids = {}
    for n in U_NAMES:
        kids[n] = U()
        setattr(root, n, kids[n])
    calls = []
    try:
        root.observe(calls.append, text)
    except Exception as e:
        return "observe raised %s: %s" % (type(e).__name__, e)
    f2 = set()
    try:
        for c, kid in kids.items():
            for n in U_NAMES:
                del calls[:]
                setattr(kid, n, U())
                if calls:
                    f2.add((U_NAMES[c], U_NAMES[n]))
        f1 = set()
        for n in U_NAMES:
            del calls[:]
            setattr(root, n, U())
            if calls:
                f1.add(U_NAMES[n])
    except Exception as e:
        return "assignment raised %s: %s" % (type(e).__name__, e)
    return f1, f2


def notifier_census(obj):
    out = {}
    for n in ("alpha", "b_2", "tagged", "trait_added"):
        t = obj._trait(n, 0)
        out[n] = len(t._notifiers(False) or ()) if t is not None else 0
    return out


def roundtrip(text1, text2):
    """register by one spelling, remove by the other; returns '' or a description of what went wrong"""
    obj = root_object()
    calls = []

    def handler(event):
        calls.append(event)
    before = notifier_census(obj)
    try:
        obj.observe(handler, text1)
    except Exception as e:
        return "observe(%r) raised %s" % (text1, type(e).__name__)
    try:
        obj.observe(handler, text2, remove=True)
    except Exception as e:
        return "removal by %r of a registration made by %r raised %s: %s" % (text2, text1, type(e).__name__, e)
    after = notifier_census(obj)
    if before != after:
        return "notifiers left behind after observe(%r)/remove(%r): %r -> %r" % (text1, text2, before, after)
    obj.alpha = root_object()
    obj.b_2 = root_object()
    obj.tagged = root_object()
    if calls:
        return "handler still called after removal by %r (registered by %r)" % (text2, text1)
    return ""


def run(rep, tier, seed):
    build.install()
    from traits.observation import parsing
    rnd = random.Random(seed)
    work = tlc.scratch_dir("c15_")
    try:
        cfg = "ObserveDSL_%s.cfg" % tier
        dump = os.path.join(work, "lang")
        res = tlc.run_tlc("ObserveDSL", cfg, dump=dump, timeout=3000, workers=4, heap="12g")
        rep.add_tlc("ObserveDSL", res)
        lang = {}
        bytree = {}
        for st in tlaval.iter_dump_states(dump + ".dump"):
            toks = tuple(st["m"]["s"])
            lang[toks] = st
            bytree.setdefault(st["m"]["t"], []).append(toks)
        os.unlink(dump + ".dump")
        if not lang:
            raise MachineryError("empty language")
        maxlen = max(len(t) for t in lang)
        # the deep configuration: names and "." only, up to 9 tokens - groups nested under a parent whose branches begin
        # alike ("a.[b,b.a]", "a.[b.a,b.b]" needs 11), brackets within brackets
        res_d = tlc.run_tlc("ObserveDSL", "ObserveDSL_deep.cfg", dump=dump, timeout=3000, workers=8, heap="12g")
        rep.add_tlc("ObserveDSL[deep]", res_d)
        deep = {}
        for st in tlaval.iter_dump_states(dump + ".dump"):
            toks = tuple(st["m"]["s"])
            if toks not in lang:
                deep[toks] = st
        os.unlink(dump + ".dump")
        if tier == "quick":
            keys = sorted(deep)
            rnd.shuffle(keys)
            deep = {k: deep[k] for k in keys[:2500]}
        rep.extra["deep_members"] = len(deep)
        n_members = 0
        for toks, st in list(lang.items()) + list(deep.items()):
            den = den_of(st["den"])
            for variant in range(3):
                names = None if variant == 0 else {"a": rnd.choice(NAMES_A), "b": rnd.choice(NAMES_B)}
                text = text_of(toks, None if variant == 0 else rnd, names)
                n_members += 1
                case = {"tokens": list(toks), "text": text, "in_lark_grammar": bool(st["lark"])}
                try:
                    graphs = compile_fresh(text)
                except ValueError as e:
                    if not st["lark"]:
                        rep.violation("C15:F9a:bracketed-terminal-anytrait", "documented-valid %r rejected" % text, case)
                    elif st["dup"] and "unique" in str(e):
                        rep.violation("C15:F9b:duplicate-sibling-branches", "grammatical %r rejected: %s" % (text, e), case)
                    else:
                        rep.violation("C15:accept", "string of the grammar rejected: %r (%s)" % (text, e), case)
                    continue
                except Exception as e:
                    rep.violation("C15:accept-exc", "%r raised %s instead of compiling" % (text, type(e).__name__), case)
                    continue
                got = project_graphs(graphs)
                if got != den:
                    case["expected"] = sorted(den)
                    case["got"] = sorted(got)
                    rep.violation("C15:meaning", "%r denotes %r, specification %r" % (text, sorted(got), sorted(den)), case)
                    continue
                # parsing the same string twice yields equal patterns
                again = compile_fresh(text)
                if again != graphs or parsing.parse(text) != parsing.parse(text):
                    rep.violation("C15:reparse", "%r compiled twice gives different patterns" % text, case)
            rep.sample({"tokens": list(toks), "text": text_of(toks), "paths": sorted(den_of(st["den"]))}, limit=3)
        rep.case(n_members)
        # what the elements match: the handler registered by each text on a universe object must be called for exactly
        # the assignments the specification lists (Fires1: traits of the root, Fires2: traits of the objects it holds)
        n_fire = 0
        for toks, st in lang.items():
            if not st["lark"] or st["dup"]:
                continue
            n_fire += 1
            text = text_of(toks)
            exp1 = set(str(t) for t in st["f1"])
            exp2 = set((str(c), str(t)) for c, t in st["f2"])
            got = fires(text)
            if isinstance(got, str):
                rep.violation("C15:matching-exc", "observing %r on the universe object: %s" % (text, got), {"text": text})
            elif got != (exp1, exp2):
                rep.violation("C15:matching", "%r: handler called for root traits %r / child traits %r; the documented tables "
                              "give %r / %r" % (text, sorted(got[0]), sorted(got[1]), sorted(exp1), sorted(exp2)),
                              {"text": text, "tokens": list(toks)})
        rep.case(n_fire)
        # equal patterns iff equal meaning, graph by graph and in both directions of ==
        pool = {}
        for toks, st in lang.items():
            if not st["lark"] or st["dup"]:
                continue
            for g in compile_fresh(text_of(toks)):
                pool.setdefault(frozenset(project_graphs([g])), g)
        keys = list(pool)
        n_eq = 0
        npairs = 150000 if tier == "quick" else 10 ** 9
        allpairs = len(keys) * (len(keys) - 1) // 2 <= npairs
        pairs = (itertools.combinations(range(len(keys)), 2) if allpairs else
                 ((rnd.randrange(len(keys)), rnd.randrange(len(keys))) for _ in range(npairs)))
        for i, j in pairs:
            if i == j:
                continue
            n_eq += 1
            g, h = pool[keys[i]], pool[keys[j]]
            if g == h or h == g or not (g != h) or not (h != g):
                rep.violation("C15:unequal-meanings-equal-patterns", "graphs with different meanings compare equal: %r / %r"
                              % (sorted(keys[i]), sorted(keys[j])), {"a": sorted(keys[i]), "b": sorted(keys[j])})
        rep.case(n_eq)
        # equivalent spellings: same parse tree (extra brackets), whitespace variants; removal by text
        n_rt = 0
        groups = [g for g in bytree.values()]
        rnd.shuffle(groups)
        budget = 1500 if tier == "quick" else 12000
        for g in groups:
            if n_rt >= budget:
                break
            st = lang[g[0]]
            if not st["lark"] or st["dup"]:
                continue
            t1 = rnd.choice(g)
            t2 = rnd.choice(g)
            a, b = text_of(t1, rnd), text_of(t2, rnd)
            n_rt += 1
            try:
                if sorted(map(repr, compile_fresh(a))) != sorted(map(repr, compile_fresh(b))) or \
                        project_graphs(compile_fresh(a)) != project_graphs(compile_fresh(b)):
                    rep.violation("C15:spelling", "equivalent spellings %r / %r compile to different patterns" % (a, b),
                                  {"a": a, "b": b})
                    continue
            except ValueError:
                continue
            why = roundtrip(a, b)
            if why:
                rep.violation("C15:removal", why, {"a": a, "b": b})
        rep.case(n_rt)
        # the meaning of a text does not depend on what was compiled / registered before: use the texts
        # in class-level @observe declarations (stacked), instance-level observe and removal, then compile
        # again WITHOUT clearing the caches and compare with the denotation
        from traits.api import HasTraits, Instance, Int, observe
        members = [t for t, st in lang.items() if st["lark"] and not st["dup"]]
        n_use = 0
        for _ in range(60 if tier == "quick" else 600):
            t1, t2 = rnd.choice(members), rnd.choice(members)
            x1, x2 = text_of(t1), text_of(t2)
            clear_caches()
            try:
                class C15Use(HasTraits):
                    alpha = Instance(HasTraits)
                    b_2 = Instance(HasTraits)
                    tagged = Instance(HasTraits, meta=True)

                    @observe(x1)
                    @observe(x2)
                    def _h(self, event):
                        pass
                o = C15Use()
                o.observe(lambda e: None, x1)
                o.alpha = C15Use()
                o.tagged = C15Use()
            except Exception as e:
                rep.violation("C15:use", "using %r and %r in @observe/observe raised %s: %s" % (x1, x2, type(e).__name__, e),
                              {"a": x1, "b": x2})
            for t, x in ((t1, x1), (t2, x2)):
                n_use += 1
                got = project_graphs(parsing.compile_str(x))
                if got != den_of(lang[t]["den"]) or len(parsing.compile_str(x)) != len(compile_fresh(x)):
                    rep.violation("C15:meaning-after-use", "after being used in stacked @observe declarations %r denotes %r"
                                  % (x, sorted(got)), {"text": x, "a": x1, "b": x2})
        rep.case(n_use)
        # complement: every token string up to the bound that TLC did not put in the language is rejected
        bound = maxlen if tier == "quick" else maxlen - 1
        n_rej = 0
        for n in range(1, bound + 1):
            for toks in itertools.product(TOKENS, repeat=n):
                if toks in lang:
                    continue
                n_rej += 1
                text = text_of(toks)
                try:
                    compile_fresh(text) if n_rej % 50 == 0 else parsing.compile_str(text)
                    rep.violation("C15:reject", "string outside the grammar accepted: %r" % text, {"tokens": list(toks), "text": text})
                except ValueError:
                    pass
                except Exception as e:
                    rep.violation("C15:reject-exc", "%r raised %s, not ValueError" % (text, type(e).__name__),
                                  {"tokens": list(toks), "text": text})
        # strings with characters outside the alphabet / broken names are rejected with ValueError too
        junk = ["", " ", "1", "a.1", "a-b", "a$", "+", "+1x", "a..b", "a b", "alpha beta", "a\x0bb", "\xe9", "a.(b)", "a;b",
                "items items", "it ems", "a,,b", "[a", "a]", "[]", "a.[]", "*a", "a*", "+*", "a.+", "++m", "a:b:", ":a"]
        for text in junk:
            n_rej += 1
            try:
                compile_fresh(text)
                rep.violation("C15:reject", "string outside the grammar accepted: %r" % text, {"text": text})
            except ValueError:
                pass
            except Exception as e:
                rep.violation("C15:reject-exc", "%r raised %s, not ValueError" % (text, type(e).__name__), {"text": text})
        rep.case(n_rej)
        rep.rule = ("TLC computes the complete documented language up to %d tokens (%d strings) with parse trees and "
                    "denotations; each member compiled in 3 spellings (canonical / whitespace variants) and compared with "
                    "the denotation, recompiled for equality; %d equivalent-spelling pairs registered by one text and "
                    "removed by the other on a real object; all %d remaining token strings up to %d tokens (plus junk "
                    "strings) must raise ValueError" % (maxlen, len(lang), n_rt, n_rej, bound))
        rep.exhaustive = True
        rep.extra.update(language_size=len(lang), max_tokens=maxlen, rejected_strings=n_rej, roundtrips=n_rt,
                         matching_cases=n_fire, graph_pairs_compared=n_eq)
    finally:
        shutil.rmtree(work, ignore_errors=True)


def replay(rep, path):
    build.install()
    obj = json.load(open(path))
    c = obj.get("case") or {}
    text = c.get("text") or c.get("a")
    try:
        print(text, "->", sorted(project_graphs(compile_fresh(text))))
    except Exception as e:
        print(text, "->", type(e).__name__, e)
