"""C03 — compiled fast validators decide exactly like the Python validators (see validate_common.py)."""
from . import validate_common as vc


def run(rep, tier, seed):
    vc.run_for(rep, tier, seed, "C03")


replay = vc.replay
