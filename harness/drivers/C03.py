"""C03 — compiled fast validators decide exactly like the Python validators (see validate_common.py; This / self and
Module: more_types.py, spec/MoreTypes.tla)."""
import json

from . import validate_common as vc
from . import more_types as mt


def run(rep, tier, seed):
    vc.run_for(rep, tier, seed, "C03")
    rule = rep.rule
    mt.run_for(rep, tier, seed, "C03")
    rep.rule = rule + "; This / self (self_type validator) and Module (coerce): compiled path against Python path on every value of MoreTypesMC"


def replay(rep, path):
    obj = json.load(open(path))
    rec = (obj.get("case") or {}).get("record") or {}
    if isinstance(rec.get("tok"), dict):
        return mt.replay_record(rec)
    return vc.replay(rep, path)
