"""C08 for a filtered link followed by more (spec/FilteredLinks.tla): observe(h, "+tracked.value") on an object whose
matching link traits can grow at run time (add_trait)."""
import json
import os
import random
import shutil

from .. import build, tlc, judge

_K = {}


def classes():
    if _K:
        return _K
    build.install()
    from traits.api import HasTraits, Instance, Int

    class Child(HasTraits):
        value = Int

    class Holder(HasTraits):
        t1 = Instance(Child, tracked=True)
        t2 = Instance(Child, tracked=0)          # (the metadata only has to be defined)
        other = Instance(Child)                  # no metadata: never matches
    _K.update(Child=Child, Holder=Holder)
    return _K


def run_history(rnd, steps, t):
    from traits.api import Instance
    from traits.observation.exceptions import NotifierNotFound
    k = classes()
    o = k["Holder"]()
    kids = [None] + [k["Child"]() for _ in range(3)]
    o.other = kids[3]
    log = []

    def handler(event):
        log.append(event.name)
    st = {"t": [0, 0, 0], "has3": 0, "reg": 0}
    out = []

    def probe():
        r = []
        for c in (1, 2, 3):
            del log[:]
            kids[c].value += 1
            r.append(len(log))
        del log[:]
        return r
    for s in range(steps):
        op = rnd.choice(["observe", "unobserve", "assign", "assign", "assign", "add3", "change", "change"])
        kk, c = rnd.randint(1, 3), rnd.randint(0, 3)
        if op == "add3" and st["has3"]:
            op = "assign"
        if op == "assign" and kk == 3 and not st["has3"]:
            kk = rnd.randint(1, 2)
        if op == "change":
            c = rnd.randint(1, 3)
        if op == "observe" and st["reg"] >= 2:
            op = "unobserve"
        pre = {"t": list(st["t"]), "has3": st["has3"], "reg": st["reg"]}
        exc = ""
        del log[:]
        try:
            if op == "observe":
                o.observe(handler, "+tracked.value")
                st["reg"] += 1
            elif op == "unobserve":
                o.observe(handler, "+tracked.value", remove=True)
                st["reg"] -= 1
            elif op == "assign":
                setattr(o, "t%d" % kk, kids[c])
                st["t"][kk - 1] = c
            elif op == "add3":
                o.add_trait("t3", Instance(k["Child"], tracked=True))
                st["has3"] = 1
            else:
                kids[c].value += 1
        except NotifierNotFound:
            exc = "NotifierNotFound"
        except Exception as e:
            exc = type(e).__name__
        calls = len(log)
        out.append({"tid": t, "step": s, "op": op, "k": kk, "c": c, "pre": pre, "exc": exc, "calls": calls, "probe": probe()})
    return out


def run_for(rep, tier, seed):
    build.install()
    classes()
    rnd = random.Random(seed + 777)
    work = tlc.scratch_dir("flt_")
    try:
        res = tlc.run_tlc("FilteredLinksMC", "FilteredLinksMC.cfg", timeout=1200, workers=4)
        rep.add_tlc("FilteredLinksMC", res)
        ntr, steps = (400, 14) if tier == "quick" else (8000, 24)
        trace = os.path.join(work, "trace.ndjson")
        n = 0
        with open(trace, "w") as f:
            for t in range(ntr):
                for r in run_history(rnd, steps, t):
                    f.write(json.dumps(r, separators=(",", ":")) + "\n")
                    n += 1
        rep.case(n)
        judge.judge(rep, "Trace_FilteredLinks", "Trace_FilteredLinks", "Trace_FilteredLinks.cfg", trace, n,
                    sig_of=lambda rec, cl: "C08:filtered-link:%s:%s" % (rec["op"], "+".join(cl)))
        rep.extra["filtered_link_steps"] = n
    finally:
        shutil.rmtree(work, ignore_errors=True)
