"""C09 — observe registration is counted, reversible, failure-atomic and weak (spec/Observe.tla, Trace_Observe)."""
from . import observe_common as oc


def run(rep, tier, seed):
    from .. import tlc
    res = tlc.run_tlc("ObserveMC", "ObserveMC_%s.cfg" % tier, timeout=5000, workers=16, heap="8g")
    rep.add_tlc("ObserveMC", res)
    res2 = tlc.run_tlc("ObserveImpl", "ObserveImpl_%s.cfg" % tier, timeout=5000, workers=8, heap="8g")
    rep.add_tlc("ObserveImpl(refinement, no self-loops)", res2)
    n = oc.run_for(rep, tier, seed, "C09")
    # several observed objects (two of them equal but distinct) sharing a downstream object: RegCount.tla
    from . import reg_count
    reg_count.run_for(rep, tier, seed)
    rep.rule = ("TLC: (a) ObserveMC - laws of the declarative reachability semantics over all heaps of the bound; (b) "
                "ObserveImpl - the incremental hook maintenance refines the declarative definition on all histories "
                "without self-loops; (c) %d recorded steps of seeded histories on a real pool of 4 interlinked objects "
                "(child / kids list / d dict with coercing keys, duplicates, sharing, cycles) under up to 3 registrations "
                "from a 16-expression catalogue, each step with the handler calls during the change and a reachability "
                "probe of every object afterwards, judged by TLC against Observe.tla; (d) registrations made on three observed "
                "objects sharing one downstream object - two of them equal but distinct - judged against RegCount.tla" % n)


def replay(rep, path):
    import json
    print(json.dumps(json.load(open(path)), indent=1)[:3000])
