"""Importable classes for Instance traits declared by dotted name (lazy class resolution)."""


class A(object):
    pass


class B(A):
    pass


class C(object):
    pass
