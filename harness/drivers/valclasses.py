"""Importable classes for Instance traits declared by dotted name (lazy class resolution)."""


class A(object):
    pass


class B(A):
    pass


class C(object):
    pass


class Cell(object):
    """items of container traits declared as Instance("...Cell"): cell number n stands for the item n of the
    specifications; a Cell equals (and hashes like) its number, so a number finds it in a list, dict or set"""

    def __init__(self, n):
        self.n = n

    def _num(self, other):
        return other.n if isinstance(other, Cell) else other

    def __eq__(self, other):
        return isinstance(other, (Cell, int)) and not isinstance(other, bool) and self.n == self._num(other)

    def __ne__(self, other):
        return not self.__eq__(other)

    def __hash__(self):
        return hash(self.n)

    def __lt__(self, other):
        return self.n < self._num(other)

    def __gt__(self, other):
        return self.n > self._num(other)

    def __repr__(self):
        return "Cell(%d)" % self.n
