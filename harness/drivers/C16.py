"""C16 — legacy on_trait_change extended names agree with observe on unshared graphs.
The same declarative specification (spec/Observe.tla) judges BOTH mechanisms: a legacy name is mapped to its
corresponding observe expression; histories keep the heap a forest (every object referenced from at most one place)."""
import gc
import json
import os
import random
import shutil

from .. import build, tlc
from . import observe_common as oc

NOBJ = 6
# legacy extended name -> the corresponding observe expression of the catalogue
NAMES = {"value": "value", "child.value": "child.value", "child:value": "child:value",
         "child.child.value": "child.child.value", "kids.value": "kids.items.value", "kids:value": "kids:items:value",
         "child.kids.value": "child.kids.items.value", "kids.child.value": "kids.items.child.value",
         "d.value": "d.items.value", "+tracked.value": "+tracked.value"}
NH = 3


class TreePool(object):
    def __init__(self, veq=0):
        build.install()
        from . import obsclasses
        self.veq = veq
        self.objs = [None] + [(obsclasses.VNode if veq else obsclasses.Node)() for _ in range(NOBJ)]
        for k in range(1, NOBJ + 1):
            self.objs[k].tokn = k
        self.tok = {id(o): k for k, o in enumerate(self.objs) if o is not None}
        self.llog = {h: [] for h in range(1, NH + 1)}      # legacy handlers
        self.olog = {h: [] for h in range(1, NH + 1)}      # observe handlers
        self.lh = {h: self._legacy(h) for h in range(1, NH + 1)}
        self.oh = {h: self._obs(h) for h in range(1, NH + 1)}
        self.regs = {}       # h -> legacy name (both mechanisms registered together)
        self.sig = {}        # h -> number of arguments of the registered legacy handler

    def _legacy(self, h):
        """the legacy handler of slot h in each of the five accepted signatures (one of them is registered at a time)"""
        log = self.llog[h]

        def h0():
            log.append("")

        def h1(new):
            log.append("")

        def h2(name, new):
            log.append(name)

        def h3(obj, name, new):
            log.append(name)

        def h4(obj, name, old, new):
            log.append(name)
        return [h0, h1, h2, h3, h4]

    def _obs(self, h):
        log = self.olog[h]

        def handler(event):
            log.append(1)
        return handler

    def heap(self):
        child, kids, d, vals = [], [], [], []
        for k in range(1, NOBJ + 1):
            o = self.objs[k]
            c = o.__dict__.get("child")
            child.append(self.tok.get(id(c), 0) if c is not None else 0)
            kids.append([self.tok.get(id(x), 0) for x in o.__dict__.get("kids", ())])
            d.append([[int(key), self.tok.get(id(v), 0)] for key, v in o.__dict__.get("d", {}).items()])
            vals.append(o.__dict__.get("value", 0))
        return {"child": child, "kids": kids, "d": d, "vals": vals}

    def clear(self):
        for h in range(1, NH + 1):
            self.llog[h].clear()
            self.olog[h].clear()

    def counts(self):
        return [len(self.llog[h]) for h in range(1, NH + 1)], [len(self.olog[h]) for h in range(1, NH + 1)]

    def probe(self):
        lp = [[0] * NOBJ for _ in range(NH)]
        op = [[0] * NOBJ for _ in range(NH)]
        for k in range(1, NOBJ + 1):
            self.clear()
            self.objs[k].value += 1
            for h in range(1, NH + 1):
                lp[h - 1][k - 1] = len(self.llog[h])
                op[h - 1][k - 1] = len(self.olog[h])
        self.clear()
        return lp, op


def referenced(heap):
    s = set()
    for k in range(NOBJ):
        s.add(heap["child"][k])
        s.update(heap["kids"][k])
        s.update(v for _, v in heap["d"][k])
    s.discard(0)
    return s


def ancestors(heap, x):
    """objects from which x is reachable (x included)"""
    out, todo = {x}, [x]
    while todo:
        y = todo.pop()
        for k in range(1, NOBJ + 1):
            if k in out:
                continue
            if heap["child"][k - 1] == y or y in heap["kids"][k - 1] or any(v == y for _, v in heap["d"][k - 1]):
                out.add(k)
                todo.append(k)
    return out


def tree_mut(rnd, heap):
    """a mutation that keeps the heap a forest: inserted objects are referenced from nowhere and are not ancestors"""
    NONE = oc.NONE
    x = 1 if rnd.random() < 0.5 else rnd.randint(1, NOBJ)
    free = [k for k in range(2, NOBJ + 1) if k not in referenced(heap) and k not in ancestors(heap, x)]
    m = {"t": "", "op": "", "x": x, "a": [0, 0, 0], "xs": [], "ps": [], "h": 0, "e": ""}
    n = len(heap["kids"][x - 1])
    cur = list(heap["kids"][x - 1])
    u = rnd.random()
    fresh = lambda: free.pop(rnd.randrange(len(free))) if free else None
    if u < 0.18:
        y = fresh() if rnd.random() < 0.8 else 0
        m.update(t="child", a=[y or 0, 0, 0])
    elif u < 0.3:
        # reassign the list: an EQUAL but distinct list (no change to report, yet the new list is the one to follow from
        # now on), a permutation of the same objects, or fresh ones
        if cur and rnd.random() < 0.3:
            xs = list(cur)
        elif cur and rnd.random() < 0.5:
            xs = list(cur)
            rnd.shuffle(xs)
        else:
            xs = [y for y in (fresh() for _ in range(rnd.randint(0, 2))) if y]
        m.update(t="kidsassign", xs=xs)
    elif u < 0.62:
        op = rnd.choice(["append", "append", "insert", "pop", "delitem", "reverse", "clear", "setitem", "setslice", "extend"])
        a, xs = [0, 0, 0], []
        if op in ("append", "insert", "setitem"):
            y = fresh()
            if not y or (op == "setitem" and n == 0):
                op = "reverse"
            else:
                xs = [y]
                a[0] = rnd.randint(-n, n) if op == "insert" else rnd.randrange(-n, n) if op == "setitem" else 0
        elif op == "extend":
            xs = [y for y in (fresh() for _ in range(rnd.randint(0, 2))) if y]
        elif op == "setslice":
            if cur and rnd.random() < 0.5:
                # rotate in place: every object stays referenced exactly once
                xs = cur[1:] + cur[:1]
                a = [NONE, NONE, NONE]
            else:
                a = [rnd.randint(0, n), rnd.randint(0, n), NONE]
                xs = [y for y in (fresh() for _ in range(rnd.randint(0, 2))) if y]
        elif op in ("pop", "delitem"):
            a[0] = (NONE if op == "pop" and rnd.random() < 0.5 else rnd.randint(-n - 1, n))
        m.update(t="kids", op=op, a=a, xs=xs)
    elif u < 0.86:
        op = rnd.choice(["setitem", "setitem", "update", "update", "ior", "delitem", "pop", "clear"])
        a, ps = [0, 0, 0], []
        keys = [1, 2, 3]
        if op == "setitem":
            y = fresh()
            if y:
                a = [rnd.choice(keys + [11, 12]), y, 0]
            else:
                op = "clear"
        elif op in ("update", "ior"):
            for k in rnd.sample(keys, rnd.randint(1, 2)):
                y = fresh()
                if y:
                    ps.append([k, y])
        elif op in ("delitem", "pop"):
            a = [rnd.choice(keys), 1 if op == "pop" else 0, 0]
        m.update(t="d", op=op, a=a, ps=ps)
    elif u < 0.9:
        # reassign the dict: an equal but distinct one, or fresh objects
        curd = [list(p) for p in heap["d"][x - 1]]
        if curd and rnd.random() < 0.6:
            ps = curd
        else:
            ps = [[k, y] for k, y in ((k, fresh()) for k in rnd.sample([1, 2, 3], rnd.randint(0, 2))) if y]
        m.update(t="dassign", ps=ps)
    else:
        m.update(t="value", x=rnd.randint(1, NOBJ))
    return m


def run_history(rnd, steps, t):
    pool = TreePool(veq=1 if rnd.random() < 0.4 else 0)
    root = pool.objs[1]
    out = []
    for s in range(steps):
        pre = pool.heap()
        regs1 = [{"h": h, "e": NAMES[nm], "n": 1, "name": nm, "sig": pool.sig.get(h, 4)} for h, nm in sorted(pool.regs.items())]
        pool.clear()
        exc = ""
        u = rnd.random()
        if u < 0.2 or (not pool.regs and u < 0.5):
            h = rnd.randint(1, NH)
            if h in pool.regs:
                nm = pool.regs[h]
                m = {"t": "unobserve", "h": h, "e": NAMES[nm], "op": "", "x": 1, "a": [0, 0, 0], "xs": [], "ps": []}
                try:
                    root.on_trait_change(pool.lh[h][pool.sig[h]], nm, remove=True)
                    root.observe(pool.oh[h], NAMES[nm], remove=True)
                    del pool.regs[h]
                except Exception as ex:
                    exc = type(ex).__name__
            else:
                nm = rnd.choice(sorted(NAMES))
                m = {"t": "observe", "h": h, "e": NAMES[nm], "op": "", "x": 1, "a": [0, 0, 0], "xs": [], "ps": []}
                try:
                    # (handlers taking fewer than three arguments are documented as incompatible with changes of an
                    # intermediate CONTAINER link - "Dynamic Handler Special Cases": the short signatures go with
                    # Instance links only)
                    pool.sig[h] = rnd.choice([0, 1, 2, 3, 4, 4] if not ({"kids", "d"} & set(nm.replace(":", ".").split("."))) else [3, 4])
                    root.on_trait_change(pool.lh[h][pool.sig[h]], nm)
                    root.observe(pool.oh[h], NAMES[nm])
                    pool.regs[h] = nm
                except Exception as ex:
                    exc = type(ex).__name__
        else:
            m = tree_mut(rnd, pre)
            try:
                oc.apply_mut(pool, m)
            except Exception as ex:
                exc = type(ex).__name__
        lc, ocn = pool.counts()
        post = pool.heap()
        regs2 = [{"h": h, "e": NAMES[nm], "n": 1, "name": nm, "sig": pool.sig.get(h, 4)} for h, nm in sorted(pool.regs.items())]
        lp, op = pool.probe()
        out.append({"tid": t, "step": s, "m": m, "exc": exc, "pre": pre, "post": post, "regs": regs1, "regs2": regs2,
                    "lcalls": lc, "ocalls": ocn, "lprobe": lp, "oprobe": op, "veq": pool.veq})
        if exc and exc not in ("IndexError", "KeyError"):
            break
    return out


def run(rep, tier, seed):
    build.install()
    rnd = random.Random(seed)
    work = tlc.scratch_dir("c16_")
    try:
        ntr, steps = (1500, 16) if tier == "quick" else (25000, 24)
        trace = os.path.join(work, "trace.ndjson")
        n = 0
        sample = None
        with open(trace, "w") as f:
            for t in range(ntr):
                for r in run_history(rnd, steps, t):
                    f.write(json.dumps(r, separators=(",", ":")) + "\n")
                    n += 1
                    if sample is None and r["regs"] and r["m"]["t"] == "kids":
                        sample = r
        rep.case(n)
        rep.sample(sample)

        def sig_of(rec, cl):
            what = rec["m"]["t"] + ("." + rec["m"]["op"] if rec["m"].get("op") else "")
            return "C16:judge:%s:%s" % (what, "+".join(cl))
        oc.judge_filtered(rep, trace, n, sig_of, "Trace_Legacy", "Trace_Legacy.cfg")
        rep.rule = ("%d recorded steps of seeded histories on a real pool of %d objects whose heap is kept a forest (fresh "
                    "objects at every insertion, in-place permutations allowed); a legacy on_trait_change handler and an "
                    "observe handler are registered together for each of %d extended names / corresponding expressions; "
                    "after every step both are probed on every object and TLC judges both against Observe.tla (hence "
                    "against each other): final-attribute reachability, intermediate links '.' vs ':', silence after "
                    "removal" % (n, NOBJ, len(NAMES)))
        rep.extra["history_steps"] = n
    finally:
        shutil.rmtree(work, ignore_errors=True)


def replay(rep, path):
    print(json.dumps(json.load(open(path)), indent=1)[:3000])
