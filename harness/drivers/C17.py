"""C17 — adaptation finds an adapter chain iff one exists, and a shortest one.
spec/Adaptation.tla (declarative chains), AdaptationMC (the _adapt algorithm model-checked against it; also
enumerates the configurations), Trace_Adaptation (judge of recorded adapt()/Supports/AdaptsTo executions)."""
import abc
import json
import os
import random
import shutil

from .. import build, tlc, cases, judge
from ..core import MachineryError

_fam = {}


def family():
    """The real class family of Adaptation.tla (unique names: offers are keyed by module.name)."""
    if _fam:
        return _fam
    build.install()

    from .c17fam import (C17_A0, C17_A1, C17_A2, C17_A3, C17_A4, C17_B0, C17_B1, C17_D, C17_V, C17_W, C17_I)
    _fam.update(A0=C17_A0, A1=C17_A1, A2=C17_A2, A3=C17_A3, A4=C17_A4, B0=C17_B0, B1=C17_B1, D=C17_D, V=C17_V, I=C17_I, W0=C17_W, W1=C17_W)
    _fam["_late_registered"] = False
    return _fam


def register_late():
    f = family()
    if not f["_late_registered"]:
        f["I"].register(f["W0"])
        f["_late_registered"] = True


_adapter_classes = {}


def adapter_class(to_name):
    """adapters produced by an offer provide the offer's to_protocol"""
    if to_name not in _adapter_classes:
        base = family()[to_name]

        class Ad(base):
            def __init__(self, oid, adaptee, depth):
                self.oid = oid
                self.adaptee = adaptee
                self.depth = depth
        Ad.__name__ = "C17_Adapter_" + to_name
        _adapter_classes[to_name] = Ad
    return _adapter_classes[to_name]


def chain_of(x):
    out = []
    while hasattr(x, "oid"):
        out.append(x.oid)
        x = x.adaptee
    return out[::-1]


def make_factory(oid, to_name, mode):
    cls = adapter_class(to_name)

    def factory(adaptee):
        pos = getattr(adaptee, "depth", 0) + 1
        ok = (mode == "always" or (mode == "first" and pos == 1) or (mode == "later" and pos > 1)
              or (mode == "deep" and pos > 2))
        return cls(oid, adaptee, pos) if ok else None
    return factory


_H = {}


def trait_holder(kind, tgt):
    key = (kind, tgt)
    if key not in _H:
        from traits.api import HasTraits, Supports, AdaptsTo, Either, Int
        if kind == "either":
            # Supports as an alternative of a compound trait (its own case inside the compiled compound validator)
            tr = Either(Supports(family()[tgt]), Int)
        else:
            tr = (Supports if kind == "supports" else AdaptsTo)(family()[tgt])
        _H[key] = type("C17_H_%s_%s" % (kind, tgt), (HasTraits,), {"x": tr})
    return _H[key]


_NAME = {"A0": "C17_A0", "A1": "C17_A1", "A2": "C17_A2", "A3": "C17_A3", "A4": "C17_A4", "B0": "C17_B0", "B1": "C17_B1",
         "D": "C17_D", "V": "C17_V", "I": "C17_I", "W0": "C17_W", "W1": "C17_W"}


def execute(offers, src, tgt, via, order=None, lazy=-1):
    """offers: list of dict(from,to,ok). order: registration order (list of indices)"""
    build.install()
    from traits.adaptation.adaptation_manager import AdaptationManager, set_global_adaptation_manager
    from traits.adaptation.adaptation_offer import AdaptationOffer
    from traits.adaptation.adaptation_error import AdaptationError
    from traits.trait_errors import TraitError
    fam = family()
    if any(t in ("W1",) for t in [src, tgt] + [o["from"] for o in offers] + [o["to"] for o in offers]):
        register_late()
    elif any(t == "W0" for t in [src, tgt] + [o["from"] for o in offers] + [o["to"] for o in offers]):
        if fam["_late_registered"]:
            raise MachineryError("W0 case after late registration")
    mgr = AdaptationManager()
    idx = order if order is not None else list(range(len(offers)))
    # the "...2" entry points assign twice: once with only the first half of the offers registered, then - after the
    # remaining offers were registered - the SAME object again; the second assignment is judged (full configuration)
    later = idx[len(idx) // 2:] if via.endswith("2") else []

    def reg(k):
        o = offers[k]
        if lazy >= 0:
            # the protocols are NAMED ("module.Class"), through a facade module that re-exports the classes and that
            # nobody has imported yet: the offer resolves them when it is first looked at
            mod = "harness.drivers.c17facade%d." % lazy
            mgr.register_offer(AdaptationOffer(factory=make_factory(k + 1, o["to"], o["ok"]),
                                               from_protocol=mod + _NAME[o["from"]], to_protocol=mod + _NAME[o["to"]]))
            return
        mgr.register_offer(AdaptationOffer(factory=make_factory(k + 1, o["to"], o["ok"]),
                                           from_protocol=fam[o["from"]], to_protocol=fam[o["to"]]))
    for k in idx:
        if k not in later:
            reg(k)
    obj = fam[src]()
    target = fam[tgt]
    sentinel = object()
    result, chain, isinst = "none", [], 0
    try:
        if via == "adapt":
            r = mgr.adapt(obj, target)
        elif via == "adapt_default":
            r = mgr.adapt(obj, target, sentinel)
        elif via == "supports_protocol":
            r = obj if mgr.supports_protocol(obj, target) else sentinel
            if r is obj:
                result = "adaptable"
                r = None
        else:
            set_global_adaptation_manager(mgr)
            kind = via.rstrip("2")
            h = trait_holder(kind, tgt)()
            if via.endswith("2"):
                try:
                    h.x = obj
                except TraitError:
                    pass
                for k in later:
                    reg(k)
            h.x = obj
            r = h.x
            if kind == "adaptsto":
                # the attribute holds the original object, its shadow x_ the adapter
                if r is not obj:
                    result = "adaptsto-did-not-store-original"
                    r = None
                else:
                    r = h.x_
        if r is None:
            pass
        elif r is sentinel:
            result = "none"
        elif r is obj:
            result = "self"
        else:
            result = "adapter"
            chain = chain_of(r)
            isinst = 1 if isinstance(r, target) else 0
    except (AdaptationError, TraitError):
        result = "none"
    return {"offers": offers, "src": src, "tgt": tgt, "via": via, "result": result, "chain": chain, "isinst": isinst, "lazy": lazy}


VIAS = ["adapt", "adapt_default", "supports_protocol", "supports", "adaptsto", "supports2", "adaptsto2", "either"]


def case_fn(st, rep):
    offers = [dict(o) for o in st["offers"]]
    n = len(offers)
    # registration order and entry point vary deterministically with the case
    h = hash((st["src"], st["tgt"], tuple((o["from"], o["to"], o["ok"]) for o in offers)))
    order = list(range(n))
    if h & 1:
        order.reverse()
    via = VIAS[(h >> 1) % len(VIAS)]
    if rep == 1:
        if via == "adapt":
            return None
        via = "adapt"
    r = execute(offers, str(st["src"]), str(st["tgt"]), via, order, lazy=(h >> 5) % 8 if (h >> 4) & 1 and via in ("adapt", "adapt_default") else -1)
    return {"fail": None, "line": r, "sample": r}


def random_lines(seed, n, phase):
    """larger random configurations (3-7 offers, all ok modes, chains/cycles); phase 0 uses W0 (before the
    late ABC registration), phase 1 uses W1 (after)"""
    rnd = random.Random(seed * 2 + phase)
    types = ["A0", "A1", "A2", "A3", "A4", "B0", "B1", "D", "V", "I", "W0" if phase == 0 else "W1"]
    modes = ["always", "always", "always", "never", "first", "later", "deep"]
    out = []
    for _ in range(n):
        k = rnd.randint(3, 7)
        # bias towards chains: pick a random walk of types and add offers along it, plus noise
        offers = []
        walk = [rnd.choice(types) for _ in range(rnd.randint(2, 5))]
        for a, b in zip(walk, walk[1:]):
            offers.append({"from": a, "to": b, "ok": rnd.choice(modes)})
        while len(offers) < k:
            offers.append({"from": rnd.choice(types), "to": rnd.choice(types), "ok": rnd.choice(modes)})
        rnd.shuffle(offers)
        offers = offers[:7]
        src = rnd.choice([t for t in types if t != "I"]) if rnd.random() < 0.5 else walk[0] if walk[0] != "I" else "A2"
        if rnd.random() < 0.3:
            # several direct offers for strict ancestors of a deep adaptee, an unrelated one registered in between
            src = rnd.choice(["A3", "A4"])
            tgt0 = rnd.choice(["B0", "V", "B1"])
            offers = ([{"from": a, "to": tgt0, "ok": "always"} for a in rnd.sample(["A0", "A1", "A2", "A3"], rnd.randint(2, 3))]
                      + ([{"from": "I", "to": rnd.choice([tgt0, "B0", "V"]), "ok": "always"}] if rnd.random() < 0.7 else []) + offers[:2])
            rnd.shuffle(offers)
            walk = [src, tgt0]
        tgt = rnd.choice(types) if rnd.random() < 0.5 else walk[-1]
        order = list(range(len(offers)))
        rnd.shuffle(order)
        via = rnd.choice(VIAS)
        out.append(execute(offers, src, tgt, via, order, lazy=rnd.randint(0, 7) if via in ("adapt", "adapt_default") and rnd.random() < 0.3 else -1))
    return out


def run(rep, tier, seed):
    build.install()
    work = tlc.scratch_dir("c17_")
    try:
        res = tlc.run_tlc("AdaptationMC", "AdaptationMC_%s.cfg" % tier, timeout=5000, workers=16,
                          heap="8g" if tier == "quick" else "24g")
        rep.add_tlc("AdaptationMC(algorithm vs declarative)", res)
        dump = os.path.join(work, "cfgs")
        res2 = tlc.run_tlc("AdaptationMC", "AdaptationMC_configs_%s.cfg" % tier, dump=dump, timeout=3000, workers=4)
        rep.add_tlc("AdaptationMC(configurations)", res2)
        trace = os.path.join(work, "trace.ndjson")
        # phase 0: before the late registration (W0); the exhaustive configurations do not mention W
        n_rand = 3000 if tier == "quick" else 60000
        l0 = random_lines(seed, n_rand, 0)
        tot = cases.run_dump_cases(dump + ".dump", case_fn, out_ndjson=trace, reps=2)
        os.unlink(dump + ".dump")
        if tot["ncases"] == 0:
            raise MachineryError("no cases in dump")
        l1 = random_lines(seed, n_rand, 1)
        with open(trace, "a") as f:
            for r in l0 + l1:
                f.write(json.dumps(r, separators=(",", ":")) + "\n")
        rep.case(tot["ncases"] + len(l0) + len(l1))
        for s in tot["samples"][:2]:
            rep.sample(s)
        rep.sample(l1[0])
        n = tot["nlines"] + len(l0) + len(l1)
        judge.judge(rep, "Trace_Adaptation", "Trace_Adaptation", "Trace_Adaptation.cfg", trace, n,
                    sig_of=lambda rec, cl: "C17:judge:%s:%s" % (rec["via"], "+".join(cl)),
                    heap="8g" if tier == "quick" else "24g", workers=4)
        rep.rule = ("TLC: the _adapt algorithm model-checked against the declarative chain definition for every "
                    "configuration (%s); every configuration of the enumeration instantiated with real classes, "
                    "recording factories and a fresh AdaptationManager (adapt / adapt with default / supports_protocol / "
                    "Supports / AdaptsTo, both registration orders), plus %d random larger configurations (3-7 offers, "
                    "conditional factories, cycles, late ABC registration); Supports / AdaptsTo also by a second assignment of the same "
                    "object after further offers were registered (the adapter is read from the AdaptsTo shadow); every "
                    "record judged by TLC" %
                    ("AdaptationMC_%s.cfg" % tier, len(l0) + len(l1)))
        rep.exhaustive = True
        rep.extra["configurations_from_tlc"] = tot["ncases"]
        rep.extra["random_configurations"] = len(l0) + len(l1)
    finally:
        shutil.rmtree(work, ignore_errors=True)


def replay(rep, path):
    obj = json.load(open(path))
    rec = (obj.get("case") or {}).get("record")
    print("recorded:", rec)
    print("now     :", execute(rec["offers"], rec["src"], rec["tgt"], rec["via"], lazy=rec.get("lazy", -1)))
