"""C10 — defaults are per-instance, computed once, silent; instances are isolated.
spec/Defaults.tla (+DefaultsMC: non-interference as an action property), Trace_Defaults (judge).
After every step the views of ALL instances (projected without side effects from __dict__, counters, handler logs)
and of the classes are recorded, so isolation is evaluated by TLC on observed states."""
import json
import os
import random
import shutil

from .. import build, tlc, judge
from ..core import MachineryError

ATTRS = ["c_int", "l_plain", "l_init", "d_plain", "s_plain", "a_list", "a_lsub", "a_dict", "f_call", "m_dyn", "m_list", "t_cont",
         "u_cont", "o_int", "n_int", "mp", "arr", "pf"]
SCALARS = ["c_int", "o_int", "m_dyn", "n_int", "mp", "pf"]
HANDLED = ["c_int", "o_int", "m_dyn", "n_int"]
MUTABLE = ["l_plain", "l_init", "d_plain", "s_plain", "a_list", "a_lsub", "a_dict", "f_call", "m_list", "t_cont", "u_cont", "arr"]
DYNAMIC = ["m_dyn", "m_list", "pf"]
MPCODE = {"a": 1, "b": 2}
NINST = 3
EXTRA = [None]


def zero(a):
    return 0 if a in SCALARS else [[], 0] if a == "t_cont" else []


def contents(a, v):
    if a == "mp":
        return MPCODE.get(v, 777)
    if a == "arr":
        return [int(x) for x in v.tolist()]
    if a in SCALARS:
        return v
    if a in ("d_plain", "a_dict"):
        return [[k, x] for k, x in sorted(v.items())]
    if a == "s_plain":
        return sorted(v)
    if a == "f_call":
        return list(v.items)
    if a == "t_cont":
        return [list(v[0]), v[1]]
    return list(v) if v is not None else ["None"]


def containers_of(a, v):
    """the mutable objects behind a value (for the sharing check)"""
    if a in SCALARS or v is None:
        return []
    if a == "t_cont":
        return [v[0]]
    if a == "f_call":
        return [v, v.__dict__.get("items")]
    return [v]


class World(object):
    wname = "w1"         # the name under the wildcard this world uses (a new one per history: its first use resolves it)

    def __init__(self):
        build.install()
        from . import defclasses as dc
        self.dc = dc
        dc.COUNTS.clear()
        if EXTRA[0] is None:
            from traits.api import List, Int
            EXTRA[0] = List(Int).as_ctrait()          # ONE trait object handed to every add_trait call
        self.objs = [None] * (NINST + 1)
        self.logs = [None] + [[] for _ in range(NINST)]
        self.regs = [0] * (NINST + 1)
        self.wobs = [0] * (NINST + 1)
        self.waiting = [0] * (NINST + 1)      # observers registered while the wildcard name was still unresolved in the class
        self.resolved_by = 0                  # the instance whose use resolved the name (0: nobody yet)
        self.create(1)

    def create(self, k):
        self.objs[k] = (self.dc.Sub if k == NINST else self.dc.Base)()

    def view(self, k):
        o = self.objs[k]
        if o is None:
            return {"vals": {a: {"set": 0, "v": zero(a)} for a in ATTRS}, "runs": {a: 0 for a in DYNAMIC}, "calls": 0,
                    "extra": {"set": 0, "v": []}, "w": {"set": 0, "v": 0}}
        d = o.__dict__
        vals = {a: ({"set": 1, "v": contents(a, d[a])} if a in d else {"set": 0, "v": zero(a)}) for a in ATTRS}
        runs = {a: self.dc.COUNTS.get((id(o), a), 0) for a in DYNAMIC}
        extra = {"set": 1, "v": list(d["extra"])} if "extra" in o._instance_traits() and "extra" in d else \
                {"set": 1 if "extra" in o._instance_traits() else 0, "v": []}
        wv = d.get(self.wname, 0)
        return {"vals": vals, "runs": runs, "calls": len(self.logs[k]), "extra": extra,
                "w": {"set": 1 if self.wname in d else 0, "v": wv if type(wv) is int else -7}}

    def shared(self):
        seen = {}
        n = 0
        for k in range(1, NINST + 1):
            o = self.objs[k]
            if o is None:
                continue
            for a in MUTABLE + ["extra"]:
                if a in o.__dict__:
                    for c in containers_of(a, o.__dict__[a]):
                        if c is None:
                            continue
                        if id(c) in seen and seen[id(c)] != k:
                            n += 1
                        seen[id(c)] = k
        # the class-level default objects must not be what an instance holds either
        for cls in (self.dc.Base, self.dc.Sub):
            for a in MUTABLE:
                dv = cls.class_traits()[a].default_value()[1]
                for c in (list(dv) if isinstance(dv, tuple) else [dv]):
                    if id(c) in seen:
                        n += 1
        return n

    def classview(self):
        out = []
        for cls in (self.dc.Base, self.dc.Sub):
            ct = cls.__dict__["__class_traits__"]
            out.append(sorted(ct.keys()))
            out.append(sorted(cls.__dict__["__base_traits__"].keys()))
            for a in ATTRS:
                t = ct[a]
                out.append([a, repr(t.default_value()), len(t._notifiers(False) or ())])
        return json.dumps(out, sort_keys=True)

    def handler_for(self, k):
        log = self.logs[k]
        return (lambda obj, name, old, new: log.append(name)), (lambda event: log.append(event.name))

    def do(self, k, op, a, v):
        o = self.objs[k]
        ret = "ok"
        try:
            if op == "create":
                self.create(k)
            elif op == "read":
                x = getattr(o, a)
                ret = contents(a, x)
            elif op == "mutate":
                x = getattr(o, a)
                if a in ("d_plain", "a_dict"):
                    x[9] = 9
                elif a == "s_plain":
                    x.add(9)
                elif a == "f_call":
                    x.items.append(9)
                elif a == "t_cont":
                    x[0].append(9)
                elif a == "arr":
                    x.resize((x.shape[0] + 1,), refcheck=False)      # in place: the same ndarray object grows
                    x[-1] = 9
                else:
                    x.append(9)
            elif op == "assign":
                setattr(o, a, {1: "a", 2: "b"}[v] if a == "mp" else v)
            elif op == "query":
                q = v % 5
                if q == 0:
                    o.trait_names()
                elif q == 1:
                    o.traits()
                elif q == 2:
                    o.class_trait_names()
                elif q == 3:
                    o.copyable_trait_names()
                else:
                    o.trait_names(transient=None)
            elif op == "delete":
                delattr(o, a)
            elif op == "register":
                h_legacy, h_obs = self.handler_for(k)
                for s in HANDLED:
                    if self.regs[k] % 2 == 0:
                        o.on_trait_change(h_legacy, s)
                    else:
                        o.observe(h_obs, s)
                self.regs[k] += 1
            elif op == "add_trait":
                o.add_trait("extra", EXTRA[0])
                h_legacy, _ = self.handler_for(k)
                o.on_trait_change(h_legacy, "extra_items")
            elif op == "mutate_extra":
                o.extra.append(9)
            elif op == "wobserve":
                from traits.observation.api import trait
                _, h_obs = self.handler_for(k)
                o.observe(h_obs, trait(self.wname, optional=True))
                self.wobs[k] += 1
                if self.resolved_by == 0:
                    self.waiting[k] += 1
            elif op == "wassign":
                if self.resolved_by == 0:
                    self.resolved_by = k
                setattr(o, self.wname, v)
            elif op == "touch_undeclared":
                try:
                    o.zzz_undeclared
                except AttributeError:
                    pass
            else:
                raise MachineryError(op)
        except AttributeError:
            ret = "AttributeError"
        except self.dc.HookFault:
            ret = -1 if op == "read" else "HookFault"
        except Exception as e:
            ret = type(e).__name__
        return ret


def run_history(rnd, steps, t):
    w = World()
    w.wname = "w%d_%d" % (t, rnd.randint(0, 10 ** 6))
    created = {1}
    out = []
    has_extra = set()
    for s in range(steps):
        pre = [w.view(k) for k in range(1, NINST + 1)]
        cv = w.classview()
        u = rnd.random()
        a, v = "c_int", 0
        if u < 0.1 and len(created) < NINST:
            k = min(set(range(1, NINST + 1)) - created)
            op = "create"
            created.add(k)
        else:
            k = rnd.choice(sorted(created))
            u = rnd.random()
            if u < 0.3:
                op, a = "read", rnd.choice(ATTRS)
            elif u < 0.55:
                op, a = "mutate", rnd.choice(MUTABLE)
            elif u < 0.62:
                op, v = "query", rnd.randint(0, 4)
            elif u < 0.7:
                op, a, v = "assign", rnd.choice(HANDLED + ["mp"]), rnd.choice([2, 3, 9])
                if a == "mp":
                    v = rnd.choice([1, 2])
            elif u < 0.78:
                op, a = "delete", rnd.choice(ATTRS)
            elif u < 0.86:
                op = "register"
            elif u < 0.92 and k not in has_extra:
                op = "add_trait"
                has_extra.add(k)
            elif k in has_extra:
                op = "mutate_extra"
            elif u > 0.985:
                op = "touch_undeclared"
            elif u > 0.955:
                op = "wobserve"
            elif u > 0.92:
                op, v = "wassign", rnd.choice([3, 9])
            else:
                op, a = "read", rnd.choice(ATTRS)
        regs_before = w.regs[k]
        wobs_before = w.wobs[k]
        # known finding F12, second symptom: the name was resolved (and cached in the class) by ANOTHER instance's use, so
        # this instance's waiting observers never hear that the trait appeared
        kf12w = 1 if (op == "wassign" and w.waiting[k] > 0 and w.resolved_by not in (0, k)) else 0
        ret = w.do(k, op, a, v)
        post = [w.view(k2) for k2 in range(1, NINST + 1)]
        if op == "read" and not isinstance(ret, str):
            pass
        out.append({"tid": t, "step": s, "op": op, "actor": k, "a": a, "v": v, "ret": ret, "regs": regs_before, "wobs": wobs_before, "kf12w": kf12w, "waiting": w.waiting[k],
                    "sub": [0] * (NINST - 1) + [1], "pre": pre, "post": post, "shared": w.shared(),
                    "classeq": 1 if w.classview() == cv else 0})
        if op == "delete" and ret != "ok":
            break
    return out


def run(rep, tier, seed):
    build.install()
    rnd = random.Random(seed)
    work = tlc.scratch_dir("c10_")
    try:
        res = tlc.run_tlc("DefaultsMC", "DefaultsMC_%s.cfg" % tier, timeout=3000, workers=8)
        rep.add_tlc("DefaultsMC", res)
        ntr, steps = (1500, 16) if tier == "quick" else (25000, 24)
        trace = os.path.join(work, "trace.ndjson")
        n = 0
        with open(trace, "w") as f:
            for t in range(ntr):
                for r in run_history(rnd, steps, t):
                    f.write(json.dumps(r, separators=(",", ":")) + "\n")
                    n += 1
                    if n == 40:
                        rep.sample({k: r[k] for k in ("op", "actor", "a", "ret", "shared", "classeq")})
        rep.case(n)

        def sig_of(rec, cl):
            if cl == ["KF12"]:
                return "C10:F12:undeclared-name-lookup-cached-in-class"
            if cl == ["C10-class-changed"] and rec["op"] in ("touch_undeclared", "wassign", "wobserve"):
                # (the first use of a name under a wildcard is resolved - and cached - in the class: the same mechanism)
                return "C10:F12:undeclared-name-lookup-cached-in-class"
            return "C10:judge:%s:%s:%s" % (rec["op"], rec["a"] if rec["op"] in ("read", "mutate", "assign", "delete") else "",
                                           "+".join(cl))
        judge.judge(rep, "Trace_Defaults", "Trace_Defaults", "Trace_Defaults.cfg", trace, n, sig_of=sig_of)
        rep.rule = ("TLC: DefaultsMC histories with non-interference as an action property; %d recorded steps on 3 real "
                    "instances (two of the base class, one of a subclass overriding defaults; created during the history) "
                    "over 14 default kinds: after every step the side-effect-free views of all instances and classes are "
                    "recorded and judged by TLC (actor's view as specified, every other view and the class unchanged, "
                    "declared default returned, default reads silent, no mutable default object shared)" % n)
        rep.extra["history_steps"] = n
    finally:
        shutil.rmtree(work, ignore_errors=True)


def replay(rep, path):
    print(json.dumps(json.load(open(path)), indent=1)[:3000])
