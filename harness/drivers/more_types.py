"""C01 / C03 for the trait types Validate.tla leaves out: This / self, Module, Date, Datetime, Time, UUID, File,
Directory, Expression (spec/MoreTypes.tla).  Mode A: every (configuration, value, route) state of MoreTypesMC on real traits
and real values (temporary files, pathlib paths, datetime objects, ...), judged by Trace_MoreTypes."""
import atexit
import json
import os
import shutil
import tempfile
import types

from .. import build, tlc, cases, judge
from ..core import MachineryError

_state = {}
UUID_TEXT = "12345678-1234-5678-1234-56781234abcd"


def world():
    if _state:
        return _state
    build.install()
    import datetime
    import math
    import pathlib
    import uuid
    from traits import api as T
    base = tempfile.mkdtemp(prefix="mt_", dir=os.environ.get("VERIF_TMP") or os.environ.get("TMPDIR") or "/tmp")
    atexit.register(shutil.rmtree, base, True)
    fpath = os.path.join(base, "a_file.txt")
    open(fpath, "w").write("x")
    dpath = os.path.join(base, "a_dir")
    os.mkdir(dpath)
    mpath = os.path.join(base, "nothing_here")
    text = {"file": fpath, "dir": dpath, "missing": mpath, "uuid": UUID_TEXT, "expr": "1+1", "badexpr": "1+", "a": "a"}

    class StrSub(str):
        pass

    class DateSub(datetime.date):
        pass

    class PathB(object):
        def __fspath__(self):
            return fpath.encode()

    class Other(T.HasTraits):
        pass

    def fn():
        return None
    _state.update(text=text, rtext={v: k for k, v in text.items()}, StrSub=StrSub, DateSub=DateSub, PathB=PathB, Other=Other,
                  fn=fn, classes={}, datetime=datetime, uuid=uuid, pathlib=pathlib, math=math, base=base,
                  code=compile("2", "<s>", "eval"))
    return _state


def concretize(tok, cls, sub):
    w = world()
    ty, s = tok["ty"], tok["s"]
    dt = w["datetime"]
    if ty == "str":
        return w["text"][s]
    if ty == "strsub":
        return w["StrSub"](w["text"][s])
    if ty == "bytes":
        return w["text"][s].encode()
    if ty == "path":
        return w["pathlib"].Path(w["text"][s])
    if ty == "pathb":
        return w["PathB"]()
    return {"none": None, "int": 5, "float": 2.5, "date": dt.date(2020, 1, 2), "datetime": dt.datetime(2020, 1, 2, 3, 4),
            "datesub": w["DateSub"](2020, 1, 2), "time": dt.time(3, 4), "uuid": w["uuid"].UUID(UUID_TEXT),
            "module": w["math"], "self": None, "selfsub": None, "other": w["Other"](), "function": w["fn"],
            "code": w["code"]}[ty] if ty not in ("self", "selfsub") else (cls() if ty == "self" else sub())


def text_class(x):
    w = world()
    if isinstance(x, bytes):
        try:
            x = x.decode()
        except Exception:
            return "other"
    return w["rtext"].get(str.__str__(x) if isinstance(x, str) else x, "other")


def proj(x, cls, sub):
    w = world()
    dt = w["datetime"]
    t = type(x)
    if x is None:
        return {"ty": "none", "s": ""}
    if t is str:
        return {"ty": "str", "s": text_class(x)}
    if t is w["StrSub"]:
        return {"ty": "strsub", "s": text_class(x)}
    if t is bytes:
        return {"ty": "bytes", "s": text_class(x)}
    if isinstance(x, w["pathlib"].PurePath):
        return {"ty": "path", "s": text_class(str(x))}
    simple = {int: "int", float: "float", dt.date: "date", dt.datetime: "datetime", w["DateSub"]: "datesub", dt.time: "time",
              w["uuid"].UUID: "uuid", types.ModuleType: "module", w["Other"]: "other", types.FunctionType: "function",
              types.CodeType: "code", w["PathB"]: "pathb"}
    if t in simple:
        return {"ty": simple[t], "s": ""}
    if cls is not None and t is cls:
        return {"ty": "self", "s": ""}
    if sub is not None and t is sub:
        return {"ty": "selfsub", "s": ""}
    return {"ty": "unknown:" + t.__name__, "s": ""}


def trait_of(cfg):
    from traits import api as T
    t = cfg["t"]
    if t in ("This", "self"):
        return getattr(T, t)(allow_none=cfg["an"])
    if t == "Module":
        return T.Module()
    if t == "Date":
        return T.Date(allow_none=cfg["an"], allow_datetime=cfg["adt"])
    if t in ("Datetime", "Time"):
        return getattr(T, t)(allow_none=cfg["an"])
    if t == "UUID":
        return T.UUID(can_init=cfg["ci"])
    if t in ("File", "Directory"):
        return getattr(T, t if cfg["fast"] else "Base" + t)(exists=cfg["ex"])
    if t == "Expression":
        return T.Expression()
    raise MachineryError("trait type " + t)


def holder(cfg):
    w = world()
    key = json.dumps(cfg, sort_keys=True)
    if key not in w["classes"]:
        from traits import api as T
        cls = type("VM_%d" % len(w["classes"]), (T.HasTraits,), {"x": trait_of(cfg), "y": T.Int(7), "z": T.Str("z")})
        sub = type(cls.__name__ + "Sub", (cls,), {})
        w["classes"][key] = (cls, sub)
    return w["classes"][key]


def outcome(fn, cls, sub):
    from traits.trait_errors import TraitError
    try:
        v = fn()
    except TraitError as e:
        return {"tag": "reject", "w": {"ty": "none", "s": ""}, "e": ""}, str(e)
    except Exception as e:
        return {"tag": "prop", "w": {"ty": "none", "s": ""}, "e": type(e).__name__}, ""
    return {"tag": "store", "w": proj(v, cls, sub), "e": ""}, ""


def execute(cfg, tok, route):
    import warnings
    cls, sub = holder(cfg)
    v = concretize(tok, cls, sub)
    obj = cls()
    frame, msg, ident = 1, 1, 1
    box = {}
    before = None
    with warnings.catch_warnings():
        warnings.simplefilter("ignore")
        if route != "ctor":
            before = (obj.x, obj.y, obj.z)

        def run():
            if route == "ctor":
                o = cls(x=v)
            else:
                o = obj
                if route == "setattr":
                    obj.x = v
                else:
                    obj.trait_set(x=v)
            box["o"] = o
            return o.x
        a, text = outcome(run, cls, sub)
        if a["tag"] == "reject" and "'x'" not in text and " x " not in text and "UUID" not in text:
            msg = 0
        o = box.get("o", obj)
        if a["tag"] == "store":
            if (o.y, o.z) != (7, "z"):
                frame = 0
            # a value stored without conversion is the very object that was assigned
            if proj(v, cls, sub) == a["w"] and o.x is not v:
                ident = 0
        elif before is not None:
            now = (obj.x, obj.y, obj.z)
            if not all(p is q or p == q for p, q in zip(before, now)):
                frame = 0
        sh = {"ty": "none", "s": ""}
        if cfg["t"] == "Expression" and a["tag"] == "store":
            try:
                sh = proj(o.x_, cls, sub)
            except Exception as e:
                sh = {"ty": "error:" + type(e).__name__, "s": ""}
        ctrait = obj.trait("x")
        f, _ = outcome(lambda: ctrait.validate(obj, "x", v), cls, sub)
        handler = ctrait.handler
        if getattr(handler, "validate", None) is None:
            p = f
        else:
            p, _ = outcome(lambda: handler.validate(obj, "x", v), cls, sub)
    return {"cfg": cfg, "tok": tok, "route": route, "a": a, "f": f, "p": p, "frame": frame, "msg": msg, "ident": ident, "sh": sh}


def plain(x):
    if isinstance(x, dict):
        return {str(k): plain(v) for k, v in x.items()}
    if isinstance(x, (list, tuple)):
        return [plain(i) for i in x]
    if isinstance(x, (bool, int)):
        return x
    return str(x)


def case_fn(st, rep):
    r = execute(plain(st["cfg"]), plain(st["tok"]), str(st["route"]))
    return {"fail": None, "line": r, "sample": r}


C01_CLAUSES = ("assign-", "C01-")
C03_CLAUSES = ("cpath-", "pypath-", "C03-")


def classify(pid, rec, clauses):
    return "%s:more:%s:%s" % (pid, rec["cfg"]["t"], "+".join(clauses))


def run_for(rep, tier, seed, pid):
    build.install()
    world()
    prefixes = C01_CLAUSES if pid == "C01" else C03_CLAUSES
    work = tlc.scratch_dir("more_")
    try:
        dump = os.path.join(work, "cases")
        res = tlc.run_tlc("MoreTypesMC", "MoreTypesMC.cfg", dump=dump, timeout=1200, workers=2)
        rep.add_tlc("MoreTypesMC", res)
        if not res.ok:
            return
        trace = os.path.join(work, "trace.ndjson")
        tot = cases.run_dump_cases(dump + ".dump", case_fn, out_ndjson=trace, nproc=4)
        os.unlink(dump + ".dump")
        if tot["ncases"] == 0:
            raise MachineryError("no cases in dump")
        rep.case(tot["ncases"])

        def sig_of(rec, cl):
            mine = [c for c in cl if c.startswith(prefixes)]
            return classify(pid, rec, mine) if mine else None
        n0 = len(rep.violations)
        judge.judge(rep, "Trace_MoreTypes", "Trace_MoreTypes", "Trace_MoreTypes.cfg", trace, tot["nlines"], sig_of)
        rep.extra["more_types_cases"] = tot["ncases"]
    finally:
        shutil.rmtree(work, ignore_errors=True)


def replay_record(rec):
    print("recorded:", rec)
    print("now     :", execute(rec["cfg"], rec["tok"], rec["route"]))
