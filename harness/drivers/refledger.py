"""Reference-ledger loops of RefLedger.tla: each operation K times with K fresh values; sys.getrefcount deltas."""
import gc
import pickle
import sys

K = 12


class Tok(object):
    """a fresh, non-immortal value object"""
    __slots__ = ("k", "__weakref__")

    def __init__(self, k):
        self.k = k


def counts(objs):
    """reference counts measured by ONE code path (so that the measurement's own temporaries cancel out)"""
    out = []
    for i in range(len(objs)):
        out.append(sys.getrefcount(objs[i]))
    return out


def _classes():
    from traits.api import (HasTraits, Any, Int, Float, Range, Either, Str, Tuple, List, Dict, Set, Event, Property, Instance,
                            DelegatesTo, Expression)

    class D(HasTraits):
        dv = Any

    class T(HasTraits):
        a = Any
        i = Int
        f = Float
        r = Range(0.0, 1.0)
        er = Either(Range(0.0, 1.0), Str)
        el = Either(Range(0.0, 1.0), Float)
        t = Tuple(Any, Float)
        xs = List(Any)
        li = List(Int)
        d = Dict(Str, Any)
        s = Set(Any)
        ev = Event
        p = Property
        pr = Property
        n = Any
        dlg = Instance(D, ())
        dv = DelegatesTo("dlg")
        dflt = Any

        def _get_p(self):
            return self._p

        def _set_p(self, v):
            self._p = v

        def _get_pr(self):
            return None

        def _set_pr(self, v):
            raise ValueError("setter raises")

        def _n_changed(self, new):
            pass

        def _dflt_default(self):
            return [1, 2]

        # dynamic defaults handing out the loop's current value
        dd = Any
        di = Int
        ex = Expression

        def _dd_default(self):
            return _NEXT[0]

        def _di_default(self):
            return _NEXT[0]

        def _ex_default(self):
            return _NEXT[0]
    return T, D


_NEXT = [None]


_T = {}


def run_op(op):
    """returns the record for the judge"""
    import logging
    logging.getLogger("traits").addHandler(logging.NullHandler())
    logging.getLogger("traits").propagate = False
    from traits.api import Int, TraitError
    if not _T:
        _T["T"], _T["D"] = _classes()
    T = _T["T"]
    obj = T()
    name = "".join(["a"])            # (names are interned constants of this module: measured as persistent objects)
    raised = 0
    persist_objs = [obj]
    mk = lambda k: Tok(k)
    if op in ("set_float_exact", "set_range_reject", "set_either_reject", "set_either_later", "validate_either_reject"):
        mk = lambda k: 5.5 + k          # a fresh exact float, out of the range 0..1
    elif op == "set_float_convert":
        mk = lambda k: 10 ** 6 + k      # a fresh (non-cached) int
    elif op in ("handler_add_remove", "observe_add_remove"):
        mk = lambda k: (lambda *args: None)
    elif op == "add_remove_trait":
        mk = lambda k: Int(k).as_ctrait()
    elif op == "default_expr_ok":
        mk = lambda k: "%d + %d" % (k + 1000, k)      # a fresh (not interned) text that is an expression
    vals = [mk(k) for k in range(K)]
    dyn = lambda new: None
    obs = lambda event: None
    boom = lambda new: 1 / 0
    if op in ("set_notify", "set_notify_raising"):
        obj.on_trait_change(dyn, "n")
        obj.observe(obs, "n")
        if op == "set_notify_raising":
            obj.on_trait_change(boom, "n")
        persist_objs += [dyn, obs]
    removers = []
    if op == "handler_removed_in_dispatch":
        later = [(lambda: None) for _ in range(6)]

        def first():
            for h in later:
                obj.on_trait_change(h, remove=True)
        obj.on_trait_change(first)          # anytrait handlers (no name): the object-level notifier list
        for h in later:
            obj.on_trait_change(h)
        removers = [first] + later
    ctrait = obj.trait("er")
    gc.collect()
    base = counts(vals)
    pbase = counts(persist_objs)
    for k in range(len(vals)):
        v = vals[k]
        try:
            if op == "set_any":
                obj.a = v
            elif op in ("set_float_exact", "set_float_convert"):
                obj.f = v
            elif op == "set_int_reject":
                obj.i = v
            elif op == "set_range_reject":
                obj.r = v
            elif op == "set_either_reject":
                obj.er = v
            elif op == "set_either_later":
                obj.el = v
            elif op == "validate_call":
                obj.trait("a").validate(obj, "a", v)
            elif op == "validate_either_reject":
                ctrait.validate(obj, "er", v)
            elif op == "tuple_first_member":
                obj.t = (v, 7)
            elif op == "tuple_reject":
                obj.t = (v, "x")
            elif op == "list_append":
                obj.xs.append(v)
            elif op == "list_append_reject":
                obj.li.append(v)
            elif op == "list_setslice":
                obj.xs[0:1] = [v]
            elif op == "dict_setitem":
                obj.d["k"] = v
            elif op == "set_add_discard":
                obj.s.add(v)
                obj.s.discard(v)
            elif op == "event_fire":
                obj.ev = v
            elif op == "property_set":
                obj.p = v
            elif op == "property_set_raises":
                obj.pr = v
            elif op == "delegate_set":
                obj.dv = v
            elif op == "set_then_del":
                obj.a = v
                del obj.a
            elif op in ("set_notify", "set_notify_raising"):
                obj.n = v
            elif op == "handler_removed_in_dispatch":
                obj.a = v
                for h in removers[1:]:
                    obj.on_trait_change(h)          # re-arm for the next round
            elif op == "handler_add_remove":
                obj.on_trait_change(v, "a")
                obj.on_trait_change(v, "a", remove=True)
            elif op == "observe_add_remove":
                obj.observe(v, "a")
                obj.observe(v, "a", remove=True)
            elif op == "add_remove_trait":
                obj.add_trait("extra", v)
                obj.remove_trait("extra")
            elif op == "default_read":
                T().dflt
            elif op in ("default_dyn_ok", "default_dyn_rejected", "default_expr_ok", "default_expr_rejected"):
                _NEXT[0] = v
                try:
                    fresh = T()
                    getattr(fresh, {"default_dyn_ok": "dd", "default_dyn_rejected": "di", "default_expr_ok": "ex",
                                    "default_expr_rejected": "ex"}[op])
                finally:
                    _NEXT[0] = None
                    fresh = None
            elif op == "trait_setq":
                obj.trait_setq(a=v)
            elif op == "pickle_roundtrip":
                obj.a = v
                pickle.loads(pickle.dumps(obj.trait("i")))
            elif op == "getstate_ctrait":
                obj.trait("t").__getstate__()
            else:
                raise RuntimeError("unknown op " + op)
        except (TraitError, ValueError, ZeroDivisionError):
            raised += 1
    v = None
    gc.collect()
    after = counts(vals)
    pafter = counts(persist_objs)
    deltas = [after[i] - base[i] for i in range(len(vals))]
    persist = [pafter[i] - pbase[i] for i in range(len(persist_objs))]
    return {"op": op, "deltas": deltas, "persist": persist, "raised": raised}
