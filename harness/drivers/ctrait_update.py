"""Programs of spec/CTraitUpdate.tla: the default of a trait definition is replaced while the OLD default is kept alive
only by the definition; its finaliser reads the default of a fresh object of the class."""
import gc

KINDS = ["constant", "callable_and_args", "list_copy", "callable"]


def run_program(oldk, newk):
    from traits.api import Any, DefaultValue, HasTraits
    log = []

    class A(HasTraits):
        x = Any()
    ct = A.class_traits()["x"]

    class Fin(object):
        """the object whose release runs user code"""
        dealloc = False

        def __init__(self):
            self.armed = True

        def __call__(self, obj=None):
            return 1

        def __del__(self):
            if self.armed:
                self.armed = False
                try:
                    gc.collect()              # a collection INSIDE the finaliser
                    if self.dealloc:
                        log.append(("read", "collected"))
                    else:
                        log.append(("read", type(A().x).__name__))
                except BaseException as e:
                    log.append(("read-raised", type(e).__name__))

    def value_of(kind, fin):
        if kind == "constant":
            return fin if fin is not None else 5
        if kind == "callable_and_args":
            return ((lambda *a: 1), (fin,), None)
        if kind == "list_copy":
            return [fin, 2]
        return fin if fin is not None else (lambda obj: 1)
    kind_of = {"constant": DefaultValue.constant, "callable_and_args": DefaultValue.callable_and_args,
               "list_copy": DefaultValue.list_copy, "callable": DefaultValue.callable}
    if newk == "dealloc":
        # a definition that is the LAST owner of its default dies; the default's finaliser runs a collection
        fin = Fin()
        fin.dealloc = True
        ct2 = Any().as_ctrait()
        ct2.set_default_value(kind_of[oldk], value_of(oldk, fin))
        del fin
        gc.collect()
        del ct2
        gc.collect()
    else:
        ct.set_default_value(kind_of[oldk], value_of(oldk, Fin()))
        gc.collect()
        ct.set_default_value(kind_of[newk], value_of(newk, None))      # the old default dies here: its finaliser reads A().x
        gc.collect()
    fired = any(l[0].startswith("read") for l in log)
    # the class goes on working with the new default
    try:
        A().x
    except Exception as e:
        log.append(("after", type(e).__name__))
    rtype = next((l[1] for l in log if l[0] in ("read", "read-raised")), "")
    after = next((l[1] for l in log if l[0] == "after"), "")
    return {"oldk": oldk, "newk": newk, "fired": 1 if fired else 0, "rtype": rtype, "after": after}


def programs():
    return [(a, b) for a in KINDS for b in KINDS + ["dealloc"]]


def run_all(progs):
    return [run_program(*p) for p in progs]
