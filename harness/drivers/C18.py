"""C18 — the compiled core is memory-safe and reference-neutral under any API use.
TLA+ cannot decide memory safety.  What the family contributes:
 (1) spec/CTraitTables.tla - TLC proves every handler-table search stays inside its table and getstate/setstate round
     trips (reproducing finding F3 on the unrepaired table); bound to the real CTrait API;
 (2) spec/RefLedger.tla - the reference ledger: steady-state sys.getrefcount deltas of K fresh values and of the
     persistent objects around 31 operations (successful and failing), judged by TLC;
 (3) sanitised replay: the specification-driven history generators of all other properties (plus error-path and
     handler-removal-during-dispatch programs) run in a subprocess against an ASan+UBSan build of /repo's ctraits.c;
     a sanitiser report or abnormal exit is a violation.
Claimed at level `other`."""
import json
import os
import shutil
import subprocess
import sys

from .. import build, tlc, judge
from ..core import MachineryError
from . import ctrait_tables, refledger

LEVEL = "other"
VERIF = os.path.dirname(os.path.dirname(os.path.dirname(os.path.abspath(__file__))))


def run(rep, tier, seed):
    build.install()
    work = tlc.scratch_dir("c18_")
    try:
        # (1) handler tables (in a forked child: an unrepaired table crashes the interpreter)
        ctrait_tables.run_binding_isolated(rep, work)
        ctrait_tables.run_arity(rep, work)
        # (2) reference ledger
        from .asan_programs import _ledger_ops
        trace = os.path.join(work, "ledger.ndjson")
        n = 0
        from ..core import run_isolated
        with open(trace, "w") as f:
            for rnd_ in range(2 if tier == "quick" else 10):
                for op in _ledger_ops():
                    # each loop in a forked child: a reference-count defect may crash the interpreter
                    status, r = run_isolated(refledger.run_op, op)
                    if status != "ok":
                        if status == "crash":
                            rep.violation("C18:crash:ledger:%s" % op, "the interpreter crashed (%s) during the reference-"
                                          "ledger loop of operation %s" % (r, op), {"op": op, "how": r})
                            continue
                        raise MachineryError("ledger loop %s: %s" % (op, r))
                    f.write(json.dumps(r) + "\n")
                    n += 1
                    if op == "tuple_first_member" and rnd_ == 0:
                        rep.sample(r)
        rep.case(n)
        res = tlc.run_tlc("Trace_RefLedger", "Trace_RefLedger.cfg", workers=1, env={"TRACE_FILE": trace}, timeout=600, heap="2g")
        rep.add_tlc("Trace_RefLedger", res)
        from .. import tlaval
        rejects = tlaval.find_printed(res.stdout, "REJECT")
        if n == 0:
            raise MachineryError("no ledger loop completed")
        if res.stdout.count('"REJECT"') != len(rejects) or res.distinct != n:
            raise MachineryError("ledger judge: %d rejects parsed, %d markers, %d states for %d records" %
                                 (len(rejects), res.stdout.count('"REJECT"'), res.distinct, n))
        recs = [json.loads(l) for l in open(trace)]
        for r in rejects:
            rec = recs[r[0] - 1]
            rep.violation("C18:ledger:%s:%s" % (rec["op"], "+".join(sorted(str(c) for c in r[1]))),
                          "reference ledger rejected: %r" % rec, rec)
        # (2b) borrowed references across callbacks: Reentrancy.tla decides the ownership discipline, every state is a program
        from . import reentrancy
        rdump = os.path.join(work, "reentrancy")
        rres = tlc.run_tlc("Reentrancy", "Reentrancy.cfg", dump=rdump, timeout=600, workers=1, heap="2g")
        rep.add_tlc("Reentrancy", rres)
        rresf = tlc.run_tlc("Reentrancy", "Reentrancy_F25.cfg", timeout=600, workers=1, heap="2g")
        rep.add_tlc("Reentrancy(F25: entry points not holding their own reference - expected to violate Safe)", rresf,
                    must_pass=False)
        rep.extra["F25_reproduced_by_TLC_without_frame_references"] = (rresf.violated == "Safe")
        progs = reentrancy.programs_from_dump(rdump + ".dump")
        if not progs:
            raise MachineryError("no reentrancy programs")
        progfile = os.path.join(work, "reentrancy.json")
        with open(progfile, "w") as f:
            json.dump(progs, f)
        # one forked child runs them all; only if that child crashes is each program run in a child of its own
        status, rs = run_isolated(reentrancy.run_all, progs)
        if status == "ok":
            results = list(zip(progs, [("ok", r) for r in rs]))
        elif status == "crash":
            results = [(prog, run_isolated(reentrancy.run_program, *prog)) for prog in progs]
        else:
            raise MachineryError("reentrancy programs: %s" % rs)
        for prog, (status, r) in results:
            if status == "crash":
                rep.violation("C18:crash:reentrancy:%s" % ":".join(prog), "the interpreter crashed (%s) when the %s callback of a %s "
                              "trait performed %s" % (r, prog[1], prog[0], prog[2]), {"program": prog, "how": r})
            elif status != "ok":
                raise MachineryError("reentrancy program %r: %s" % (prog, r))
            elif not r["fired"]:
                raise MachineryError("vacuous reentrancy program %r: the callback never ran" % (prog,))
        rep.case(len(progs))
        rep.extra["reentrancy_programs"] = len(progs)
        # (2c) replacing the default of a trait definition while a finaliser of the old default reads it: CTraitUpdate.tla
        from . import ctrait_update
        ures = tlc.run_tlc("CTraitUpdate", "CTraitUpdate.cfg", timeout=300, workers=1, heap="1g")
        rep.add_tlc("CTraitUpdate", ures)
        uresf = tlc.run_tlc("CTraitUpdate", "CTraitUpdate_unsafe.cfg", timeout=300, workers=1, heap="1g")
        rep.extra["kind_written_after_release_is_unsafe_by_TLC"] = (uresf.violated == "Safe")
        urest = tlc.run_tlc("CTraitUpdate", "CTraitUpdate_tracked.cfg", timeout=300, workers=1, heap="1g")
        rep.extra["dying_definition_left_on_the_collectors_lists_is_unsafe_by_TLC"] = (urest.violated == "Safe")
        uprogs = ctrait_update.programs()
        utrace = os.path.join(work, "update.ndjson")
        nu = 0
        with open(utrace, "w") as f:
            for prog in uprogs:
                status, r = run_isolated(ctrait_update.run_program, *prog)
                if status == "crash":
                    rep.violation("C18:crash:default-replaced:%s:%s" % prog, "the interpreter crashed (%s) when the finaliser of the old "
                                  "%s default read the trait while it was being given a %s default" % (r, prog[0], prog[1]),
                                  {"program": prog, "how": r})
                    continue
                if status != "ok":
                    raise MachineryError("default-replacement program %r: %s" % (prog, r))
                f.write(json.dumps(r) + "\n")
                nu += 1
        if nu:
            jres = tlc.run_tlc("Trace_CTraitUpdate", "Trace_CTraitUpdate.cfg", workers=1, env={"TRACE_FILE": utrace}, timeout=300, heap="1g")
            rep.add_tlc("Trace_CTraitUpdate", jres)
            urej = tlaval.find_printed(jres.stdout, "REJECT")
            if jres.distinct != nu + 1 or jres.stdout.count('"REJECT"') != len(urej):
                raise MachineryError("default-replacement judge: %d states for %d records" % (jres.distinct, nu))
            urecs = [json.loads(l) for l in open(utrace)]
            for r in urej:
                rec = urecs[r[0] - 1]
                rep.violation("C18:default-replaced:%s:%s:%s" % (rec["oldk"], rec["newk"], "+".join(sorted(str(c) for c in r[1]))),
                              "default-replacement program rejected: %r" % rec, rec)
        rep.case(len(uprogs))
        rep.extra["default_replacement_programs"] = len(uprogs)
        # (3) sanitised replay
        so = build.build_ctraits(asan=True)
        env = dict(os.environ)
        env.update(LD_PRELOAD=build.asan_runtime(), ASAN_OPTIONS="detect_leaks=0:abort_on_error=0:halt_on_error=1:exitcode=66",
                   UBSAN_OPTIONS="print_stacktrace=1:halt_on_error=1:exitcode=67", VERIF_CTRAITS_SO=so, VERIF_HOME=VERIF, VERIF_REENTRANCY_PROGRAMS=progfile,
                   PYTHONHASHSEED="0", PYTHONMALLOC="malloc")
        scale = 1 if tier == "quick" else 8
        p = subprocess.run([sys.executable, os.path.join(VERIF, "harness", "drivers", "asan_programs.py"), str(seed), str(scale)],
                           env=env, stdout=subprocess.PIPE, stderr=subprocess.PIPE, text=True, timeout=7200, errors="replace")
        done = [l for l in p.stdout.splitlines() if l.startswith("ASAN-PROGRAMS-DONE")]
        report = "ERROR: AddressSanitizer" in p.stderr or "runtime error:" in p.stderr or "UndefinedBehaviorSanitizer" in p.stderr
        nprog = int(done[0].split()[1]) if done else 0
        rep.extra["sanitised_programs"] = nprog
        rep.case(nprog)
        if report or p.returncode != 0 or not done:
            path = rep.write_replay("sanitiser", {"returncode": p.returncode, "stderr_tail": p.stderr[-8000:],
                                                  "stdout_tail": p.stdout[-2000:]})
            if report or p.returncode < 0 or p.returncode in (66, 67):
                first = next((l for l in p.stderr.splitlines() if "ERROR: AddressSanitizer" in l or "runtime error:" in l), "")
                summ = next((l for l in p.stderr.splitlines() if l.startswith("SUMMARY:")), "")
                lastprog = next((l for l in reversed(p.stdout.splitlines()) if l.startswith("PROGRAM ")), "")
                rep.violation("C18:sanitiser", "sanitised replay: exit %s; %s %s (running: %s)" %
                              (p.returncode, first[:300], summ[:200], lastprog), path=path)
            else:
                sys.stderr.write(p.stderr[-3000:])
                raise MachineryError("sanitised subprocess failed without a sanitiser report (rc=%s)" % p.returncode)
        rep.rule = "see explanation"
        rep.extra["explanation"] = (
            "TLA+ cannot decide memory safety itself. This run: (1) TLC on CTraitTables.tla proved that for all %d reachable "
            "handler configurations every func_index search terminates inside its table and setstate(getstate) restores the "
            "handlers (and that the unrepaired table violates it: F3), each configuration bound to the real CTrait API; "
            "(2) %d reference-ledger loops (31 operations, successful and failing, K=12 fresh values each) measured with "
            "sys.getrefcount on the freshly compiled extension and judged by TLC against RefLedger.tla; (3) %d "
            "specification-generated operations/histories (the drivers of C01-C05, C08-C14, C19, C20, ledger loops, "
            "trait-definition pickling, handler removal during dispatch, forced garbage collections, and the %d "
            "(trait location, callback site, re-entrant action) programs of Reentrancy.tla, whose ownership discipline TLC "
            "proves safe with and unsafe without frame references) executed in a "
            "subprocess against an ASan+UBSan build of /repo/traits/ctraits.c with no sanitiser report."
            % (rep.extra.get("ctrait_handler_configurations", 0), n, nprog, len(progs)))
        rep.assumptions += ["ASan/UBSan observe only the compiled extension (the interpreter itself is not instrumented)",
                            "refcount deltas are steady-state measurements after gc.collect()"]
    finally:
        shutil.rmtree(work, ignore_errors=True)


def replay(rep, path):
    print(open(path).read()[:6000])
