"""A facade: re-exports the class family under another module name (never imported by the drivers themselves)."""
from harness.drivers.c17fam import *  # noqa: F401,F403
