"""Classes of Persist.tla (module level: they must pickle)."""
from traits.api import (HasTraits, Int, List, Dict, Set, Str, Instance, ReadOnly, Property, cached_property, observe, Any,
                        DelegatesTo, PrototypedFrom, WeakRef)


class Leaf(HasTraits):
    value = Int
    items = List(Int)
    grid = List(Any)          # holds plain lists: a deep copy must not share them


class ObjCore(HasTraits):
    """everything but the attributes that make a class a LISTENER class (legacy depends_on, deferred attributes): the
    constructor and __setstate__ take a shorter route for such classes"""
    n = Int
    xs = List(Int)
    nested = List(List(Int))
    dl = Dict(Str, List(Int))
    s = Set(Int)
    child = Instance(Leaf, ())
    kids = List(Instance(Leaf))          # may hold the same Leaf several times, and the Leaf that `child` refers to
    tmp = Int(transient=True)
    ro = ReadOnly
    obs_count = Int(transient=True)
    post_count = Int(transient=True)
    total = Property(Int, observe="xs.items")
    byleaf = Dict(Instance(Leaf), Int, copy="deep")      # keyed by (mutable, identity-hashed) objects
    wr = WeakRef(Leaf, allow_none=True)        # a weak reference to a Leaf somebody else keeps alive (copied by REFERENCE: copy="ref")

    @observe("xs.items")
    def _count_items(self, event):
        self.obs_count += 1

    @observe("n", post_init=True)
    def _count_n(self, event):
        self.post_count += 1

    @cached_property
    def _get_total(self):
        return sum(self.xs)



class Obj(ObjCore):
    total2 = Property(Int, depends_on="xs[]")      # legacy dependency declaration, cached
    cgrid = DelegatesTo("child", "grid")           # a deferred attribute whose target is a container of containers
    seen_total2 = Int(transient=True)

    def _n_changed(self):
        # a static handler of a trait copied BEFORE xs that reads the cached property (also while the object is being
        # filled in by copy_traits / clone_traits / __setstate__)
        self.seen_total2 = self.total2

    @cached_property
    def _get_total2(self):
        return sum(self.xs)


class ObjP(Obj):
    """Obj with a prototyped attribute (a class WITH delegate listeners; Obj itself has none that need hooking)"""
    pv = PrototypedFrom("child", "value")          # reads child.value until it is given a value of its own (also a falsy one)
