"""C20 — synchronised traits converge and stop when unsynchronised.
spec/SyncTrait.tla (operational lock protocol, model-checked over all topologies in SyncTraitMC; declarative closure
ReachFrom), Trace_SyncTrait (judge of recorded executions on real objects)."""
import gc
import json
import os
import random
import shutil
import weakref

from .. import build, tlc, judge
from . import C05

NONE = 1000
SCALARS = ["A.x", "B.x", "C.y", "B.r"]
LISTS = ["A.l", "B.l", "C.m"]


def classes():
    build.install()
    from traits.api import HasTraits, Int, List, Range

    class S(HasTraits):
        x = Int(1)
        y = Int(1)
        r = Range(0, 10, 1)
        l = List(Int)
        m = List(Int)

    class SD(S):
        """the same attributes with their defaults given by methods (dynamic defaults)"""
        def _x_default(self):
            return 1

        def _l_default(self):
            return []

        def _m_default(self):
            return []
    return S, SD


class World(object):
    def __init__(self, shapes=(0, 0, 0)):
        cl = classes()
        self.objs = {"A": cl[shapes[0]](), "B": cl[shapes[1]](), "C": cl[shapes[2]]()}
        self.links = []          # directed [src cell, dst cell]
        self.dead = []
        self.calls = {}
        for c in SCALARS + LISTS:
            o, a = c.split(".")
            self.objs[o].on_trait_change(self._mk(c), a)
            if c in LISTS:
                self.objs[o].on_trait_change(self._mk(c), a + "_items")
        self.reset_calls()

    def _mk(self, c):
        def handler():
            self.calls[c] = self.calls.get(c, 0) + 1
        return handler

    def reset_calls(self):
        self.calls = {c: 0 for c in SCALARS + LISTS}

    def real_links(self):
        """the directed links as the objects themselves hold them (__sync_trait__), read without side effects"""
        names = {id(o): n for n, o in self.objs.items()}
        out = []
        for n, o in self.objs.items():
            info = o.__dict__.get("__sync_trait__") or {}
            for tname, dic in info.items():
                if tname == "":
                    continue
                for ref, alias in dic.values():
                    tgt = ref()
                    if tgt is not None and id(tgt) in names:
                        out.append(["%s.%s" % (n, tname), "%s.%s" % (names[id(tgt)], alias)])
        return sorted(out)

    def vals(self):
        out = {}
        for c in SCALARS + LISTS:
            o, a = c.split(".")
            if o in self.dead:
                out[c] = 0 if c in SCALARS else []
            else:
                v = getattr(self.objs[o], a)
                out[c] = list(v) if c in LISTS else v
        return out


def run_history(rnd, steps, t):
    w = World(tuple(rnd.randint(0, 1) for _ in range(3)))
    out = []
    # candidate links: (src, dst); hub topologies (no cycles through three objects)
    cand_s = [("A.x", "B.x"), ("A.x", "C.y"), ("A.x", "B.r"), ("B.x", "C.y")]
    cand_l = [("A.l", "B.l"), ("A.l", "C.m")]
    for s in range(steps):
        pre = w.vals()
        rl_pre = w.real_links()
        w.reset_calls()
        u = rnd.random()
        rec = {"tid": t, "step": s, "op": "", "c": "A.x", "d": "A.x", "v": 0, "m": {"op": "", "a": [0, 0, 0], "xs": []},
               "exc": "", "expect_exc": 0, "s": "A.x", "t": "A.x", "mutual": 0}
        live = lambda c: c.split(".")[0] not in w.dead
        try:
            if u < 0.05:
                # a one-way link made mutual by a second, mutual call over the existing link: only the reverse half is new,
                # and it pushes the (possibly independent) value of the former target back to the source
                ups = [e for e in w.links if [e[1], e[0]] not in w.links and "B.r" not in e and live(e[0]) and live(e[1])]
                if not ups:
                    raise _Skip()
                src, dst = rnd.choice(ups)
                (so, sa), (do, da) = src.split("."), dst.split(".")
                w.links.append([dst, src])
                rec.update(op="link", c=dst, d=src, s=src, t=dst, mutual=1)
                w.objs[so].sync_trait(sa, w.objs[do], da, True)
            elif u < 0.22:
                cands = [e for e in cand_s + cand_l if live(e[0]) and live(e[1])
                         and [e[0], e[1]] not in w.links and [e[1], e[0]] not in w.links]
                if e_ok(cands):
                    src, dst = rnd.choice(cands)
                    mutual = dst != "B.r" and rnd.random() < 0.7
                    if rnd.random() < 0.3 and mutual:
                        src, dst = dst, src
                    if dst == "B.r" and not (0 <= pre[src] <= 10):
                        raise _Skip()
                    (so, sa), (do, da) = src.split("."), dst.split(".")
                    # involving hub A only: keeps the topology a tree
                    w.links.append([src, dst])
                    if mutual:
                        w.links.append([dst, src])
                    rec.update(op="link", c=src, d=dst, s=src, t=dst, mutual=int(mutual))
                    # ("one-way" is spelled False or 0, "mutual" True or 1: the flag is documented as bool or int)
                    w.objs[so].sync_trait(sa, w.objs[do], da, (mutual if rnd.random() < 0.5 else int(mutual)))
                else:
                    raise _Skip()
            elif u < 0.3 and w.links:
                src, dst = rnd.choice(w.links)
                mutual = [dst, src] in w.links and rnd.random() < 0.6      # (else only this half of a mutual link goes)
                (so, sa), (do, da) = src.split("."), dst.split(".")
                w.links.remove([src, dst])
                if mutual:
                    w.links.remove([dst, src])
                rec.update(op="unlink", c=src, d=dst, s=src, t=dst, mutual=int(mutual))
                w.objs[so].sync_trait(sa, w.objs[do], da, (mutual if rnd.random() < 0.5 else int(mutual)), remove=True)
            elif u < 0.33 and "C" not in w.dead and s > 3:
                rec.update(op="collect", c="C.y")
                ref = weakref.ref(w.objs["C"])
                del w.objs["C"]
                gc.collect()
                w.dead.append("C")
                if ref() is not None:
                    rec["exc"] = "PartnerKeptAlive"
                w.links = [e for e in w.links if not (e[0].startswith("C.") or e[1].startswith("C."))]
            elif u < 0.6:
                c = rnd.choice([c for c in SCALARS if live(c)])
                v = rnd.choice([1, 2, 3, 50])
                rec.update(op="assign", c=c, v=v)
                if c == "B.r" and v == 50:
                    rec["expect_exc"] = 1
                o, a = c.split(".")
                setattr(w.objs[o], a, v)
            elif u < 0.7:
                c = rnd.choice([c for c in LISTS if live(c)])
                v = [rnd.randint(1, 4) for _ in range(rnd.randint(0, 3))]
                rec.update(op="assign", c=c, v=v)
                o, a = c.split(".")
                setattr(w.objs[o], a, v)
            else:
                c = rnd.choice([c for c in LISTS if live(c)])
                o, a = c.split(".")
                lst = getattr(w.objs[o], a)
                n = len(lst)
                op = rnd.choice(["setitem", "setslice", "setslice", "delitem", "delslice", "append", "extend", "insert", "pop",
                                 "remove", "reverse", "sort", "clear", "imul"])
                ri = lambda: rnd.randint(-n - 1, n + 1)
                ro = lambda: NONE if rnd.random() < 0.3 else ri()
                aa, xs = [0, 0, 0], []
                if op in ("setitem", "insert"):
                    aa[0], xs = ri(), [rnd.randint(1, 4)]
                elif op in ("append", "remove"):
                    xs = [rnd.randint(1, 4)]
                elif op == "setslice":
                    aa = [ro(), ro(), rnd.choice([NONE, 1, 2, -1, -2, 3])]
                    xs = [rnd.randint(1, 4) for _ in range(rnd.randint(0, 3))]
                    if aa[2] not in (NONE, 1):
                        k = len(range(*slice(C05._opt(aa[0]), C05._opt(aa[1]), aa[2]).indices(n)))
                        xs = [rnd.randint(1, 4) for _ in range(k)]
                elif op == "delslice":
                    aa = [ro(), ro(), rnd.choice([NONE, 1, 2, -1, -2, 3])]
                elif op == "delitem":
                    aa[0] = ri()
                elif op == "extend":
                    xs = [rnd.randint(1, 4) for _ in range(rnd.randint(0, 2))]
                elif op == "pop":
                    aa[0] = ro()
                elif op == "imul":
                    aa[0] = rnd.choice([0, 1, 2]) if n <= 3 else 1
                elif op == "sort":
                    aa = [0, rnd.randint(0, 1), 0]
                if n > 7 and op in ("append", "extend", "insert", "imul"):
                    op, aa, xs = "clear", [0, 0, 0], []
                rec.update(op="listop", c=c, m={"op": op, "a": aa, "xs": xs})
                try:
                    C05.perform(lst, op, aa, xs, "id", True)
                except (IndexError, ValueError):
                    rec["expect_exc"] = 1
                    raise
        except _Skip:
            continue
        except Exception as e:
            rec["exc"] = type(e).__name__
        rec.update(pre=pre, post=w.vals(), calls=dict(w.calls), rl_pre=rl_pre, rl_post=w.real_links(), dead=[c for c in SCALARS + LISTS if c.split(".")[0] in w.dead])
        out.append(rec)
    return out


class _Skip(Exception):
    pass


def e_ok(c):
    return bool(c)


def run(rep, tier, seed):
    build.install()
    import logging
    logging.getLogger("traits").addHandler(logging.NullHandler())
    logging.getLogger("traits").propagate = False
    rnd = random.Random(seed)
    work = tlc.scratch_dir("c20_")
    try:
        res = tlc.run_tlc("SyncTraitMC", "SyncTraitMC_%s.cfg" % tier, timeout=3000, workers=8)
        rep.add_tlc("SyncTraitMC", res)
        ntr, steps = (1500, 18) if tier == "quick" else (25000, 28)
        trace = os.path.join(work, "trace.ndjson")
        n = 0
        with open(trace, "w") as f:
            for t in range(ntr):
                for r in run_history(rnd, steps, t):
                    f.write(json.dumps(r, separators=(",", ":")) + "\n")
                    n += 1
                    if n == 50:
                        rep.sample(r)
        rep.case(n)

        def sig_of(rec, cl):
            ext = rec["op"] == "listop" and rec["m"]["op"] in ("setslice", "delslice") and rec["m"]["a"][2] not in (NONE, 1)
            return "C20:judge:%s%s:%s" % (rec["op"] + ("." + rec["m"]["op"] if rec["op"] == "listop" else ""),
                                          ":extended-slice" if ext else "", "+".join(cl))
        judge.judge(rep, "Trace_SyncTrait", "Trace_SyncTrait", "Trace_SyncTrait.cfg", trace, n, sig_of=sig_of)
        rep.rule = ("TLC: the operational lock protocol of _sync_trait_modified model-checked for every topology of up to 4 "
                    "directed links over 4 cells (convergence to the declarative closure, termination, at most one "
                    "notification, no reverse effect of one-way links, locks released); %d recorded steps on three real "
                    "objects (Int, aliased Int, Range partner, List and aliased List; mutual / one-way links in random "
                    "registration order, removal, garbage collection of a partner, all in-place list operations incl. "
                    "extended slices) judged by TLC" % n)
        rep.extra["history_steps"] = n
    finally:
        shutil.rmtree(work, ignore_errors=True)


def replay(rep, path):
    print(json.dumps(json.load(open(path)), indent=1)[:3000])
