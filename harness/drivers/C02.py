"""C02 — change handlers fire exactly once per real change, with truthful old/new.
spec/Notify.tla (code-shaped filters + the property), NotifyMC (histories, invariants, case dump),
Trace_Notify (judge). Real objects: generated HasTraits classes with all four handler mechanisms."""
import json
import logging
import os
import random
import shutil

from .. import build, tlc, cases, judge, tlaval
from ..core import MachineryError

DFLT = ("dflt",)
MECHS = ["static", "any", "dynamic", "observe"]
_cls = {}


class ErVal(object):
    """== and != raise"""
    __hash__ = object.__hash__

    def __eq__(self, other):
        raise ValueError("cannot compare")

    def __ne__(self, other):
        raise ValueError("cannot compare")


class BadVal(object):
    pass


BAD = BadVal()


def quiet():
    lg = logging.getLogger("traits")
    lg.addHandler(logging.NullHandler())
    lg.propagate = False
    lg.setLevel(logging.CRITICAL + 10)


def get_class(cfg):
    key = (cfg["mode"], cfg["kind"], cfg["typed"])
    if key in _cls:
        return _cls[key]
    build.install()
    from traits.api import HasTraits, Any, Event, TraitType, ComparisonMode
    quiet()
    cm = {"none": ComparisonMode.none, "identity": ComparisonMode.identity, "equality": ComparisonMode.equality}[cfg["mode"]]

    class NoBad(TraitType):
        default_value = DFLT

        def validate(self, object, name, value):
            if value is BAD:
                self.error(object, name, value)
            return value
    if cfg["kind"] == "event":
        tr = Event(NoBad()) if cfg["typed"] else Event()
    else:
        tr = NoBad(comparison_mode=cm) if cfg["typed"] else Any(DFLT, comparison_mode=cm)

    def static(self, old, new):
        self._rec("static", old, new)

    def anytrait(self, name, old, new):
        if name == "x":
            self._rec("any", old, new)

    def _rec(self, mech, old, new):
        self._log.append((mech, old, new))
        if mech in self._raising:
            raise RuntimeError("handler %s raises" % mech)
    ns = {"x": tr, "_anytrait_changed": anytrait, "_rec": _rec, "_log": None, "_raising": ()}
    ns["_x_fired" if cfg["kind"] == "event" else "_x_changed"] = static
    cls = type("C02_%s_%s_%s" % key, (HasTraits,), ns)
    _cls[key] = cls
    return cls


class World(object):
    """one object + fresh value objects for a history"""

    def __init__(self, cfg, raising):
        from traits.api import Undefined
        import numpy
        self.cfg = cfg
        self.tok2obj = {"v1": tuple([1, 2]), "v1e": tuple([1, 2]), "v2": tuple([3]), "nanA": float("nan"),
                        "nanB": float("nan"), "er": ErVal(), "arrA": numpy.array([1, 2]), "arrB": numpy.array([1, 2]), "none": None, "dflt": DFLT, "bad": BAD, "undef": Undefined}
        assert self.tok2obj["v1"] is not self.tok2obj["v1e"] and self.tok2obj["nanA"] is not self.tok2obj["nanB"]
        self.id2tok = {id(o): t for t, o in self.tok2obj.items()}
        cls = get_class(cfg)
        obj = cls.__new__(cls)
        obj.__dict__["_log"] = []
        obj.__dict__["_raising"] = tuple(raising)
        cls.__init__(obj)
        self.obj = obj
        obj.on_trait_change(lambda o, n, old, new: obj._rec("dynamic", old, new), "x")
        obj.observe(lambda ev: obj._rec("observe", ev.old, ev.new), "x")
        obj._log.clear()

    def tok(self, o):
        return self.id2tok.get(id(o), "other")

    def stored(self):
        d = self.obj.__dict__
        return self.tok(d["x"]) if "x" in d else "unset"

    def establish(self, pre):
        """bring the object silently into the abstract pre-state"""
        if pre != "unset":
            self.obj.trait_setq(x=self.tok2obj[pre])
            if self.stored() != pre:
                raise MachineryError("cannot establish pre-state %s" % pre)
        self.obj._log.clear()

    def step(self, op, v):
        from traits.trait_errors import TraitError
        obj = self.obj
        obj._log.clear()
        pre = self.stored()
        exc = ""
        ret = "none"
        try:
            if op == "assign":
                obj.x = self.tok2obj[v]
            elif op == "read":
                ret = self.tok(obj.x)
            elif op == "delete":
                del obj.x
            else:
                raise MachineryError(op)
        except TraitError:
            exc = "TraitError"
        except Exception as e:
            exc = type(e).__name__
        calls = {m: [] for m in MECHS}
        for mech, old, new in obj._log:
            calls[mech].append([self.tok(old), self.tok(new)])
        return {"cfg": self.cfg, "raising": sorted(obj._raising), "op": op, "v": v, "pre": pre, "post": self.stored(),
                "exc": exc, "ret": ret, "calls": calls}


RAISING_SETS = [(), ("static",), ("any",), ("dynamic",), ("observe",), ("static", "dynamic", "observe"), tuple(MECHS)]


def case_fn(st, rep):
    last = st["last"]
    if last["op"] == "init":
        return None
    if rep >= len(RAISING_SETS):
        return None
    cfg = {"mode": str(last["cfg"]["mode"]), "kind": str(last["cfg"]["kind"]), "typed": bool(last["cfg"]["typed"])}
    w = World(cfg, RAISING_SETS[rep])
    if cfg["kind"] == "event" and last["pre"] != "unset":
        return None
    w.establish(str(last["pre"]))
    r = w.step(str(last["op"]), str(last["v"]))
    r["pre"] = str(last["pre"])
    return {"fail": None, "line": r, "sample": r}


def history_lines(seed, ntraces, steps):
    rnd = random.Random(seed)
    out = []
    toks = ["v1", "v1e", "v2", "nanA", "nanB", "er", "arrA", "arrB", "none", "dflt", "bad"]
    for t in range(ntraces):
        cfg = {"mode": rnd.choice(["none", "identity", "equality"]), "kind": "trait" if rnd.random() < 0.85 else "event",
               "typed": rnd.random() < 0.5}
        raising = [m for m in MECHS if rnd.random() < 0.25]
        w = World(cfg, raising)
        for _ in range(steps):
            u = rnd.random()
            if u < 0.8:
                r = w.step("assign", rnd.choice(toks))
            elif u < 0.9:
                r = w.step("read", "none")
            else:
                r = w.step("delete", "none")
            r["tid"] = t
            out.append(r)
    return out


def run(rep, tier, seed):
    build.install()
    work = tlc.scratch_dir("c02_")
    try:
        cfg = "NotifyMC_%s.cfg" % tier
        dump = os.path.join(work, "cases")
        res = tlc.run_tlc("NotifyMC", cfg, dump=dump, timeout=3000, workers=8)
        rep.add_tlc("NotifyMC", res)
        trace = os.path.join(work, "trace.ndjson")
        tot = cases.run_dump_cases(dump + ".dump", case_fn, out_ndjson=trace, reps=len(RAISING_SETS))
        os.unlink(dump + ".dump")
        if tot["ncases"] == 0:
            raise MachineryError("no cases in dump")
        rep.case(tot["ncases"])
        for s in tot["samples"][:2]:
            rep.sample(s)
        nh, steps = (1500, 12) if tier == "quick" else (25000, 20)
        hl = history_lines(seed, nh, steps)
        with open(trace, "a") as f:
            for r in hl:
                f.write(json.dumps(r, separators=(",", ":")) + "\n")
        rep.case(len(hl))
        rep.sample(hl[len(hl) // 2])
        judge.judge(rep, "Trace_Notify", "Trace_Notify", "Trace_Notify.cfg", trace, tot["nlines"] + len(hl),
                    sig_of=lambda rec, cl: "C02:judge:%s:%s:%s" % (rec["cfg"]["kind"], rec["op"], "+".join(cl)))
        rep.rule = ("TLC: histories of Notify.tla to the configured depth with the C02 invariants (exactly once per "
                    "change, truthful old/new, same sequence for all mechanisms, silence on rejection / default read, "
                    "Event traits) ; every (configuration, pre-state, operation, value) state of the dump executed on a real "
                    "object with static, anytrait, on_trait_change and observe handlers under %d sets of raising "
                    "handlers, plus %d seeded history steps; every record judged by TLC" % (len(RAISING_SETS), len(hl)))
        rep.exhaustive = True
        rep.extra["cases_from_tlc_dump"] = tot["ncases"]
        rep.extra["history_steps"] = len(hl)
        rep.assumptions += ["default notification exception handlers (exceptions of handlers are logged, not re-raised)",
                            "values with consistent __eq__/__ne__; a raising comparison counts as a change"]
    finally:
        shutil.rmtree(work, ignore_errors=True)


def replay(rep, path):
    build.install()
    obj = json.load(open(path))
    rec = (obj.get("case") or {}).get("record")
    w = World(rec["cfg"], rec["raising"])
    w.establish(rec["pre"])
    print("recorded:", rec)
    print("now     :", w.step(rec["op"], rec["v"]))
