"""C02 — change handlers fire exactly once per real change, with truthful old/new.
spec/Notify.tla (code-shaped filters + the property), NotifyMC (histories, invariants, case dump),
Trace_Notify (judge). Real objects: generated HasTraits classes with all four handler mechanisms."""
import json
import logging
import os
import random
import shutil

from .. import build, tlc, cases, judge, tlaval
from ..core import MachineryError

DFLT = ("dflt",)
MECHS = ["static", "any", "dynamic", "observe", "anydyn", "anydyn2", "decorated"]
DYNAMIC = ["dynamic", "observe", "anydyn", "anydyn2"]
_cls = {}


class ErVal(object):
    """== and != raise"""
    __hash__ = object.__hash__

    def __eq__(self, other):
        raise ValueError("cannot compare")

    def __ne__(self, other):
        raise ValueError("cannot compare")


class BadVal(object):
    pass


BAD = BadVal()


def quiet():
    lg = logging.getLogger("traits")
    lg.addHandler(logging.NullHandler())
    lg.propagate = False
    lg.setLevel(logging.CRITICAL + 10)


_REUSE = [False]    # the trait definition object was already used as an attribute of ANOTHER class before
_ORIG = [False]     # typed traits: the validator returns a WRAPPED value while the trait stores the original one
                    # (setattr_original_value, as Expression / AdaptsTo do): handlers are told what is readable


class Wrapped(object):
    def __init__(self, v):
        self.v = v


def get_class(cfg):
    key = (cfg["mode"], cfg["kind"], cfg["typed"], cfg["shape"], _ORIG[0] and cfg["typed"] and cfg["kind"] == "trait", _REUSE[0])
    if key in _cls:
        return _cls[key]
    build.install()
    from traits.api import HasTraits, Any, Event, TraitType, ComparisonMode, observe
    from traits.observation.events import TraitChangeEvent
    quiet()
    cm = {"none": ComparisonMode.none, "identity": ComparisonMode.identity, "equality": ComparisonMode.equality}[cfg["mode"]]

    class NoBad(TraitType):
        default_value = DFLT

        def validate(self, object, name, value):
            if value is BAD:
                self.error(object, name, value)
            return value

    class OrigNoBad(NoBad):
        def validate(self, object, name, value):
            if value is BAD:
                self.error(object, name, value)
            return Wrapped(value)

        def as_ctrait(self):
            ctrait = super().as_ctrait()
            ctrait.setattr_original_value = True
            return ctrait
    if key[4]:
        NoBadX = OrigNoBad
    else:
        NoBadX = NoBad
    if cfg["kind"] == "event":
        tr = Event(NoBad()) if cfg["typed"] else Event()
    else:
        tr = NoBadX(comparison_mode=cm) if cfg["typed"] else Any(DFLT, comparison_mode=cm)

    def static(self, old, new):
        self._rec("static", old, new)

    def decorated(self, event):
        # an @observe handler with the magic static-handler name, defined in a base class
        if isinstance(event, TraitChangeEvent):
            self._rec("decorated", event.old, event.new)
        else:
            self._rec("decorated", BADCALL, BADCALL)

    def anytrait(self, name, old, new):
        if name == "x":
            self._rec("any", old, new)
        elif name == "x2":
            self._log.append(("any:x2", old, new))

    def x3_changed(self, old, new):
        self._log.append(("x3:changed", old, new))

    def x3_fired(self, old, new):
        self._log.append(("x3:fired", old, new))

    def _rec(self, mech, old, new):
        self._log.append((mech, old, new))
        if mech in self._raising:
            raise RuntimeError("handler %s raises" % mech)
    magic = "_x_fired" if cfg["kind"] == "event" else "_x_changed"
    ns = {"x": tr, "y": NoBad(), "_rec": _rec, "_log": None, "_raising": ()}
    if key[5]:
        # one definition object, two classes: the second class must see the comparison mode it was declared with
        type("C02_FirstUser", (HasTraits,), {"q": tr})
    name = "C02_%s_%s_%s_%s_%s_%s" % key
    if cfg["shape"] in ("plain", "wild"):
        # static handlers, in both spellings, for a name that objects are GIVEN at run time (add_trait("x3", ...))
        ns["_x3_changed"] = x3_changed
        ns["_x3_fired"] = x3_fired
    if cfg["shape"] == "plain":
        ns["_anytrait_changed"] = anytrait
        ns[magic] = static
        cls = type(name, (HasTraits,), ns)
    elif cfg["shape"] == "wild":
        # the attribute is not declared by name: x and x2 both fall under the wildcard x_
        del ns["x"]
        ns["x_"] = tr
        ns["_anytrait_changed"] = anytrait
        ns[magic] = static
        cls = type(name, (HasTraits,), ns)
        # the name x is resolved against the wildcard by its first use, on a throw-away object (observe() wants a
        # resolved name)
        tmp = cls.__new__(cls)
        tmp.__dict__["_log"] = []
        cls.__init__(tmp)
        tmp.x = DFLT
        del tmp
    elif cfg["shape"] == "inherited":
        ns["_anytrait_changed"] = anytrait
        decorated.__name__ = magic
        ns[magic] = observe("x")(decorated)
        base = type(name + "_Base", (HasTraits,), ns)
        cls = type(name, (base,), {})
    else:
        cls = type(name, (HasTraits,), ns)
    _cls[key] = cls
    return cls


class _BadCall(object):
    pass


BADCALL = _BadCall()


class World(object):
    """one object + fresh value objects for a history"""

    def __init__(self, cfg, raising, regs=DYNAMIC, orig=False, reuse=False):
        from traits.api import Undefined
        _ORIG[0] = orig
        _REUSE[0] = reuse
        import numpy
        self.cfg = cfg
        self.tok2obj = {"v1": tuple([1, 2]), "v1e": tuple([1, 2]), "v2": tuple([3]), "nanA": float("nan"),
                        "nanB": float("nan"), "er": ErVal(), "arrA": numpy.array([1, 2]), "arrB": numpy.array([1, 2]), "none": None, "dflt": DFLT, "bad": BAD, "undef": Undefined}
        assert self.tok2obj["v1"] is not self.tok2obj["v1e"] and self.tok2obj["nanA"] is not self.tok2obj["nanB"]
        self.id2tok = {id(o): t for t, o in self.tok2obj.items()}
        cls = get_class(cfg)
        _ORIG[0] = False
        _REUSE[0] = False
        obj = cls.__new__(cls)
        obj.__dict__["_log"] = []
        obj.__dict__["_raising"] = tuple(raising)
        cls.__init__(obj)
        self.obj = obj

        self.oneshot = False

        def fired(m):
            # a one-shot handler removes its own registration when it is called
            if self.oneshot and m in self.regs:
                self.register(m, False)

        def anydyn(o, n, old, new):
            if n == "x":
                fired("anydyn")
                obj._rec("anydyn", old, new)
            elif n == "x2":
                obj._log.append(("anydyn:x2", old, new))

        def anydyn2(o, n, old, new):
            if n == "x":
                fired("anydyn2")
                obj._rec("anydyn2", old, new)
            elif n == "x2":
                obj._log.append(("anydyn2:x2", old, new))

        twinlog = self.twinlog = []

        class Listener(object):
            """listener objects with VALUE-based equality: two of them are equal without being the same object; the
            bound methods l1.on_x and l2.on_x are two handlers"""
            def __init__(self, me):
                self.me = me

            def __eq__(self, other):
                return isinstance(other, Listener)

            def __ne__(self, other):
                return not isinstance(other, Listener)

            def __hash__(self):
                return 11

            def on_x(self, o, n, old, new):
                if self.me == 1:
                    fired("dynamic")
                    obj._rec("dynamic", old, new)
                else:
                    twinlog.append((old, new))
        self.l1, self.l2 = Listener(1), Listener(2)
        dynamic = self.l1.on_x

        def observer(ev):
            fired("observe")
            obj._rec("observe", ev.old, ev.new)
        self.h = {"dynamic": dynamic, "observe": observer, "anydyn": anydyn, "anydyn2": anydyn2}
        self.regs = set()
        for m in regs:
            self.register(m, True)
        obj._log.clear()

    def register(self, m, on):
        obj = self.obj
        if m == "dynamic":
            # the mechanism is registered twice: by the bound method of l1 and by the same method of the EQUAL object l2
            obj.on_trait_change(self.h[m], "x", remove=not on)
            obj.on_trait_change(self.l2.on_x, "x", remove=not on)
        elif m == "observe":
            obj.observe(self.h[m], "x", remove=not on)
        elif m in ("anydyn", "anydyn2"):
            obj.on_trait_change(self.h[m], remove=not on)
        else:
            raise MachineryError(m)
        (self.regs.add if on else self.regs.discard)(m)

    quiet_form = 0

    def tok(self, o):
        return self.id2tok.get(id(o), "other")

    def stored(self):
        d = self.obj.__dict__
        return self.tok(d["x"]) if "x" in d else "unset"

    def establish(self, pre):
        """bring the object silently into the abstract pre-state"""
        if pre != "unset":
            self.obj.trait_setq(x=self.tok2obj[pre])
            if self.stored() != pre:
                raise MachineryError("cannot establish pre-state %s" % pre)
        self.obj._log.clear()

    def step(self, op, v):
        from traits.trait_errors import TraitError
        obj = self.obj
        obj._log.clear()
        del self.twinlog[:]
        pre = self.stored()
        regs = sorted(self.regs)
        exc = ""
        ret = "none"
        try:
            if op == "assign":
                obj.x = self.tok2obj[v]
            elif op == "assign1":
                self.oneshot = True
                try:
                    obj.x = self.tok2obj[v]
                finally:
                    self.oneshot = False
            elif op == "setq":
                if self.quiet_form == 0:
                    obj.trait_setq(x=self.tok2obj[v])
                else:
                    obj.trait_set(trait_change_notify=False, x=self.tok2obj[v])
            elif op == "setq2":
                if self.quiet_form == 0:
                    obj.trait_setq(x=self.tok2obj[v], y=BAD)
                else:
                    obj.trait_set(trait_change_notify=False, x=self.tok2obj[v], y=BAD)
            elif op == "reg":
                self.register(v, True)
            elif op == "unreg":
                self.register(v, False)
            elif op == "read":
                ret = self.tok(obj.x)
            elif op == "delete":
                del obj.x
            else:
                raise MachineryError(op)
        except TraitError:
            exc = "TraitError"
        except Exception as e:
            exc = type(e).__name__
        calls = {m: [] for m in MECHS}
        for mech, old, new in obj._log:
            calls[mech].append([self.tok(old), self.tok(new)])
        regsafter = sorted(self.regs)
        twin = [[self.tok(a), self.tok(b)] for a, b in self.twinlog]
        # the sibling attribute x2 (same wildcard in the "wild" shape, an undeclared name elsewhere): handlers of x keep
        # quiet, every object-level handler hears of it exactly once
        obj._log.clear()
        stray = 0
        try:
            self.n2 = getattr(self, "n2", 0) + 1
            obj.x2 = ("x2", self.n2)
        except Exception:
            stray = 100
        stray += sum(1 for mech, _, _ in obj._log if ":" not in mech)
        # (outside the "wild" shape x2 is an undeclared name: a plain Python attribute, nobody is told)
        expect = (["any:x2"] + [m + ":x2" for m in ("anydyn", "anydyn2") if m in self.regs]) if self.cfg["shape"] == "wild" else []
        if sorted(mech for mech, _, _ in obj._log if ":" in mech) != sorted(expect):
            stray += 10
        # a trait given to the object at run time: the class's static handlers for that name, in both spellings
        # (_x3_changed, _x3_fired), hear of every change exactly once
        added3 = 1
        if self.cfg["shape"] in ("plain", "wild"):
            if "x3" not in obj._instance_traits():
                from traits.api import Any
                obj.add_trait("x3", Any())
            obj._log.clear()
            obj.x3 = ("x3", self.n2)
            got = sorted(mech for mech, _, _ in obj._log if mech.startswith("x3:"))
            added3 = 1 if got == ["x3:changed", "x3:fired"] else 0
        obj._log.clear()
        return {"regsafter": regsafter, "stray": stray, "twin": twin, "added3": added3, "cfg": self.cfg, "raising": sorted(obj._raising), "op": op, "v": v, "pre": pre, "post": self.stored(),
                "exc": exc, "ret": ret, "calls": calls, "regs": regs}


RAISING_SETS = [(), ("static",), ("any",), ("dynamic",), ("observe",), ("static", "dynamic", "observe"), tuple(MECHS)]


def case_fn(st, rep):
    last = st["last"]
    if last["op"] == "init":
        return None
    if rep >= len(RAISING_SETS):
        return None
    cfg = {"mode": str(last["cfg"]["mode"]), "kind": str(last["cfg"]["kind"]), "typed": bool(last["cfg"]["typed"]),
           "shape": str(last["cfg"]["shape"])}
    w = World(cfg, RAISING_SETS[rep], orig=(rep % 3 == 1), reuse=(rep % 2 == 1))
    w.quiet_form = rep % 2
    if cfg["kind"] == "event" and last["pre"] != "unset":
        return None
    w.establish(str(last["pre"]))
    r = w.step(str(last["op"]), str(last["v"]))
    r["pre"] = str(last["pre"])
    # ... and the object goes on notifying: one more assignment from the real post-state (always a change for tuples)
    r2 = w.step("assign", "v2" if r["post"] != "v2" else "v1")
    return {"fail": None, "lines": [r, r2], "sample": r}


def history_lines(seed, ntraces, steps):
    rnd = random.Random(seed)
    out = []
    toks = ["v1", "v1e", "v2", "nanA", "nanB", "er", "arrA", "arrB", "none", "dflt", "bad"]
    for t in range(ntraces):
        cfg = {"mode": rnd.choice(["none", "identity", "equality"]), "kind": "trait" if rnd.random() < 0.85 else "event",
               "typed": rnd.random() < 0.5, "shape": rnd.choice(["plain", "inherited", "bare", "bare", "wild"])}
        raising = [m for m in MECHS if rnd.random() < 0.25]
        w = World(cfg, raising, regs=[m for m in DYNAMIC if rnd.random() < 0.3], orig=rnd.random() < 0.3, reuse=rnd.random() < 0.4)
        w.quiet_form = rnd.randint(0, 1)
        for _ in range(steps):
            u = rnd.random()
            if u < 0.45:
                r = w.step("assign", rnd.choice(toks))
            elif u < 0.55:
                r = w.step("assign1", rnd.choice(toks))
            elif u < 0.75:
                m = rnd.choice(DYNAMIC)
                r = w.step("unreg" if m in w.regs else "reg", m)
            elif u < 0.8:
                r = w.step("setq", rnd.choice(toks))
            elif u < 0.84:
                r = w.step("setq2", rnd.choice(toks))
            elif u < 0.92:
                r = w.step("read", "none")
            else:
                r = w.step("delete", "none")
            r["tid"] = t
            out.append(r)
    return out


def run(rep, tier, seed):
    build.install()
    work = tlc.scratch_dir("c02_")
    try:
        cfg = "NotifyMC_%s.cfg" % tier
        dump = os.path.join(work, "cases")
        hres = tlc.run_tlc("NotifyMC", "NotifyMC_hist_%s.cfg" % tier, timeout=3000, workers=4)
        rep.add_tlc("NotifyMC_hist", hres)
        res = tlc.run_tlc("NotifyMC", cfg, dump=dump, timeout=3000, workers=8)
        rep.add_tlc("NotifyMC", res)
        trace = os.path.join(work, "trace.ndjson")
        tot = cases.run_dump_cases(dump + ".dump", case_fn, out_ndjson=trace, reps=len(RAISING_SETS))
        os.unlink(dump + ".dump")
        if tot["ncases"] == 0:
            raise MachineryError("no cases in dump")
        rep.case(tot["ncases"])
        for s in tot["samples"][:2]:
            rep.sample(s)
        nh, steps = (1500, 12) if tier == "quick" else (25000, 20)
        hl = history_lines(seed, nh, steps)
        with open(trace, "a") as f:
            for r in hl:
                f.write(json.dumps(r, separators=(",", ":")) + "\n")
        rep.case(len(hl))
        rep.sample(hl[len(hl) // 2])
        judge.judge(rep, "Trace_Notify", "Trace_Notify", "Trace_Notify.cfg", trace, tot["nlines"] + len(hl),
                    sig_of=lambda rec, cl: "C02:judge:%s:%s:%s" % (rec["cfg"]["kind"], rec["op"], "+".join(cl)))
        rep.rule = ("TLC: histories of Notify.tla to the configured depth with the C02 invariants (exactly once per "
                    "change, truthful old/new, same sequence for all mechanisms, silence on rejection / default read, "
                    "Event traits) ; every (configuration, pre-state, operation, value) state of the dump executed on a real "
                    "object with static, anytrait, on_trait_change and observe handlers under %d sets of raising "
                    "handlers, plus %d seeded history steps; every record judged by TLC" % (len(RAISING_SETS), len(hl)))
        rep.exhaustive = True
        rep.extra["cases_from_tlc_dump"] = tot["ncases"]
        rep.extra["history_steps"] = len(hl)
        rep.assumptions += ["default notification exception handlers (exceptions of handlers are logged, not re-raised)",
                            "values with consistent __eq__/__ne__; a raising comparison counts as a change"]
    finally:
        shutil.rmtree(work, ignore_errors=True)


def replay(rep, path):
    build.install()
    obj = json.load(open(path))
    rec = (obj.get("case") or {}).get("record")
    w = World(rec["cfg"], rec["raising"], regs=rec.get("regs", DYNAMIC))
    w.establish(rec["pre"])
    print("recorded:", rec)
    print("now     :", w.step(rec["op"], rec["v"]))
