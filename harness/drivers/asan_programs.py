"""Programs executed against the ASan+UBSan build of ctraits.c (run as a script inside the sanitised subprocess).
The specification-driven history generators of the other properties are the program generator; the sanitiser is the
monitor.  Prints 'ASAN-PROGRAMS-DONE <n>' at the end."""
import gc
import os
import random
import sys


def main():
    seed = int(sys.argv[1])
    scale = int(sys.argv[2])
    sys.path.insert(0, os.environ["VERIF_HOME"])
    from harness import build
    build.install(os.environ["VERIF_CTRAITS_SO"])
    import traits.ctraits
    assert traits.ctraits.__file__ == os.environ["VERIF_CTRAITS_SO"], traits.ctraits.__file__
    import logging
    logging.getLogger("traits").addHandler(logging.NullHandler())
    logging.getLogger("traits").propagate = False
    import warnings
    warnings.simplefilter("ignore")
    rnd = random.Random(seed)
    n = 0
    from harness.drivers import C02, C04, C05, C10, C11, C13, C14, C19, C20, observe_common, refledger, validate_common as vc
    # change notification, containers, names, defaults, deferral, sync, copies, faults, observe: the drivers' own histories
    n += len(C02.history_lines(seed, 40 * scale, 12))
    n += len(C04.history_lines(seed, 30 * scale, 20))
    n += len(C05.history_lines(seed, 30 * scale, 20))
    n += len(C13.random_lines(seed, 150 * scale, 8))
    for t in range(30 * scale):
        n += len(C10.run_history(rnd, 14, t))
        n += len(C11.run_history(rnd, 14, t))
        n += len(C20.run_history(rnd, 16, t))
        n += len(C14.run_history(rnd, 14, t))
        n += len(C19.run_history(rnd, 16, t))
        n += len(observe_common.run_history(rnd, 12, t))
        if t % 7 == 0:
            gc.collect()
    # validation: every value class against a sample of configurations, all routes, C and Python paths
    vc.world()
    cfgs = [vc.plain_cfg(c) for c in _sample_cfgs()]
    for cfg in cfgs:
        for tok in vc.world()["toks"]:
            vc.execute(cfg, tok, rnd.choice(vc.ROUTES))
            n += 1
    # reference-ledger loops (error paths included) and the handler tables
    import traits.api  # noqa
    for op in _ledger_ops():
        refledger.run_op(op)
        n += 1
    from harness.drivers import ctrait_tables
    from traits.ctrait import CTrait
    import pickle
    for k in range(9):
        t = CTrait(k)
        t.__dict__
        pickle.loads(pickle.dumps(t))
        n += 1
    from traits.api import HasTraits, Property, Int

    class PV(HasTraits):
        p = Property(Int)

        def _get_p(self):
            return 1

        def _set_p(self, v):
            pass
    PV().trait("p").__getstate__()          # finding F3: the handler-table search for a validated Property
    gc.collect()
    # Reentrancy.tla: callbacks that drop the references the C frame borrowed (finding F25)
    pf = os.environ.get("VERIF_REENTRANCY_PROGRAMS")
    if pf:
        import json
        from harness.drivers import reentrancy, ctrait_update
        for prog in ctrait_update.programs():
            print("PROGRAM default-replaced %s:%s" % prog, flush=True)
            ctrait_update.run_program(*prog)
            n += 1
        for prog in json.load(open(pf)):
            print("PROGRAM reentrancy %s" % ":".join(prog), flush=True)
            reentrancy.run_program(*prog)
            n += 1
    print("PROGRAM (end)", flush=True)
    print("ASAN-PROGRAMS-DONE %d" % n)


def _ledger_ops():
    return ["set_any", "set_float_exact", "set_float_convert", "set_int_reject", "set_range_reject", "set_either_reject",
            "set_either_later", "validate_call", "validate_either_reject", "tuple_first_member", "tuple_reject", "list_append",
            "list_append_reject", "list_setslice", "dict_setitem", "set_add_discard", "event_fire", "property_set",
            "property_set_raises", "delegate_set", "set_then_del", "set_notify", "set_notify_raising",
            "handler_removed_in_dispatch", "handler_add_remove", "observe_add_remove", "add_remove_trait", "default_read",
            "trait_setq", "pickle_roundtrip", "getstate_ctrait", "default_dyn_ok", "default_dyn_rejected", "default_expr_ok",
            "default_expr_rejected"]


def _sample_cfgs():
    """a fixed sample of Validate.tla configurations (plain dicts in the shape of plain_cfg's input)"""
    def c0(t, fast=True, **kw):
        d = dict(t=t, fast=fast, lo=999, hi=999, xl=False, xh=False, an=False, k="", vals=[], ms=[], mn=0, mx=999, re=False,
                 nm=False)
        d.update(kw)
        return d
    out = [c0(t) for t in ("Int", "Float", "Complex", "Str", "Bytes", "Bool", "CInt", "CFloat", "CStr", "CBool", "Any")]
    out += [c0("RangeF", lo=0, hi=10, xl=True), c0("RangeI", fast=False, lo=0, hi=10), c0("Enum", vals=["i1", "s_a", "none"]),
            c0("Map", vals=["s_a", "s_abc"]), c0("PrefixMap", fast=False, vals=["s_aaa", "s_abc"]),
            c0("String", fast=False, mn=2, mx=3, re=True), c0("Instance", k="A", an=True), c0("Instance", k="A", nm=True),
            c0("Type", k="A"), c0("Callable", an=True),
            c0("Tuple", ms=[c0("Float"), c0("Float")]), c0("Tuple", ms=[c0("CInt"), c0("Str"), c0("CInt")]),
            c0("Union", ms=[c0("RangeF", lo=0, hi=10), c0("Str")]), c0("Union", ms=[c0("Tuple", ms=[c0("Int"), c0("Str")]), c0("Str")]),
            c0("Union", ms=[c0("Union", ms=[c0("Int"), c0("Str", fast=False)]), c0("Float")]),
            c0("Union", fast=False, ms=[c0("Int"), c0("Str")]), c0("VTuple", fast=False, ms=[c0("CInt"), c0("CInt")])]
    return out


if __name__ == "__main__":
    main()
