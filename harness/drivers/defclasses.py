"""Classes of Defaults.tla: one trait of every default kind, a subclass overriding defaults."""
from traits.api import (HasTraits, Int, List, Dict, Set, Any, Instance, Tuple, Union, ComparisonMode)

COUNTS = {}


def _count(obj, name):
    COUNTS[(id(obj), name)] = COUNTS.get((id(obj), name), 0) + 1


class Box(HasTraits):
    items = List(Int)


class Base(HasTraits):
    c_int = Int(3)
    o_int = Int(4)
    n_int = Int(2, comparison_mode=ComparisonMode.none)
    l_plain = List(Int)
    l_init = List(Int, [1, 2])
    d_plain = Dict(Int, Int)
    s_plain = Set(Int)
    a_list = Any([1, 2])
    a_dict = Any({1: 1})
    f_call = Instance(Box, ())
    m_dyn = Int
    m_list = List(Int)
    t_cont = Tuple(List(Int), Int)
    u_cont = Union(List(Int), None)

    def _m_dyn_default(self):
        _count(self, "m_dyn")
        return 7

    def _m_list_default(self):
        _count(self, "m_list")
        return [6]


class Sub(Base):
    o_int = Int(5)

    def _m_dyn_default(self):
        _count(self, "m_dyn")
        return 8
