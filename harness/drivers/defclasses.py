"""Classes of Defaults.tla: one trait of every default kind, a subclass overriding defaults."""
from traits.api import (HasTraits, Int, List, Dict, Set, Any, Instance, Tuple, Union, ComparisonMode, Map, Array, TraitType)

COUNTS = {}


def _count(obj, name):
    COUNTS[(id(obj), name)] = COUNTS.get((id(obj), name), 0) + 1


class Box(HasTraits):
    items = List(Int)


class HookFault(RuntimeError):
    pass


class PF(TraitType):
    """its post_setattr hook raises the first time it is called for an object (a fault AFTER the value was stored)"""
    default_value = 11

    def validate(self, object, name, value):
        return value

    def post_setattr(self, object, name, value):
        _count(object, "pf_hook")
        if COUNTS[(id(object), "pf_hook")] == 1:
            raise HookFault("post_setattr hook fails once")


class ListSub(list):
    """a list subclass (as collections.UserList-like containers, numpy-free records, ...)"""


class Base(HasTraits):
    mp = Map({"a": 1, "b": 2}, default_value="a")
    arr = Array()
    pf = PF()
    c_int = Int(3)
    o_int = Int(4)
    n_int = Int(2, comparison_mode=ComparisonMode.none)
    l_plain = List(Int)
    l_init = List(Int, [1, 2])
    d_plain = Dict(Int, Int)
    s_plain = Set(Int)
    w_ = Int                  # a wildcard: every name w... is an Int attribute (resolved on first use)
    a_list = Any([1, 2])
    a_lsub = Any(ListSub([1, 2]))
    a_dict = Any({1: 1})
    f_call = Instance(Box, ())
    m_dyn = Int
    m_list = List(Int)
    t_cont = Tuple(List(Int), Int)
    u_cont = Union(List(Int), None)

    def _m_dyn_default(self):
        _count(self, "m_dyn")
        return 7

    def _pf_default(self):
        _count(self, "pf")
        return 11

    def _m_list_default(self):
        _count(self, "m_list")
        return [6]


class Sub(Base):
    o_int = Int(5)

    def _m_dyn_default(self):
        _count(self, "m_dyn")
        return 8
