"""Binding of spec/CTraitTables.tla: every reachable handler configuration is built through the real API and its
__getstate__ indices / __setstate__ round trip compared with what TLC computed."""
import os
import pickle

from .. import build, tlc, tlaval
from ..core import MachineryError


def fn(*args):
    """module-level so that trait definitions holding it pickle"""
    return args[-1] if args else None


def build_ctrait(h):
    """h: dict getattr/setattr/post/validate/dname -> a real CTrait in that handler state (or None if not constructible here)"""
    build.install()
    from traits.ctrait import CTrait
    g, s, p, v, d = (str(h[k]) for k in ("getattr", "setattr", "post", "validate", "dname"))

    if g.startswith("getattr_property"):
        gn = int(g[-1])
        if s == "setattr_validate_property":
            sn, vn = int(p[-1]), int(v[-1])
            t = CTrait(0)
            t._set_property(fn, gn, fn, sn, fn, vn)
        else:
            sn = int(s[-1])
            t = CTrait(0)
            t._set_property(fn, gn, fn, sn, None, 0)
        return t
    kinds = ["getattr_trait", "getattr_python", "getattr_event", "getattr_delegate", "getattr_event", "getattr_disallow",
             "getattr_trait", "getattr_constant", "getattr_generic"]
    skinds = ["setattr_trait", "setattr_python", "setattr_event", "setattr_delegate", "setattr_event", "setattr_disallow",
              "setattr_readonly", "setattr_constant", "setattr_generic"]
    k = None
    for i in range(9):
        if kinds[i] == g and skinds[i] == s:
            k = i
            break
    if k is None:
        raise MachineryError("no kind for %s/%s" % (g, s))
    t = CTrait(k)
    if v != "NULL":
        vt = ["validate_trait_type", "validate_trait_instance", "validate_trait_self_type", None,
              "validate_trait_float_range", "validate_trait_enum", "validate_trait_map", "validate_trait_complex", None,
              "validate_trait_tuple", None, "validate_trait_coerce_type", "validate_trait_cast_type",
              "validate_trait_function", "validate_trait_python", None, None, None, None, "validate_trait_adapt",
              "validate_trait_integer", "validate_trait_float", "validate_trait_callable", "validate_trait_complex_number"]
        vk = vt.index(v)
        args = {0: (0, int), 1: (1, int), 2: (2,), 4: (4, 0.0, 1.0, 0), 5: (5, (1, 2)), 6: (6, {1: 1}), 7: (7, ((0, int),)),
                9: (9, (CTrait(0),)), 11: (11, int), 12: (12, int), 13: (13, fn), 19: (19, int, 0, True), 20: (20,),
                21: (21,), 22: (22,), 23: (23,)}
        if vk == 14:
            t.set_validate(fn)
        else:
            t.set_validate(args[vk])
    if p == "post_setattr_trait_python":
        t.post_setattr = fn
    if d != "NULL":
        pt = ["delegate_attr_name_name", "delegate_attr_name_prefix", "delegate_attr_name_prefix_name",
              "delegate_attr_name_class_name"].index(d)
        t.delegate("dlg", "pre", pt, False)
    return t


def run_binding(rep, work):
    """returns number of configurations bound"""
    from traits.ctrait import CTrait
    dump = os.path.join(work, "tables")
    res = tlc.run_tlc("CTraitTables", "CTraitTables.cfg", dump=dump, timeout=600, workers=1, heap="2g")
    rep.add_tlc("CTraitTables", res)
    resf = tlc.run_tlc("CTraitTables", "CTraitTables_F3.cfg", timeout=600, workers=1, heap="2g")
    rep.add_tlc("CTraitTables(F3: table before the repair - expected to violate SearchInBounds)", resf, must_pass=False)
    rep.extra["F3_reproduced_by_TLC_on_unrepaired_table"] = (resf.violated == "SearchInBounds")
    n = 0
    for stt in tlaval.iter_dump_states(dump + ".dump"):
        h, st = stt["h"], stt["st"]
        n += 1
        case = {"handlers": tlaval.to_py(h), "spec_indices": tlaval.to_py(st)}
        try:
            t = build_ctrait(h)
            t.__dict__          # every trait made by a TraitType has its instance dictionary; a bare CTrait has none yet
            state = t.__getstate__()
            got = {"g": state[0] + 1, "s": state[1] + 1, "p": state[2] + 1, "v": state[4] + 1, "d": state[11] + 1}
            exp = {k: st[k] for k in ("g", "s", "p", "v", "d")}
            if got != exp:
                rep.violation("tables:getstate-indices", "CTrait.__getstate__ indices %r, specification %r for %r" %
                              (got, exp, case["handlers"]), case)
                continue
            t2 = CTrait(0)
            t2.__setstate__(state)
            st2 = t2.__getstate__()
            if tuple(st2[i] for i in (0, 1, 2, 4, 11)) != tuple(state[i] for i in (0, 1, 2, 4, 11)):
                rep.violation("tables:setstate-roundtrip", "setstate(getstate(t)) has other handlers for %r" % case["handlers"], case)
                continue
            t3 = pickle.loads(pickle.dumps(t))
            st3 = t3.__getstate__()
            if tuple(st3[i] for i in (0, 1, 2, 4, 11)) != tuple(state[i] for i in (0, 1, 2, 4, 11)):
                rep.violation("tables:pickle-roundtrip", "pickle round trip changed handlers for %r" % case["handlers"], case)
        except MachineryError:
            raise
        except Exception as e:
            rep.violation("tables:api", "building / round-tripping %r raised %s: %s" % (case["handlers"], type(e).__name__, e), case)
    os.unlink(dump + ".dump")
    rep.case(n)
    rep.extra["ctrait_handler_configurations"] = n
    return n


def run_binding_isolated(rep, work):
    """run_binding in a forked child: on an unrepaired handler table the API calls crash the interpreter"""
    from ..core import run_isolated, Report

    def tables():
        sub = Report(rep.pid, rep.tier, rep.seed, level=rep.level)
        run_binding(sub, work)
        return sub.tlc_runs, sub.states, sub.transitions, sub.impl, sub.violations, dict(sub.extra)
    status, r = run_isolated(tables)
    if status == "crash":
        rep.violation("%s:crash:handler-tables" % rep.pid, "the interpreter crashed (%s) while pickling / copying trait "
                      "definition objects of the handler configurations of CTraitTables.tla" % r, {"how": r})
    elif status != "ok":
        raise MachineryError("handler tables: %s" % r)
    else:
        rep.tlc_runs += r[0]
        rep.states += r[1]
        rep.transitions += r[2]
        rep.case(r[3])
        for sig, text, path in r[4]:
            rep.violation(sig, text, path=path)
        rep.extra.update(r[5])


def _arity_call(case):
    """one _set_property call with the given arities; "accepted" | "ValueError" | other exception class"""
    build.install()
    from traits.ctrait import CTrait
    gn, sn, vn, hv = case
    t = CTrait(0)
    try:
        t._set_property(fn, gn, fn, sn, fn if hv else None, vn)
    except ValueError:
        return "ValueError"
    except Exception as e:
        return type(e).__name__
    # use what was accepted: the accessors are dispatched through the tables
    from traits.api import HasTraits
    o = HasTraits()
    o.add_trait("p", t)
    try:
        o.p
        o.p = 1
    except Exception:
        pass
    t.__getstate__()
    return "accepted"


def _arity_all(cases):
    return [_arity_call(c) for c in cases]


def run_arity(rep, work):
    """CTraitArity.tla: every (get_n, set_n, validate_n, has validator) call on the real CTrait, in forked children"""
    from ..core import run_isolated
    dump = os.path.join(work, "arity")
    res = tlc.run_tlc("CTraitArity", "CTraitArity.cfg", dump=dump, timeout=600, workers=1, heap="2g")
    rep.add_tlc("CTraitArity", res)
    cases = []
    for stt in tlaval.iter_dump_states(dump + ".dump"):
        c = stt["c"]
        cases.append(((int(c[0]), int(c[1]), int(c[2]), bool(c[3])), bool(stt["acc"])))
    os.unlink(dump + ".dump")
    if not cases:
        raise MachineryError("no arity cases")
    status, rs = run_isolated(_arity_all, [c for c, _ in cases])
    if status == "ok":
        results = [("ok", r) for r in rs]
    elif status == "crash":
        results = [run_isolated(_arity_call, c) for c, _ in cases]
    else:
        raise MachineryError("arity cases: %s" % rs)
    for (c, acc), (status, r) in zip(cases, results):
        case = {"get_n": c[0], "set_n": c[1], "validate_n": c[2], "validator": c[3], "specification_accepts": acc}
        if status == "crash":
            rep.violation("C18:crash:property-arity", "the interpreter crashed (%s) on _set_property with arities %r" % (r, c), case)
        elif status != "ok":
            raise MachineryError("arity case %r: %s" % (c, r))
        elif (r == "accepted") != acc or (not acc and r != "ValueError"):
            rep.violation("C18:property-arity-guard", "_set_property with arities get=%d set=%d validate=%d%s: %s, the "
                          "specification's guard %s" % (c[0], c[1], c[2], "" if c[3] else " (no validator)", r,
                                                        "accepts" if acc else "refuses (ValueError)"), case)
    rep.case(len(cases))
    rep.extra["property_arity_cases"] = len(cases)
