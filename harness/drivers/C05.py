"""C05 — TraitList refines list; events are faithful normalized deltas.

spec/TraitList.tla (Python list semantics + event law), TraitListMC (case enumeration),
Trace_TraitList (judge of recorded executions).
  pass 1 (spec -> code): every case state of TLC's dump is executed on a real TraitList; contents,
        return value and exception class must equal what the specification computed.
  pass 2 (code -> spec): the same executions plus seeded multi-step histories on longer lists are logged
        with the *actual* notifier arguments and judged by TLC (outcome + event law + spec-vs-builtin-list).
"""
import copy
import os
import pickle
import random
import shutil

from .. import build, tlc, cases, judge, tlaval
from ..core import MachineryError

NONE = 1000
VALID = {1, 2, 3, 4}


class _TE(Exception):
    pass


def _mods():
    build.install()
    from traits.trait_list_object import TraitList
    from traits.trait_errors import TraitError
    return TraitList, TraitError


def validator_for(vm):
    from traits.trait_errors import TraitError
    if vm == "id":
        return None

    def coerce(x):
        if type(x) is int and x in VALID:
            return x
        if type(x) is str and x.isdigit():
            return int(x)
        raise TraitError("invalid item %r" % (x,))
    return coerce


class ObjItem(object):
    """items as objects (TraitList.tla: Twin / NotSelfEqual): tok names the object (105, 106, 107); == goes by eq class (105 and
    106 are equal, 107 equals nothing, itself included); ordering and % go by tok, so sort() works"""
    __slots__ = ("tok",)

    def __init__(self, tok):
        self.tok = tok

    def __eq__(self, other):
        return type(other) is ObjItem and self.tok != 107 and other.tok != 107 and {self.tok, other.tok} <= {105, 106}

    def __ne__(self, other):
        return not self.__eq__(other)

    def __hash__(self):
        return 5

    def __lt__(self, other):
        return self.tok < (other.tok if type(other) is ObjItem else other)

    def __gt__(self, other):
        return self.tok > (other.tok if type(other) is ObjItem else other)

    def __mod__(self, k):
        return self.tok % k

    def __repr__(self):
        return "Obj%d" % self.tok

    def __reduce__(self):
        return (ObjItem, (self.tok,))


OBJ = {105: ObjItem(105), 106: ObjItem(106), 107: ObjItem(107)}


def conc(vm, x):
    """abstract item -> python object"""
    if vm == "id" and x in OBJ:
        return OBJ[x]
    if vm == "id" or x in VALID:
        return x                   # (under "once" the int itself: that validator rejects it, as the specification says)
    if x in (11, 12, 13):
        return str(x - 10)
    return "bad"


def proj_item(x):
    if type(x) is ObjItem:
        return x.tok
    return x if type(x) is int else 777


def proj_ev(index, removed, added):
    rem = [proj_item(x) for x in removed] if isinstance(removed, list) else [778]
    add = [proj_item(x) for x in added] if isinstance(added, list) else [778]
    if isinstance(index, slice):
        f = [v if type(v) is int else -999 for v in (index.start, index.stop, index.step)]
        return {"slice": 1, "a": f[0], "b": f[1], "c": f[2], "removed": rem, "added": add}
    if type(index) is int:
        return {"slice": 0, "a": index, "b": 0, "c": 0, "removed": rem, "added": add}
    return {"slice": 0, "a": -999, "b": 0, "c": 0, "removed": rem, "added": add}


class IdxObj:
    """an integer-like object: only __index__ (no comparison, no arithmetic)"""
    __slots__ = ("v",)

    def __init__(self, v):
        self.v = v

    def __index__(self):
        return self.v


_IDX_REP = [0]       # 0: plain ints, 1: integer-like objects with __index__ only


def _opt(v):
    if v == NONE:
        return None
    return IdxObj(v) if _IDX_REP[0] == 1 else v


def _ix(v):
    return IdxObj(v) if _IDX_REP[0] == 1 else v


def perform(obj, op, a, xs, vm, is_trait_list):
    """Perform op on obj (TraitList or builtin list). Returns (ret, newobj_or_None)."""
    cx = [conc(vm, x) for x in xs]
    if op == "setitem":
        obj[_ix(a[0])] = cx[0]
    elif op == "setslice":
        obj[slice(_opt(a[0]), _opt(a[1]), _opt(a[2]))] = cx
    elif op == "delitem":
        del obj[_ix(a[0])]
    elif op == "delslice":
        del obj[slice(_opt(a[0]), _opt(a[1]), _opt(a[2]))]
    elif op == "append":
        obj.append(cx[0])
    elif op == "extend":
        obj.extend(iter(cx))
    elif op == "iadd":
        obj += cx
    elif op == "imul":
        obj *= _ix(a[0])
    elif op == "insert":
        obj.insert(_ix(a[0]), cx[0])
    elif op == "pop":
        return (obj.pop() if a[0] == NONE else obj.pop(_ix(a[0]))), None
    elif op == "remove":
        obj.remove(cx[0])
    elif op == "reverse":
        obj.reverse()
    elif op == "sort":
        obj.sort(key=(lambda x: x % 2) if a[0] == 1 else None, reverse=bool(a[1]))
    elif op == "clear":
        obj.clear()
    elif op == "copy":
        if a[0] == 0:
            return None, copy.copy(obj)
        if a[0] == 1:
            return None, copy.deepcopy(obj)
        return None, pickle.loads(pickle.dumps(obj))
    else:
        raise MachineryError("unknown op " + op)
    return None, None


# module-level validators so that TraitList pickles (copy kind 2)
def _coerce_validator(x):
    from traits.trait_errors import TraitError
    if type(x) is int and x in VALID:
        return x
    if type(x) is str and x.isdigit():
        return int(x)
    raise TraitError("invalid item %r" % (x,))


def _once_validator(x):
    """not idempotent: converts a digit string, rejects everything else (its own results included)"""
    from traits.trait_errors import TraitError
    if type(x) is str and x.isdigit():
        return int(x)
    raise TraitError("invalid item %r" % (x,))


def _validator(vm):
    return {"coerce": _coerce_validator, "once": _once_validator}.get(vm)


def _raw(vm, x):
    """the form in which a valid item is HANDED to the list so that it ends up stored as x"""
    if vm == "id" and x in OBJ:
        return OBJ[x]
    return str(x) if vm == "once" and type(x) is int and x in VALID else x


_owners = {}


def _list_owner(vm):
    """HasTraits class with l = List(item trait validating like the TraitList validator of vm): its value is a
    TraitListObject, the subclass of TraitList the List trait uses"""
    if vm not in _owners:
        from traits.api import Any, HasTraits, List, TraitType
        fn = _validator(vm)

        class Item(TraitType):
            def validate(self, object, name, value):
                return fn(value)
        _owners[vm] = type("ListOwner_" + vm, (HasTraits,), {"l": List(Item() if fn else Any())})
    return _owners[vm]


INDEXED_OPS = ("setitem", "setslice", "delitem", "delslice", "imul", "insert", "pop")


def execute(pre, op, a, xs, vm, idxrep=0, owner=0):
    """Run one operation on a real TraitList holding `pre` (owner = 1: on the TraitListObject of a List trait, the
    events being those its owner's l_items handler receives). Returns the record for the judge."""
    _IDX_REP[0] = idxrep
    try:
        r = _execute(pre, op, a, xs, vm, owner)
    finally:
        _IDX_REP[0] = 0
    r["idxrep"] = idxrep
    if owner:
        r["owner"] = 1
    return r


def _execute(pre, op, a, xs, vm, owner=0):
    TraitList, TraitError = _mods()
    events = []
    if owner:
        return _execute_owner(pre, op, a, xs, vm, events)

    def rec(tl, index, removed, added):
        events.append(proj_ev(index, list(removed) if isinstance(removed, list) else removed,
                              list(added) if isinstance(added, list) else added))
    val = _validator(vm)
    exc = ""
    ret = None
    if op == "construct":
        try:
            tl = TraitList([conc(vm, x) for x in xs], item_validator=val, notifiers=[rec])
            post = [proj_item(x) for x in tl]
        except TraitError:
            exc = "TraitError"
            post = []
        except Exception as e:
            exc = type(e).__name__
            post = []
    else:
        tl = TraitList([_raw(vm, x) for x in pre], item_validator=val, notifiers=[rec])
        try:
            ret, other = perform(tl, op, a, xs, vm, True)
            if other is not None:
                # copies: equal content, the original untouched and silent; the copy is what we project
                if type(other) is not TraitList or [proj_item(x) for x in tl] != list(pre):
                    exc = "CopyBroken"
                post = [proj_item(x) for x in other]
            else:
                post = [proj_item(x) for x in tl]
        except TraitError:
            exc = "TraitError"
            post = [proj_item(x) for x in tl]
        except Exception as e:
            exc = type(e).__name__
            post = [proj_item(x) for x in tl]
    return _finish(pre, op, a, xs, vm, post, exc, ret, events)


def _execute_owner(pre, op, a, xs, vm, events):
    from traits.trait_errors import TraitError

    def handler(event):
        events.append(proj_ev(event.index, list(event.removed) if isinstance(event.removed, list) else event.removed,
                              list(event.added) if isinstance(event.added, list) else event.added))
    o = _list_owner(vm)()
    exc, ret = "", None
    try:
        if op == "construct":
            o.on_trait_change(handler, "l_items")
            o.l = [conc(vm, x) for x in xs]
        else:
            o.l = [_raw(vm, x) for x in pre]
            o.on_trait_change(handler, "l_items")
            ret, _ = perform(o.l, op, a, xs, vm, True)
    except TraitError:
        exc = "TraitError"
    except Exception as e:
        exc = type(e).__name__
    post = [proj_item(x) for x in o.l]
    return _finish(pre, op, a, xs, vm, post, exc, ret, events)


def _finish(pre, op, a, xs, vm, post, exc, ret, events):
    # builtin list on the validated arguments (checks the specification's own list semantics)
    bl = [_raw(vm, x) if vm == "id" else x for x in pre]
    try:
        if op == "remove":
            vxs = [conc(vm, x) for x in xs]           # (the argument of remove is not validated)
        else:
            vxs = [(_validator(vm)(conc(vm, x)) if _validator(vm) else conc(vm, x)) for x in xs]
        if op == "construct":
            bl = list(vxs)
        elif op == "copy":
            pass
        else:
            perform(bl, op, a, vxs, "id", False)
    except Exception:
        bl = [_raw(vm, x) if vm == "id" else x for x in pre]
    return {"op": op, "a": list(a), "xs": list(xs), "vm": vm, "pre": list(pre), "post": post,
            "exc": exc, "ret": NONE if ret is None else proj_item(ret), "evs": events,
            "builtin": [proj_item(x) for x in bl]}


def case_fn(st, rep):
    last = st["last"]
    if last["op"] == "init":
        return None
    if rep == 1 and last["op"] not in INDEXED_OPS:
        return None
    if rep == 2:
        # the TraitListObject of a List trait (copies of it are C14's business); a third of the cases in the quick tier
        if last["op"] == "copy" or (_OWNER_SAMPLE[0] > 1 and hash(repr(last)) % _OWNER_SAMPLE[0]):
            return None
    r = execute(list(last["pre"]), last["op"], list(last["a"]), list(last["xs"]), last["vm"], idxrep=rep if rep < 2 else 0,
                owner=1 if rep == 2 else 0)
    fail = None
    exp_post = list(last["post"])
    why = []
    if r["post"] != exp_post:
        why.append("contents %r, specification %r" % (r["post"], exp_post))
    if r["exc"] not in last["excs"]:
        why.append("exception %r, specification allows %r" % (r["exc"], sorted(last["excs"])))
    if r["ret"] != last["ret"]:
        why.append("return %r, specification %r" % (r["ret"], last["ret"]))
    if why:
        fail = ("C05:replay:%s" % last["op"],
                "%s%r xs=%r on %r (validator %s): %s" % (last["op"], tuple(last["a"]), list(last["xs"]),
                                                         list(last["pre"]), last["vm"], "; ".join(why)), r)
    return {"fail": fail, "line": r, "sample": r}


_OWNER_SAMPLE = [3]


def history_lines(seed, ntraces, steps, maxlen=9):
    """Seeded multi-step histories on longer lists; every step is one record (pre/post are snapshots
    of the real object, so consecutive records chain)."""
    rnd = random.Random(seed)
    TraitList, TraitError = _mods()
    out = []
    ops = ["setitem", "setslice", "delitem", "delslice", "append", "extend", "iadd", "imul", "insert",
           "pop", "remove", "reverse", "sort", "clear", "copy"]
    for t in range(ntraces):
        vm = rnd.choice(["id", "coerce", "once"])
        items = [1, 2, 3, 4] + ([11, 12, 99] if vm == "id" else [])
        objmode = vm == "id" and rnd.random() < 0.5        # items as objects: twins and a not-self-equal one
        if objmode:
            items = [105, 106, 107, 1]
        cur = [rnd.choice(items) for _ in range(rnd.randint(0, 6))]
        own = 1 if rnd.random() < 0.3 else 0
        for _ in range(steps):
            op = rnd.choice(ops)
            n = len(cur)
            ri = lambda: rnd.randint(-n - 3, n + 3)
            ro = lambda: NONE if rnd.random() < 0.25 else ri()
            a = [0, 0, 0]
            xs = []
            argitems = [105, 106, 107, 1, 105, 106, 107, 2] if objmode else [1, 2, 3, 4, 11, 12, 13, 99]
            if op in ("setitem", "insert"):
                a[0] = ri()
                xs = [rnd.choice(argitems)]
            elif op in ("append", "remove"):
                xs = [rnd.choice(argitems if op == "append" else items + [3])]
            elif op == "setslice":
                a = [ro(), ro(), rnd.choice([NONE, 1, 1, 2, 3, -1, -2, -3, 0, 4, -4])]
                xs = [rnd.choice(([105, 106, 107, 1] if objmode else [1, 2, 3, 4, 11, 12]) + ([99] if rnd.random() < 0.1 else []))
                      for _ in range(rnd.randint(0, 4))]
                if a[2] not in (NONE, 1, 0) and rnd.random() < 0.7:
                    # make extended-slice sizes match most of the time
                    k = len(range(*slice(_opt(a[0]), _opt(a[1]), a[2]).indices(n)))
                    xs = [rnd.choice([105, 106, 107, 1] if objmode else [1, 2, 3, 4, 11]) for _ in range(k)]
            elif op == "delslice":
                a = [ro(), ro(), rnd.choice([NONE, 1, 2, 3, -1, -2, -3, 0, 4])]
            elif op == "delitem":
                a[0] = ri()
            elif op in ("extend", "iadd"):
                xs = [rnd.choice(argitems[:-1] + ([99] if rnd.random() < 0.15 else [])) for _ in range(rnd.randint(0, 3))]
            elif op == "imul":
                a[0] = rnd.choice([-1, 0, 1, 2, 2, 3]) if n <= 4 else rnd.choice([0, 1, 1, 2])
            elif op == "pop":
                a[0] = ro()
            elif op == "sort":
                a = [rnd.randint(0, 1), rnd.randint(0, 1), 0]
            elif op == "copy":
                a[0] = rnd.randint(0, 2)
            if len(cur) > maxlen and op in ("extend", "iadd", "imul", "append", "insert"):
                op, a, xs = "delslice", [NONE, NONE, 2], []
            r = execute(cur, op, a, xs, vm, idxrep=1 if rnd.random() < 0.2 else 0, owner=own if op != "copy" else 0)
            r["tid"] = t
            out.append(r)
            if op != "copy":
                cur = list(r["post"])
                if any(x == 777 for x in cur):
                    break
    return out


def run(rep, tier, seed):
    build.install()
    work = tlc.scratch_dir("c05_")
    try:
        cfg = "TraitListMC_%s.cfg" % tier
        dump = os.path.join(work, "cases")
        res = tlc.run_tlc("TraitListMC", cfg, dump=dump, coverage=False, timeout=3000, workers=8,
                          heap="4g" if tier == "quick" else "12g")
        rep.add_tlc("TraitListMC", res)
        trace = os.path.join(work, "trace.ndjson")
        _OWNER_SAMPLE[0] = 3 if tier == "quick" else 1
        tot = cases.run_dump_cases(dump + ".dump", case_fn, out_ndjson=trace, reps=3)
        os.unlink(dump + ".dump")
        if tot["ncases"] == 0:
            raise MachineryError("no cases in dump")
        rep.case(tot["ncases"])
        # items as objects (equal-but-distinct twins, an item that is not equal to itself): second enumeration
        res2 = tlc.run_tlc("TraitListMC", "TraitListMC_objects_%s.cfg" % tier, dump=dump, coverage=False, timeout=3000, workers=8)
        rep.add_tlc("TraitListMC[objects]", res2)
        trace2 = os.path.join(work, "trace2.ndjson")
        tot2 = cases.run_dump_cases(dump + ".dump", case_fn, out_ndjson=trace2, reps=3)
        os.unlink(dump + ".dump")
        if tot2["ncases"] == 0:
            raise MachineryError("no object-item cases in dump")
        with open(trace, "a") as out, open(trace2) as f2:
            shutil.copyfileobj(f2, out)
        os.unlink(trace2)
        for k in ("ncases", "nlines", "nfail"):
            tot[k] += tot2[k]
        tot["fails"] = (tot["fails"] + tot2["fails"])[:60]
        rep.case(tot2["ncases"])
        rep.extra["object_item_cases"] = tot2["ncases"]
        for f in tot["fails"]:
            rep.violation(f[0], f[1], case=f[2])
        if tot["nfail"] > len(tot["fails"]):
            rep.notes.append("%d replay mismatches in total" % tot["nfail"])
        for s in tot["samples"][:2]:
            rep.sample(s)
        # seeded histories on longer lists
        nh, steps = (400, 25) if tier == "quick" else (6000, 40)
        hl = history_lines(seed, nh, steps)
        import json
        with open(trace, "a") as f:
            for r in hl:
                f.write(json.dumps(r, separators=(",", ":")) + "\n")
        rep.case(len(hl))
        rep.sample(hl[len(hl) // 2])
        n = tot["nlines"] + len(hl)
        judge.judge(rep, "Trace_TraitList", "Trace_TraitList", "Trace_TraitList.cfg", trace, n,
                    sig_of=lambda rec, cl: "C05:judge:%s%s%s:%s" % (rec["op"], ":index-object" if rec.get("idxrep") else "",
                                                                     ":List-trait" if rec.get("owner") else "",
                                                                   "+".join(cl)),
                    heap="8g" if tier == "quick" else "24g")
        # the repository's own tests as a driver: every TraitList mutation they make, judged by the same specification
        from .. import suite_phase
        ns = suite_phase.run(rep, "C05", "list", tier,
                             sig_of=lambda rec, cl: "C05:suite:%s:%s" % (rec["op"], "+".join(cl)))
        rep.rule = ("cases = every (initial list, validator, operation, arguments) state enumerated by TLC from "
                    "TraitListMC (%s), each executed on a real TraitList and on a builtin list, plus %d seeded "
                    "history steps on lists up to length ~12; every record judged by TLC (Trace_TraitList): "
                    "outcome, exception class, return value, event law; plus %d TraitList operations recorded while the "
                    "repository's own tests ran, judged by the same judge" % (cfg, len(hl), ns))
        rep.exhaustive = True
        rep.extra["cases_from_tlc_dump"] = tot["ncases"]
        rep.extra["history_steps"] = len(hl)
        rep.assumptions += ["items are small ints / digit strings; validator is identity or an int-coercing function",
                            "notifier callables themselves do not raise (documented expectation)"]
    finally:
        shutil.rmtree(work, ignore_errors=True)


def replay(rep, path):
    import json
    build.install()
    obj = json.load(open(path))
    c = obj.get("case") or {}
    rec = c.get("record", c)
    r = execute(rec["pre"], rec["op"], rec["a"], rec["xs"], rec["vm"], rec.get("idxrep", 0))
    print("recorded:", rec)
    print("now     :", r)
