"""Shared driver of C01 and C03: real traits built from Validate.tla configurations, assignments by three
routes, the C path (CTrait.validate) and the Python path (handler.validate); projection to [ty, num, s]."""
import json
import math
import os
import shutil
import types

from .. import build, tlc, cases, judge, tlaval
from ..core import MachineryError

NoNum, NaN, PosInf, NegInf, NegZero, Huge, Other = 999, 901, 902, 903, 904, 905, 998
_state = {}


def world():
    if _state:
        return _state
    build.install()
    import numpy as np

    from .valclasses import A, B, C

    class IntSub(int):
        pass

    class FloatSub(float):
        pass

    class StrSub(str):
        pass

    class IdxObj(object):
        def __index__(self):
            return 3

    class IdxRaise(object):
        def __index__(self):
            raise ZeroDivisionError("index")

    class FltObj(object):
        def __float__(self):
            return 2.5

    class FltRaise(object):
        def __float__(self):
            raise ZeroDivisionError("float")

    class CplxObj(object):
        def __complex__(self):
            return 1j

    def fn():
        return None

    class LieStr(object):
        """an object that only SAYS it is a str (as unittest.mock.Mock(spec=str) does)"""
        __class__ = property(lambda self: str)
    import weakref
    import collections
    NT = collections.namedtuple("NT", "a b")
    _keep = A()
    toks = {
        "none": None, "i_m1": -1, "i0": 0, "i1": 1, "i2": 2, "i5": 5, "i10": 10, "ihuge": 10 ** 400,
        "bT": True, "bF": False, "isub3": IntSub(3), "npi3": np.int64(3), "npbT": np.bool_(True),
        "idx3": IdxObj(), "idxR": IdxRaise(),
        "fm1": -1.0, "f0": 0.0, "f1": 1.0, "f2h": 2.5, "f5": 5.0, "f10": 10.0, "fnan": float("nan"),
        "finf": float("inf"), "fninf": float("-inf"), "fnz": -0.0, "fsub1": FloatSub(1.0), "npf1": np.float64(1.0),
        "npf32": np.float32(1.0), "flt2h": FltObj(), "fltR": FltRaise(), "c1j": 1j, "cobj": CplxObj(),
        "s_": "", "s_a": "a", "s_aaa": "aaa", "s_abc": "abc", "s_5": "5", "s_2h": "2.5", "s_10": "10", "s_9": "9", "ssub_a": StrSub("a"),
        "by_a": b"a", "t_": (), "t_1a": (1, "a"), "t_2h5": (2.5, "5"), "t_1a1": (1, "a", 1), "t_12": (1, 2), "t_s10s9": ("10", "9"), "t_s9s10": ("9", "10"), "l_1a": [1, "a"],
        "fn": fn, "cA": A, "cB": B, "cC": C, "oA": A(), "oB": B(), "oC": C(), "mod": math, "obj": object(),
        "pxA": weakref.proxy(_keep), "lieS": LieStr(), "oSelf": None, "t_selfa": None,     # (made per holder class)
        "nt_1a": NT(1, "a"), "nt_5a": NT("5", "a"),
    }
    _state.update(NT=NT, _keep=_keep, LieStr=LieStr, np=np, A=A, B=B, C=C, toks=toks, IntSub=IntSub, FloatSub=FloatSub, StrSub=StrSub, IdxObj=IdxObj,
                  IdxRaise=IdxRaise, FltObj=FltObj, FltRaise=FltRaise, CplxObj=CplxObj, classes={})
    return _state


def num_of(x):
    if isinstance(x, float):
        if x != x:
            return NaN
        if x == float("inf"):
            return PosInf
        if x == float("-inf"):
            return NegInf
        if x == 0 and math.copysign(1.0, x) < 0:
            return NegZero
        h = x * 2
        return int(h) if h == int(h) and abs(h) < 400 else Other
    if x == 10 ** 400:
        return Huge
    return 2 * int(x) if abs(int(x)) < 200 else Other


def proj(x, loose_str=False, strlen=False):
    if strlen and type(x) is str:
        return {"ty": "str", "num": len(x), "s": "?" if loose_str else x if x in ("", "a", "aaa", "abc", "5", "2.5", "10", "9") else "other"}
    w = world()
    np = w["np"]
    t = type(x)
    r = None
    if x is None:
        r = ("none", NoNum, "")
    elif t is bool:
        r = ("bool", 2 if x else 0, "")
    elif t is int:
        r = ("int", num_of(x), "")
    elif t is float:
        r = ("float", num_of(x), "")
    elif t is complex:
        r = ("complex", NoNum, "1j") if x == 1j else ("complex", num_of(x.real) if x.imag == 0 else Other, "")
    elif t is str:
        r = ("str", NoNum, "?" if loose_str else x if x in ("", "a", "aaa", "abc", "5", "2.5", "10", "9") else "other")
    elif t is bytes:
        r = ("bytes", NoNum, "a")
    elif t is tuple:
        r = ("tuple", NoNum, "T")
    elif t is w["NT"]:
        r = ("tuplesub", NoNum, "T")
    elif t is list:
        r = ("list", NoNum, "L")
    elif t is w["IntSub"]:
        r = ("intsub", num_of(x), "")
    elif t is w["FloatSub"]:
        r = ("floatsub", num_of(float(x)), "")
    elif t is w["StrSub"]:
        r = ("strsub", NoNum, str.__str__(x))
    elif t is np.int64:
        r = ("npint", num_of(int(x)), "")
    elif t is np.float64:
        r = ("npfloat64", num_of(float(x)), "")
    elif t is np.float32:
        r = ("npfloat32", num_of(float(x)), "")
    elif t is np.bool_:
        r = ("npbool", 2 if x else 0, "")
    elif t is w["IdxObj"]:
        r = ("idxobj", 6, "")
    elif t is w["IdxRaise"]:
        r = ("idxraise", NoNum, "")
    elif t is w["FltObj"]:
        r = ("fltobj", 5, "")
    elif t is w["FltRaise"]:
        r = ("fltraise", NoNum, "")
    elif t is w["CplxObj"]:
        r = ("cplxobj", NoNum, "1j")
    elif t is types.FunctionType:
        r = ("function", NoNum, "")
    elif t is type:
        r = ("class", NoNum, {w["A"]: "A", w["B"]: "B", w["C"]: "C"}.get(x, "?"))
    elif t in (w["A"], w["B"], w["C"]):
        r = ("inst", NoNum, t.__name__)
    elif t is w["LieStr"]:
        r = ("liar", NoNum, "str")
    elif t.__name__.startswith(("V_", "VP_")):
        r = ("self", NoNum, "")
    elif t.__name__ in ("weakproxy", "ProxyType"):
        r = ("proxy", NoNum, "A")
    elif t is types.ModuleType:
        r = ("module", NoNum, "")
    elif t is object:
        r = ("object", NoNum, "")
    else:
        r = ("unknown:" + t.__name__, NoNum, "")
    return {"ty": r[0], "num": r[1], "s": r[2]}


def trait_of(cfg):
    from traits import api as T
    w = world()
    t, fast = cfg["t"], cfg["fast"]
    half = lambda h: None if h == NoNum else h / 2.0
    if t == "NoneT":
        return None
    if t in _LEGACY:
        return legacy_trait(cfg)
    if t in ("Int", "Float", "Complex", "Str", "Bytes", "Bool", "CInt", "CFloat", "CStr", "CBool", "Any", "CComplex"):
        return getattr(T, t if (fast or t == "Any") else "Base" + t)()
    if t == "RangeF":
        return (T.Range if fast else T.BaseRange)(low=half(cfg["lo"]), high=half(cfg["hi"]), exclude_low=cfg["xl"],
                                                  exclude_high=cfg["xh"])
    if t == "RangeI":
        ih = lambda h: None if h == NoNum else h // 2
        return T.Range(low=ih(cfg["lo"]), high=ih(cfg["hi"]), exclude_low=cfg["xl"], exclude_high=cfg["xh"])
    if t == "Enum":
        vals = [w["toks"][v] for v in sorted(cfg["vals"])]
        return (T.Enum if fast else T.BaseEnum)(*vals)
    if t == "Instance":
        if cfg.get("nm"):
            return T.Instance("harness.drivers.valclasses." + cfg["k"], allow_none=cfg["an"])
        if cfg.get("re"):
            # the None policy is given when the definition is cloned: Instance(K, allow_none=not an)(allow_none=an)
            return T.Instance(w[cfg["k"]], allow_none=not cfg["an"])(allow_none=cfg["an"])
        return T.Instance(w[cfg["k"]], allow_none=cfg["an"])
    if t == "InstAd":
        if cfg.get("re"):
            return T.Instance(w[cfg["k"]], adapt="yes", allow_none=not cfg["an"])(allow_none=cfg["an"])
        if cfg["k"] == "B" and cfg["mn"] == 1:
            return T.Supports(w["B"], allow_none=cfg["an"])              # (Supports = Instance with adapt="yes")
        return T.Instance(w[cfg["k"]], adapt={1: "yes", 2: "default"}[cfg["mn"]], allow_none=cfg["an"])
    if t == "String":
        import sys
        return T.String(minlen=cfg["mn"], maxlen=sys.maxsize if cfg["mx"] == NoNum else cfg["mx"],
                        regex="^a+$" if cfg["re"] else "")
    if t in ("Map", "PrefixMap", "PrefixList"):
        mapval = {"s_a": 1, "s_aaa": 2, "s_abc": 5, "s_5": 10}
        keys = sorted(cfg["vals"])
        if t == "PrefixList":
            return T.PrefixList([w["toks"][k] for k in keys])
        return getattr(T, t)({w["toks"][k]: mapval[k] for k in keys})
    if t == "VTuple":
        return T.ValidatedTuple(*[trait_of(m) for m in cfg["ms"]], fvalidate=lambda tup: tup[0] < tup[1])
    if t == "Type":
        return T.Type(w[cfg["k"]], allow_none=cfg["an"])
    if t == "This":
        return T.This(allow_none=cfg["an"])
    if t == "Callable":
        return T.Callable(allow_none=cfg["an"])
    if t == "Tuple":
        return (T.Tuple if fast else T.BaseTuple)(*[trait_of(m) for m in cfg["ms"]])
    if t == "Union":
        ms = [trait_of(m) for m in cfg["ms"]]
        return T.Either(*ms) if fast else T.Union(*ms)
    raise MachineryError("trait type " + t)


_LEGACY = ("TCoerce", "TCast", "TInst", "TFunc", "TEnum", "TMap", "TUnion")
_PYTYPES = {"float": float, "complex": complex, "int": int, "str": str, "bool": bool}
_CONSTS = {"float": 0.0, "complex": 0j, "int": 0, "str": "", "bool": False}
_MAPVAL = {"s_a": 1, "s_aaa": 2, "s_abc": 5, "s_5": 10}


def _legacy_fval(obj, name, value):
    """the validator function of TFunc (Validate.tla FuncV)"""
    from traits.trait_errors import TraitError
    if type(value) is int and value >= 0:
        return value
    if type(value) is str and value == "5":
        return 5
    raise TraitError("not acceptable")


def legacy_item(cfg):
    """the item standing for the configuration in the argument list of Trait(default, item, ...)"""
    from traits import trait_handlers as H
    w = world()
    t = cfg["t"]
    if t == "TCoerce":
        return _PYTYPES[cfg["k"]]                       # a Python type -> TraitCoerceType
    if t == "TCast":
        return H.TraitCastType(_PYTYPES[cfg["k"]])
    if t == "TInst":
        return H.TraitInstance(w[cfg["k"]], allow_none=cfg["an"])
    if t == "TFunc":
        return _legacy_fval                             # a function -> TraitFunction
    if t == "TEnum":
        return H.TraitEnum([w["toks"][v] for v in sorted(cfg["vals"])])
    if t == "TMap":
        return {w["toks"][k]: _MAPVAL[k] for k in sorted(cfg["vals"])}     # a dict -> TraitMap
    raise MachineryError("legacy item " + t)


def legacy_trait(cfg):
    """the trait as the Trait() factory makes it (the forms of its documented table)"""
    import warnings
    from traits.api import Trait
    w = world()
    t = cfg["t"]
    with warnings.catch_warnings():
        warnings.simplefilter("ignore")
        if t == "TCoerce":
            return Trait(_PYTYPES[cfg["k"]])                # Trait(type)
        if t == "TCast":
            return Trait(_CONSTS[cfg["k"]])                 # Trait(constant): the type is inferred
        if t == "TInst":
            if cfg.get("nm"):
                return Trait(w[cfg["k"]])                   # Trait(class)
            from traits.trait_handlers import TraitInstance
            return Trait(None, w[cfg["k"]]) if cfg["an"] else Trait(TraitInstance(w[cfg["k"]], allow_none=False))
        if t == "TFunc":
            return Trait(0, _legacy_fval)
        if t == "TEnum":
            vals = [w["toks"][v] for v in sorted(cfg["vals"])]
            return Trait(vals[0], *vals)
        if t == "TMap":
            keys = sorted(cfg["vals"])
            return Trait(w["toks"][keys[0]], {w["toks"][k]: _MAPVAL[k] for k in keys})
        if t == "TUnion":
            return Trait(None, *[legacy_item(m) for m in cfg["ms"]])
    raise MachineryError("legacy trait " + t)


def has_lazy_name(cfg):
    return bool(cfg.get("nm")) or any(has_lazy_name(m) for m in cfg["ms"])


def holder(cfg, via=None, shape=None):
    if has_lazy_name(cfg) and via is None:
        # a class name that is resolved on first use: every case gets a FRESH class and trait (what the first use does
        # to the trait - and to later uses - is part of the case, not an accident of the order of the cases)
        w = world()
        key = json.dumps(cfg, sort_keys=True) + "|" + str(via) + "|" + str(shape)
        w["classes"].pop(key, None)
    return _holder(cfg, via, shape)


def _holder(cfg, via=None, shape=None):
    """via: None | "pickle" | "deepcopy": the trait DEFINITION object (CTrait) is round-tripped first (C14)
    shape: None: the trait is the class attribute x itself; "proto": x = PrototypedFrom("parent") where parent.x is the
    trait (the assigned value is validated by the prototype's trait and stored on the object itself); "prop": x =
    Property(trait) with a storing setter (the setter receives the validated value)"""
    w = world()
    key = json.dumps(cfg, sort_keys=True) + "|" + str(via) + "|" + str(shape)
    if key not in w["classes"] and shape is not None:
        from traits import api as T
        tr = trait_of(cfg)
        n = len(w["classes"])
        if shape == "proto":
            parent = type("VP_%d" % n, (T.HasTraits,), {"x": tr})
            cls = type("V_%d" % n, (T.HasTraits,), {"parent": T.Instance(parent, ()), "x": T.PrototypedFrom("parent"),
                                                    "y": T.Int(7), "z": T.Str("z")})
        else:
            def _get_x(self):
                return self.__dict__.get("_store", None)

            def _set_x(self, value):
                self.__dict__["_store"] = value
            cls = type("V_%d" % n, (T.HasTraits,), {"x": T.Property(tr), "_get_x": _get_x, "_set_x": _set_x,
                                                    "y": T.Int(7), "z": T.Str("z")})
        w["classes"][key] = cls
    if key not in w["classes"]:
        from traits import api as T
        tr = trait_of(cfg)
        if via is not None:
            import copy as _copy
            import pickle as _pickle
            from traits.trait_converters import trait_from
            ct = trait_from(tr)
            tr = _pickle.loads(_pickle.dumps(ct)) if via == "pickle" else _copy.deepcopy(ct)
        cls = type("V_%d" % len(w["classes"]), (T.HasTraits,), {"x": tr, "y": T.Int(7), "z": T.Str("z")})
        w["classes"][key] = cls
    return w["classes"][key]


def outcome(fn, loose, strlen=False):
    from traits.trait_errors import TraitError
    try:
        v = fn()
    except TraitError as e:
        return {"tag": "reject", "w": {"ty": "none", "num": NoNum, "s": ""}, "e": "", "members": []}, str(e)
    except Exception as e:
        return {"tag": "prop", "w": {"ty": "none", "num": NoNum, "s": ""}, "e": type(e).__name__, "members": []}, ""
    members = [proj(m, loose) for m in v] if isinstance(v, tuple) else []
    return {"tag": "store", "w": proj(v, loose, strlen), "e": "", "members": members}, ""


def is_loose(cfg):
    return cfg["t"] in ("CStr", "String") or (cfg["t"] == "TCast" and cfg["k"] == "str") or any(is_loose(m) for m in cfg["ms"])


def has_string(cfg):
    return cfg["t"] == "String" or any(has_string(m) for m in cfg["ms"])


def execute(cfg, tok, route, via=None):
    w = world()
    shape = route if route in ("proto", "prop") else None
    if shape and (cfg["t"] in ("Map", "PrefixMap", "NoneT", "TMap") or via is not None):
        return None          # the shadow attribute of mapped traits is a feature of direct declarations
    try:
        cls = holder(cfg, via, shape)
    except (TypeError, AttributeError, __import__("pickle").PicklingError) as e:
        if via is None:
            raise
        # a definition that pickle refuses cleanly has not "survived with different behaviour": outside the quantifier
        o = {"tag": "unpicklable", "w": {"ty": "none", "num": NoNum, "s": ""}, "e": type(e).__name__, "members": []}
        return {"cfg": cfg, "tok": tok, "route": route, "a": o, "f": o, "p": o, "frame": 1, "msg": 1, "sh": proj(None),
                "via": via or "", "skip": 1}
    v = w["toks"][tok]
    if tok in ("oSelf", "t_selfa"):
        # an instance of the class of the object the assignment is made on
        me = cls()
        v = me if tok == "oSelf" else (me, "a")
    loose = is_loose(cfg) and not isinstance(v, str)
    strlen = cfg["t"] == "String"
    obj = cls()
    frame = 1
    msg = 1
    before = None
    if route == "ctor":
        def run():
            o = cls(x=v)
            return o, o.x
    else:
        try:
            before = (obj.x, obj.y, obj.z)
        except Exception:
            before = None

        def run():
            if route in ("setattr", "proto", "prop"):
                obj.x = v
            elif route == "listened":
                # the object has a handler on x, hence its own instance-level copy of the trait
                obj.on_trait_change(_noop, "x")
                obj.x = v
            elif route == "trait_setq":
                obj.trait_setq(x=v)
            else:
                obj.trait_set(x=v)
            return obj, obj.x
    holder_box = {}

    def do():
        o, val = run()
        holder_box["o"] = o
        return val
    a, text = outcome(do, loose, strlen)
    if a["tag"] == "reject" and "'x'" not in text and " x " not in text:
        msg = 0
    o = holder_box.get("o", obj)
    if a["tag"] == "store":
        if (o.y, o.z) != (7, "z"):
            frame = 0
    elif route != "ctor" and before is not None:
        now = (obj.x, obj.y, obj.z)
        same = all((p is q) or (p == q) for p, q in zip(before, now))
        if not same:
            frame = 0
    ctrait = obj.trait("x") if shape is None else (obj.parent.trait("x") if shape == "proto" else obj.trait("x").handler.inner_traits[0] if False else None)
    if shape == "prop":
        from traits.trait_converters import trait_from
        ctrait = trait_from(trait_of(cfg))
    sh = proj(None)
    if cfg["t"] in ("Map", "PrefixMap", "TMap") and a["tag"] == "store":
        try:
            sh = proj(o.x_)
        except Exception as e:
            sh = {"ty": "error:" + type(e).__name__, "num": NoNum, "s": ""}
    f, _ = outcome(lambda: ctrait.validate(obj, "x", v), loose, strlen)
    handler = ctrait.handler
    if getattr(handler, "validate", None) is None:
        p = f                      # no Python-level method at all (Any)
    else:
        import warnings
        with warnings.catch_warnings():
            warnings.simplefilter("ignore")
            p, _ = outcome(lambda: handler.validate(obj, "x", v), loose, strlen)
    return {"cfg": cfg, "tok": tok, "route": route, "a": a, "f": f, "p": p, "frame": frame, "msg": msg, "sh": sh,
            "via": via or "", "skip": 0}


ROUTES = ["setattr", "ctor", "trait_set", "trait_setq", "proto", "prop", "listened"]


def _noop():
    pass


def plain_cfg(c):
    return {"t": str(c["t"]), "fast": bool(c["fast"]), "lo": c["lo"], "hi": c["hi"], "xl": bool(c["xl"]), "xh": bool(c["xh"]),
            "an": bool(c["an"]), "k": str(c["k"]), "vals": sorted(str(v) for v in c["vals"]),
            "ms": [plain_cfg(m) for m in c["ms"]], "mn": c["mn"], "mx": c["mx"], "re": bool(c["re"]), "nm": bool(c["nm"])}


def case_fn(st, rep):
    if rep >= len(ROUTES):
        return None
    r = execute(plain_cfg(st["cfg"]), str(st["tok"]), ROUTES[rep])
    if r is None:
        return None
    return {"fail": None, "line": r, "sample": r}


C01_CLAUSES = ("assign-", "C01-")
C03_CLAUSES = ("cpath-", "pypath-", "C03-")


def run_for(rep, tier, seed, pid):
    build.install()
    world()
    prefixes = C01_CLAUSES if pid == "C01" else C03_CLAUSES
    work = tlc.scratch_dir("val_")
    try:
        dump = os.path.join(work, "cases")
        res = tlc.run_tlc("ValidateMC", "ValidateMC_%s.cfg" % tier, dump=dump, timeout=3000, workers=4)
        rep.add_tlc("ValidateMC", res)
        if not res.ok:
            return                 # the specification itself violates a property (reported); the dump is incomplete
        trace = os.path.join(work, "trace.ndjson")
        tot = cases.run_dump_cases(dump + ".dump", case_fn, out_ndjson=trace, reps=len(ROUTES))
        os.unlink(dump + ".dump")
        if tot["ncases"] == 0:
            raise MachineryError("no cases in dump")
        rep.case(tot["ncases"])
        for s in tot["samples"][:3]:
            rep.sample(s)

        def sig_of(rec, cl):
            mine = [c for c in cl if c.startswith(prefixes)]
            if not mine:
                return None
            return classify(pid, rec, mine)
        # the judge reports every clause; only those of this property count for this check
        n = judge_filtered(rep, trace, tot["nlines"], sig_of)
        rep.rule = ("every (trait configuration, value) pair of ValidateMC (%d states) instantiated as a real trait and a "
                    "concrete value; assignment by attribute, constructor keyword and trait_set, CTrait.validate (compiled "
                    "path) and handler.validate (Python path) recorded and judged by TLC against Fast/Py/Assign/InDomain of "
                    "Validate.tla" % res.distinct)
        rep.exhaustive = True
        rep.extra["cases_from_tlc_dump"] = tot["ncases"]
    finally:
        shutil.rmtree(work, ignore_errors=True)


def judge_filtered(rep, trace, n, sig_of):
    """like judge.judge, but a reject whose clauses all belong to the other property is not a violation here"""
    from .. import tlc as _tlc
    from .. import judge as _judge
    chunks = _judge.split_trace(trace)
    if chunks:
        if sum(k for _, k in chunks) != n:
            raise MachineryError("trace has %d records, expected %d" % (sum(k for _, k in chunks), n))
        tot = 0
        for path, k in chunks:
            tot += judge_filtered(rep, path, k, sig_of) or 0
            os.unlink(path)
        return tot
    res = _tlc.run_tlc("Trace_Validate", "Trace_Validate.cfg", workers=2, env={"TRACE_FILE": trace}, timeout=3000, heap="6g")
    rep.add_tlc("Trace_Validate", res)
    if res.distinct != n + 65:
        raise MachineryError("judge visited %d states, expected %d records" % (res.distinct, n))
    rejects = tlaval.find_printed(res.stdout, "REJECT")
    if res.stdout.count('"REJECT"') != len(rejects):
        raise MachineryError("REJECT markers %d != parsed %d" % (res.stdout.count('"REJECT"'), len(rejects)))
    seen = {}
    for r in rejects:
        seen.setdefault(r[0], r[1])
    recs = {}
    if seen:
        with open(trace) as f:
            for k, line in enumerate(f, 1):
                if k in seen:
                    recs[k] = json.loads(line)
    for i in sorted(seen):
        cl = sorted(str(c) for c in seen[i])
        sig = sig_of(recs[i], cl)
        if sig is None:
            continue
        rep.violation(sig, "recorded execution rejected by Trace_Validate, clauses %s: cfg=%s value=%s route=%s assign=%s "
                           "cpath=%s pypath=%s" % (cl, short_cfg(recs[i]["cfg"]), recs[i]["tok"], recs[i]["route"],
                                                    short_out(recs[i]["a"]), short_out(recs[i]["f"]), short_out(recs[i]["p"])),
                      case={"record": recs[i], "clauses": cl, "judge": "Trace_Validate"})
    return len(seen)


def short_cfg(c):
    s = c["t"] + ("" if c["fast"] else "[py]")
    ex = []
    if c["lo"] != NoNum or c["hi"] != NoNum:
        ex.append("%s%s..%s%s" % ("(" if c["xl"] else "[", c["lo"], c["hi"], ")" if c["xh"] else "]"))
    if c["k"]:
        ex.append(c["k"])
    if c["an"]:
        ex.append("allow_none")
    if c["vals"]:
        ex.append(",".join(c["vals"]))
    if c["ms"]:
        ex.append(";".join(short_cfg(m) for m in c["ms"]))
    return s + ("(" + " ".join(ex) + ")" if ex else "")


def short_out(o):
    if o["tag"] == "store":
        return "store(%s,%s,%s%s)" % (o["w"]["ty"], o["w"]["num"], o["w"]["s"],
                                       "," + str([(m["ty"], m["num"], m["s"]) for m in o["members"]]) if o["members"] else "")
    return o["tag"] + (":" + o["e"] if o["e"] else "")


def involves(cfg, tok, pred):
    """does pred(cfg, tok) hold for the configuration or one of its members (on the member's item)?"""
    w = world()
    if pred(cfg, tok):
        return True
    if cfg["t"] in ("Union", "TUnion"):
        return any(involves(m, tok, pred) for m in cfg["ms"])
    if cfg["t"] == "Tuple":
        v = w["toks"][tok]
        if isinstance(v, (tuple, list)) and len(v) == len(cfg["ms"]):
            inv = {id(o): t for t, o in w["toks"].items()}
            rev = {"nt_1a": ["i1", "s_a"], "nt_5a": ["s_5", "s_a"], "t_selfa": ["oSelf", "s_a"], "t_1a": ["i1", "s_a"], "t_2h5": ["f2h", "s_5"], "t_1a1": ["i1", "s_a", "i1"], "t_12": ["i1", "i2"], "t_s10s9": ["s_10", "s_9"], "t_s9s10": ["s_9", "s_10"], "l_1a": ["i1", "s_a"], "t_": []}
            its = rev.get(tok, [])
            return any(involves(m, it, pred) for m, it in zip(cfg["ms"], its))
    return False


def classify(pid, rec, clauses):
    """signature of a rejected record: the known-finding classes are named by their guard"""
    cfg, tok = rec["cfg"], rec["tok"]
    w = world()
    nanlike = lambda c, t: c["t"] == "RangeF" and t == "fnan"
    if involves(cfg, tok, nanlike):
        return "%s:F6:float-Range-accepts-NaN" % pid
    if involves(cfg, tok, lambda c, t: c["t"] == "Callable" and not c["an"] and t == "none"):
        return "%s:F10:Callable-allow_none-False-python-validate-accepts-None" % pid
    if pid == "C03" and tok == "lieS" and involves(cfg, tok, lambda c, t: c["fast"] and t == "lieS" and (
            c["t"] == "Str" or (c["t"] == "TCoerce" and c["k"] == "str"))) and all(c.startswith(("C03-", "pypath-")) for c in clauses):
        return "C03:F28:python-validate-trusts-__class__-fast-path-checks-the-real-type"
    return "%s:judge:%s:%s" % (pid, cfg["t"], "+".join(clauses))


def replay(rep, path):
    obj = json.load(open(path))
    rec = (obj.get("case") or {}).get("record")
    print("recorded:", rec)
    print("now     :", execute(rec["cfg"], rec["tok"], rec["route"]))
