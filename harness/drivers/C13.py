"""C13 — every attribute name is governed by the right trait and its access policy.
spec/Names.tla (Governing + policies), NamesMC (histories with TLC-checked policy invariants; every state carries
its history), Trace_Names (judge folding recorded histories through the specification).
Real side: a fresh class hierarchy generated from the configuration for every history."""
import json
import os
import random
import shutil

from .. import build, tlc, cases, judge
from ..core import MachineryError

_n = [0]


VIAS = ["direct", "copy", "deepcopy", "pickle"]


def transfer(tr, via):
    """the trait DEFINITION, optionally copied / pickled as a CTrait before it is used (no effect on what it governs)"""
    if via == "direct":
        return tr
    import copy
    import pickle
    from traits.trait_converters import trait_from
    ct = trait_from(tr)
    try:
        if via == "copy":
            return copy.copy(ct)
        if via == "deepcopy":
            return copy.deepcopy(ct)
        return pickle.loads(pickle.dumps(ct))
    except (TypeError, AttributeError, pickle.PicklingError):
        return tr            # a definition that refuses to be copied (e.g. a Property with a lambda) is used as it is


def make_instance(cfg):
    build.install()
    from traits.api import (HasTraits, HasStrictTraits, HasPrivateTraits, Int, Str, ReadOnly, Constant, Event,
                            on_trait_change)
    base = {"plain": HasTraits, "strict": HasStrictTraits, "private": HasPrivateTraits}[cfg["base"]]
    via = cfg.get("via", "direct")
    T = lambda tr: transfer(tr, via)
    decl = {"base": {}, "sub": {}}
    if cfg["wf"] != "absent":
        decl[cfg["wf"]]["f_"] = T(Int)
    if cfg["wfo"] != "absent":
        decl[cfg["wfo"]]["fo_"] = T(Str)
    if cfg["wu"] != "absent":
        decl[cfg["wu"]]["__"] = T(Int)
    if cfg["explicit"]:
        decl["base"]["foo"] = T(Int)
        decl["base"]["e"] = T(Event)
        decl["sub"]["r"] = T(ReadOnly)
        decl["sub"]["k"] = T(Constant(7))
    if cfg.get("admit"):
        def _admit(self, name):
            # answers the first resolution of an undeclared name by admitting it as an Int instance trait
            if not (name.startswith("__") and name.endswith("__")) and name not in self._instance_traits():
                self.add_trait(name, Int())
        decl["base"]["_admit"] = on_trait_change("trait_added")(_admit)
    _n[0] += 1
    B = type("C13Base%d" % _n[0], (base,), decl["base"])
    S = type("C13Sub%d" % _n[0], (B,), decl["sub"])
    return S()


def proj(v):
    from traits.api import Undefined
    if v is Undefined:
        return "d_ro"
    if v is None:
        return "d_any"
    if type(v) is int:
        return {5: "i5", 0: "d_int", 7: "c"}.get(v, "other")
    if type(v) is str:
        return {"s": "s", "": "d_str", "pval": "p"}.get(v, "other")
    return "other"


def _nothing():
    pass


def replay_history(cfg, name, hist):
    from traits.api import Int, Str, ReadOnly, Event, Property
    from traits.trait_errors import TraitError
    obj = make_instance(cfg)
    nm = "".join(name)
    out = []
    for op, arg in hist:
        res = "ok"
        try:
            if op == "get":
                res = proj(getattr(obj, nm))
            elif op == "set":
                setattr(obj, nm, 5 if arg == "i5" else "s")
            elif op == "del":
                delattr(obj, nm)
            elif op == "add_trait":
                obj.add_trait(nm, transfer({"int": Int(), "str": Str(), "readonly": ReadOnly, "event": Event,
                                            "property": Property(lambda self: "pval")}[arg], cfg.get("via", "direct")))
            elif op == "add_wild":
                type(obj).add_class_trait(arg + "_", transfer(Int if arg == "f" else Str, cfg.get("via", "direct")))
            elif op == "remove_trait":
                res = "true" if obj.remove_trait(nm) else "false"
            elif op == "listen":
                obj.on_trait_change(_nothing, nm)
                obj.on_trait_change(_nothing, nm, remove=True)
            else:
                raise MachineryError(op)
        except TraitError:
            res = "TraitError"
        except AttributeError:
            res = "AttributeError"
        except Exception as e:
            res = type(e).__name__
        d = obj.__dict__
        out.append({"op": op, "arg": arg, "res": res, "stored": proj(d[nm]) if nm in d else "unset",
                    "it": 1 if nm in (obj._instance_traits() if obj.__dict__ is not None else {}) else 0})
    return out


def _cfg_of(c):
    return {"base": str(c["base"]), "wf": str(c["wf"]), "wfo": str(c["wfo"]), "wu": str(c["wu"]), "explicit": bool(c["explicit"]),
            "admit": bool(c["admit"])}


def case_fn(st, rep):
    hist = [(str(h[0]), str(h[1])) for h in st["hist"]]
    if not hist:
        return None
    cfg = _cfg_of(st["cfg"])
    name = [str(ch) for ch in st["name"]]
    _rot[0] += 1
    cfg["via"] = VIAS[_rot[0] % 4] if _rot[0] % 3 == 0 else "direct"      # the definition-transfer routes rotate over the cases
    r = {"cfg": cfg, "name": name, "hist": replay_history(cfg, name, hist)}
    return {"fail": None, "line": r, "sample": r}


_rot = [0]
NAMES = ["foo", "fo", "f", "fox", "x", "_x", "_fo", "__x__", "__x", "r", "k", "e", "foox", "f_o", "_", "___", "fo_x", "xf"]


def random_lines(seed, n, steps):
    rnd = random.Random(seed)
    out = []
    for _ in range(n):
        cfg = {"base": rnd.choice(["plain", "strict", "private"]), "wf": rnd.choice(["absent", "base", "sub"]),
               "wfo": rnd.choice(["absent", "base", "sub"]), "wu": rnd.choice(["absent", "base", "sub"]),
               "explicit": rnd.random() < 0.5, "admit": rnd.random() < 0.3, "via": rnd.choice(VIAS + ["direct"] * 4)}
        name = list(rnd.choice(NAMES))
        hist = []
        dyn = set()
        for _ in range(rnd.randint(3, steps)):
            op = rnd.choice(["get", "get", "set", "set", "set", "del", "add_trait", "remove_trait", "add_wild"])
            arg = "none"
            if op == "add_wild":
                free = [w for w in ("f", "fo") if cfg["wf" if w == "f" else "wfo"] == "absent" and w not in dyn]
                if not free:
                    op = "get"
                else:
                    arg = rnd.choice(free)
                    dyn.add(arg)
            if op == "set":
                arg = rnd.choice(["i5", "s"])
            elif op == "add_trait":
                arg = rnd.choice(["int", "str", "readonly", "event", "property"])
            hist.append((op, arg))
        out.append({"cfg": cfg, "name": name, "hist": replay_history(cfg, name, hist)})
    return out


def sig_of(rec, cl):
    k, clause = sorted(cl)[0].strip("<>").split(",")[0], cl
    return "C13:judge:%s" % "+".join(cl)


def run(rep, tier, seed):
    build.install()
    work = tlc.scratch_dir("c13_")
    try:
        cfgf = "NamesMC_%s.cfg" % tier
        dump = os.path.join(work, "cases")
        res = tlc.run_tlc("NamesMC", cfgf, dump=dump, timeout=5000, workers=8, heap="6g" if tier == "quick" else "16g")
        rep.add_tlc("NamesMC", res)
        trace = os.path.join(work, "trace.ndjson")
        tot = cases.run_dump_cases(dump + ".dump", case_fn, out_ndjson=trace)
        os.unlink(dump + ".dump")
        if tot["ncases"] == 0:
            raise MachineryError("no cases in dump")
        rep.case(tot["ncases"])
        for s in tot["samples"][:2]:
            rep.sample(s)
        rl = random_lines(seed, 3000 if tier == "quick" else 40000, 8)
        with open(trace, "a") as f:
            for r in rl:
                f.write(json.dumps(r, separators=(",", ":")) + "\n")
        rep.case(len(rl))
        rep.sample(rl[0])

        def sig(rec, cl):
            # clause is a printed <<step, clause>> pair
            c = cl[0]
            step = None
            try:
                step = int(c.split(",")[0].strip("(< "))
            except Exception:
                pass
            op = rec["hist"][step - 1]["op"] if step and step <= len(rec["hist"]) else "?"
            what = "result" if "result" in c else "stored-value" if "stored" in c else "instance-trait"
            return "C13:judge:%s:%s" % (op, what)
        judge.judge(rep, "Trace_Names", "Trace_Names", "Trace_Names.cfg", trace, tot["nlines"] + len(rl), sig_of=sig)
        rep.rule = ("TLC: all histories (get/set/del/add_trait/remove_trait, depth per cfg) of one name over 162 class "
                    "configurations (3 bases x wildcard declarations at base/subclass level x explicit traits) x 12 names "
                    "with the policy invariants; every history replayed on a freshly generated class hierarchy and folded "
                    "through the specification by TLC; plus %d random longer histories over 18 names" % len(rl))
        rep.exhaustive = True
        rep.extra["histories_from_tlc_dump"] = tot["ncases"]
        rep.extra["random_histories"] = len(rl)
    finally:
        shutil.rmtree(work, ignore_errors=True)


def replay(rep, path):
    obj = json.load(open(path))
    rec = (obj.get("case") or {}).get("record")
    print("recorded:", rec)
    print("now     :", replay_history(rec["cfg"], rec["name"], [(h["op"], h["arg"]) for h in rec["hist"]]))
