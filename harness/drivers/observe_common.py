"""Shared driver of C08 / C09 (/ C12 / C16): seeded histories on a real pool of interlinked HasTraits objects with
observe registrations; every step is recorded (pre/post heap projected from the real objects, handler calls during
the step, a reachability probe after it, notifier census) and judged by TLC against the declarative Observe.tla."""
import gc
import json
import os
import random
import shutil
import weakref

from .. import build, tlc, judge, tlaval
from ..core import MachineryError

NOBJ = 4
NOVAL = 4
NONE = 1000
EXPRS = ["csnap", "chv", "cfirst", "dlsnap", "d.items", "kids:items.value", "value", "child.value", "child:value", "child.child.value", "kids.items.value", "kids:items:value",
         "child.kids.items.value", "[child,kids.items].value", "kids.items.child.value", "d.items.value",
         "child.d:items.value", "+tracked.value", "+tracked:kids.items", "+ltracked:items.value", "child.*", "kids.items",
         "child", "s.items.value", "s.items", "child.s:items.value", "dl.items.items.value", "dl.items.items",
         "box!items.value", "box!items"]
NH = 3
XTRAIT = [None]      # ONE CTrait object handed to add_trait for every object that has no donor yet
LINK_MUTS = ("child", "kidsassign", "kids", "dassign", "d", "sassign", "s", "dlassign", "dl", "dlin", "del", "boxassign", "box")


def _api():
    build.install()
    from . import obsclasses
    return obsclasses


def expr_of(text):
    """what is handed to observe(): the text itself, or - for the catalogue entries written with "!items" - an expression
    built with the expression API whose list_items() is NOT optional"""
    if "!" not in text:
        return text
    from traits.observation.api import trait
    e = trait("box").list_items()
    if text.endswith(".value"):
        e = e.trait("value")
    return e


def project_paths(text):
    """compile_str(text) -> list of paths of [k, n, notify] (items alternatives collapsed)"""
    from traits.observation.parsing import compile_str as _compile_str

    def compile_str(t):
        return _compile_str(t) if "!" not in t else expr_of(t)._as_graphs()
    from traits.observation._named_trait_observer import NamedTraitObserver
    from traits.observation._list_item_observer import ListItemObserver
    from traits.observation._dict_item_observer import DictItemObserver
    from traits.observation._set_item_observer import SetItemObserver
    from traits.observation._filtered_trait_observer import FilteredTraitObserver
    from traits.observation._metadata_filter import MetadataFilter
    from traits.observation._anytrait_filter import anytrait_filter

    def obs(o):
        if type(o) is NamedTraitObserver:
            if o.name == "items" and o.optional:
                return ("items", "", bool(o.notify))
            return ("trait", o.name, bool(o.notify))
        if type(o) is ListItemObserver and not o.optional:
            return ("litems", "", bool(o.notify))
        if type(o) in (ListItemObserver, DictItemObserver, SetItemObserver):
            return ("items", "", bool(o.notify))
        if type(o) is FilteredTraitObserver:
            if isinstance(o.filter, MetadataFilter):
                return ("meta", o.filter.metadata_name, bool(o.notify))
            if o.filter is anytrait_filter:
                return ("any", "", bool(o.notify))
        return ("unknown", type(o).__name__, False)
    paths = set()

    def walk(g, pre):
        p = pre + (obs(g.node),)
        if not g.children:
            paths.add(p)
        for c in g.children:
            walk(c, p)
    for g in compile_str(text):
        walk(g, ())
    return [[{"k": k, "n": n, "notify": nf} for (k, n, nf) in p] for p in sorted(paths)]


class HandlerOwner(object):
    """owner of a bound-method handler (observe must not keep it alive)"""

    def __init__(self, pool, h):
        self.pool = pool
        self.h = h

    def handle(self, event):
        self.pool.log[self.h].append(self.pool.describe(event))


class Pool(object):
    def handler(self, h):
        return self.handlers[1] if h == 1 else self.owners[h].handle

    def __init__(self):
        oc = _api()
        self.objs = [None, oc.CNode()] + [oc.Node() for _ in range(NOBJ - 2)] + [oc.Bare()]
        for k in range(1, NOBJ + 1):
            self.objs[k].tokn = k
        self.objs[1].w = 1
        self.tok = {id(o): k for k, o in enumerate(self.objs) if o is not None}
        self.last_read = {}      # property -> index in self.muts of the previous read
        self.muts = []           # (pre heap, m) of every mutation so far
        self.log = {h: [] for h in range(1, NH + 1)}
        # handler 1: a plain closure over the pool; handlers 2..: bound methods of separate owner objects
        self.owners = {h: HandlerOwner(self, h) for h in range(2, NH + 1)}
        self.handlers = {1: self._mk(1)}
        self.dropped = set()
        self.regs = {}           # h -> [expr, count]
        self.census0 = self.census()

    def _mk(self, h):
        log = self.log[h]
        pool = self

        def handler(event):
            log.append(pool.describe(event))
        handler.__name__ = "handler%d" % h
        return handler

    def describe(self, event):
        from traits.observation.events import TraitChangeEvent, ListChangeEvent, DictChangeEvent, SetChangeEvent
        if isinstance(event, TraitChangeEvent):
            return ["trait", self.tok.get(id(event.object), 0), event.name]
        if isinstance(event, ListChangeEvent):
            for kk in range(1, NOBJ + 1):
                if self.objs[kk].__dict__.get("box") is event.object:
                    return ["b", kk, ""]
            k = self.owner_of(event.object)
            return ["L" if k >= 100 else "l", k, ""]
        if isinstance(event, DictChangeEvent):
            k = self.owner_of(event.object)
            return ["m" if k >= 0 else "M", abs(k), ""]
        if isinstance(event, SetChangeEvent):
            return ["s", self.owner_of(event.object), ""]
        return ["other", 0, type(event).__name__]

    def owner_of(self, container):
        """kids / d / s: the owner's number; dl: minus the owner's number; an inner list of dl: 100 * owner + key"""
        for k in range(1, NOBJ + 1):
            dd = self.objs[k].__dict__
            if dd.get("kids") is container or dd.get("d") is container or dd.get("s") is container:
                return k
            if dd.get("dl") is container:
                return -k
            for key, inner in dd.get("dl", {}).items():
                if inner is container:
                    return 100 * k + (int(key) if key.isdigit() else 77)
        return 0

    def heap(self):
        child, kids, d = [], [], []
        for k in range(1, NOBJ + 1):
            o = self.objs[k]
            c = o.__dict__.get("child")
            child.append(self.tok.get(id(c), 0) if c is not None else 0)
            # read through __dict__: projecting the heap must not materialise a default container
            kids.append([self.tok.get(id(x), 0) for x in o.__dict__.get("kids", ())])
            d.append([[int(key) if key.isdigit() else 777, self.tok.get(id(v), 0)] for key, v in o.__dict__.get("d", {}).items()])
        vals = [self.objs[k].__dict__.get("value", 0) if k != NOVAL else 0 for k in range(1, NOBJ + 1)]
        s, dl, hasx, xv = [], [], [], []
        for k in range(1, NOBJ + 1):
            o = self.objs[k]
            s.append(sorted(self.tok.get(id(x), 0) for x in o.__dict__.get("s", ())))
            dl.append([[int(key) if key.isdigit() else 777, [self.tok.get(id(x), 0) for x in inner]]
                       for key, inner in o.__dict__.get("dl", {}).items()])
            has = "extra" in o._instance_traits()
            hasx.append(1 if has else 0)
            xv.append(o.__dict__.get("extra", 0) if has else 0)
        box, boxi = [], []
        for k in range(1, NOBJ + 1):
            b = self.objs[k].__dict__.get("box", ())
            isl = isinstance(b, (list, tuple))
            box.append([self.tok.get(id(x), 0) for x in b] if isl else [])
            boxi.append(0 if isl else 1)
        return {"child": child, "kids": kids, "d": d, "vals": vals, "s": s, "dl": dl, "hasx": hasx, "xv": xv,
                "box": box, "boxi": boxi}

    def census(self):
        """per notifier list of the pool: how many entries belong to OUR handlers (user notifiers and maintainers of the
        dynamic registrations; the class-level observers of the observed properties are not ours)"""
        mine = [self.handlers[1]] + [o.handle for o in self.owners.values()]

        def count(lst):
            k = 0
            for n in (lst or ()):
                hf = getattr(n, "handler", None)
                try:
                    hv = hf() if callable(hf) else None
                except Exception:
                    hv = None
                if hv is not None and any(hv == mh for mh in mine):
                    k += 1
            return k
        tot = []
        for k in range(1, NOBJ + 1):
            o = self.objs[k]
            for n in ("child", "kids", "d", "value", "trait_added", "kids_items", "d_items", "csnap", "chv", "cfirst", "dlsnap", "s", "dl",
                      "s_items", "dl_items", "extra", "box", "box_items"):
                t = o._trait(n, 0)
                tot.append(count(t._notifiers(False)) if t is not None else 0)
            for cn in ("kids", "d", "s", "dl", "box"):
                tot.append(count(getattr(o.__dict__[cn], "notifiers", ())) if cn in o.__dict__ else 0)
            # inner lists of dl: one total (their number varies)
            tot.append(sum(count(inner.notifiers) for inner in o.__dict__.get("dl", {}).values()))
            tot.append(count(o._notifiers(False)))
        return tot

    def read_prop(self, p):
        """read an observed property of the root; returns (projected value, getter runs)"""
        oc = _api()
        root = self.objs[1]
        key = (id(root), p)
        before = oc.RUNS.get(key, 0)
        v = getattr(root, p)
        runs = oc.RUNS.get(key, 0) - before
        if p == "csnap":
            ret = [[a, b] for a, b in v]
        elif p == "cfirst":
            ret = [-2] if v is None else [v]
        elif p == "dlsnap":
            ret = [[k, list(q)] for k, q in v]
        else:
            ret = list(v)
        return ret, runs

    def replace_by_copy(self, kind):
        """continue the history on a pickle / deep copy of the whole pool (sharing preserved)"""
        import copy
        import pickle
        objs = self.objs[1:]
        new = pickle.loads(pickle.dumps(objs, kind)) if kind >= 0 else copy.deepcopy(objs)
        self.objs = [None] + list(new)
        self.tok = {id(o): k for k, o in enumerate(self.objs) if o is not None}
        self.regs = {}
        self.last_read = {}
        self.muts = []
        self.census0 = self.census()

    def regs_list(self):
        return [{"h": h, "e": e, "n": n} for h, (e, n) in sorted(self.regs.items()) if n > 0]

    def clear_logs(self):
        for h in self.log:
            self.log[h].clear()

    def calls(self):
        """events received during the step; events about traits outside the model (the root's observed properties
        and bookkeeping traits, visible to a `*` registration) are dropped unless the handler observes that property"""
        out = []
        for h in range(1, NH + 1):
            own = self.regs.get(h, [""])[0]
            out.append([ev for ev in self.log[h]
                        if not (ev[0] == "trait" and ev[2] in ("csnap", "chv", "cfirst", "dlsnap", "w", "tokn", "trait_modified") and ev[2] != own)])
        return out

    def probe(self):
        out = []
        counts = {h: [0] * NOBJ for h in range(1, NH + 1)}
        for k in range(1, NOBJ + 1):
            if k == NOVAL:
                continue
            self.clear_logs()
            # the probe is itself a (relevant) change: it belongs to the mutations since the last property read
            self.muts.append((self.heap(), {"t": "value", "op": "", "x": k, "a": [0, 0, 0], "xs": [], "ps": [], "h": 0, "e": ""}))
            self.objs[k].value += 1
            for h in range(1, NH + 1):
                # events about other traits (an observed property recomputed because of the bump, seen through `*`)
                # are not what the probe asks about
                own = self.regs.get(h, [""])[0]
                counts[h][k - 1] = sum(1 for ev in self.log[h]
                                       if ev == ["trait", k, "value"] or (own in ("csnap", "chv", "cfirst", "dlsnap") and ev[2] == own))
        self.clear_logs()
        return [counts[h] for h in range(1, NH + 1)]

    def xprobe_safe(self):
        try:
            return self.xprobe()
        except Exception:
            return [[9] * NOBJ for _ in range(NH)]

    def xprobe(self):
        """the same question for the dynamic trait `extra` of the objects that have one"""
        counts = {h: [0] * NOBJ for h in range(1, NH + 1)}
        for k in range(1, NOBJ + 1):
            o = self.objs[k]
            if "extra" not in o._instance_traits():
                continue
            self.clear_logs()
            self.muts.append((self.heap(), {"t": "xv", "op": "", "x": k, "a": [0, 0, 0], "xs": [], "ps": [], "h": 0, "e": ""}))
            o.extra += 1
            for h in range(1, NH + 1):
                counts[h][k - 1] = sum(1 for ev in self.log[h] if ev == ["trait", k, "extra"])
        self.clear_logs()
        return [counts[h] for h in range(1, NH + 1)]


def _opt(v):
    return None if v == NONE else v


def apply_mut(pool, m):
    """perform the mutation on the real pool"""
    x = pool.objs[m["x"]]
    O = lambda k: pool.objs[k] if k else None
    t, op, a = m["t"], m["op"], m["a"]
    if t == "child":
        x.child = O(a[0])
    elif t == "kidsassign":
        x.kids = [O(k) for k in m["xs"]]
    elif t == "value":
        x.value += 1
    elif t == "boxassign":
        x.box = [O(k) for k in m["xs"]]
    elif t == "boxint":
        if a[1] == 1:
            x.trait_setq(box=5)
        else:
            x.box = 5
    elif t in ("kids", "box"):
        l = getattr(x, t)
        xs = [O(k) for k in m["xs"]]
        if op == "setitem":
            l[a[0]] = xs[0]
        elif op == "setslice":
            l[slice(_opt(a[0]), _opt(a[1]), _opt(a[2]))] = xs
        elif op == "delitem":
            del l[a[0]]
        elif op == "delslice":
            del l[slice(_opt(a[0]), _opt(a[1]), _opt(a[2]))]
        elif op == "append":
            l.append(xs[0])
        elif op == "extend":
            l.extend(xs)
        elif op == "insert":
            l.insert(a[0], xs[0])
        elif op == "pop":
            l.pop() if a[0] == NONE else l.pop(a[0])
        elif op == "remove":
            l.remove(xs[0])
        elif op == "reverse":
            l.reverse()
        elif op == "clear":
            l.clear()
        elif op == "imul":
            l *= a[0]
        else:
            raise MachineryError(op)
    elif t == "dassign":
        x.d = {ckey(k): O(v) for k, v in m["ps"]}
    elif t == "d":
        dd = x.d
        if op == "setitem":
            dd[ckey(a[0])] = O(a[1])
        elif op == "delitem":
            del dd[ckey(a[0])]
        elif op == "update":
            dd.update({ckey(k): O(v) for k, v in m["ps"]} if a[0] == 0 else [(ckey(k), O(v)) for k, v in m["ps"]])
        elif op == "ior":
            dd |= {ckey(k): O(v) for k, v in m["ps"]}
        elif op == "pop":
            dd.pop(ckey(a[0]), None) if a[1] == 1 else dd.pop(ckey(a[0]))
        elif op == "clear":
            dd.clear()
        else:
            raise MachineryError(op)
    elif t == "sassign":
        x.s = set(O(k) for k in m["xs"])
    elif t == "s":
        ss = x.s
        arg = set(O(k) for k in m["xs"])
        if op == "add":
            ss.add(O(a[0]))
        elif op == "discard":
            ss.discard(O(a[0]))
        elif op == "remove":
            ss.remove(O(a[0]))
        elif op == "clear":
            ss.clear()
        elif op == "update":
            ss.update([O(k) for k in m["xs"]])        # a list: may overlap the present members
        elif op == "ior":
            ss |= arg
        elif op == "iand":
            ss &= arg
        elif op == "isub":
            ss -= arg
        elif op == "ixor":
            ss ^= arg
        elif op == "difference_update":
            ss.difference_update(arg)
        elif op == "intersection_update":
            ss.intersection_update(arg)
        elif op == "symmetric_difference_update":
            ss.symmetric_difference_update(arg)
        else:
            raise MachineryError(op)
    elif t == "dlassign":
        x.dl = {ckey(k): [O(v) for v in vs] for k, vs in m["ps"]}
    elif t == "dl":
        dd = x.dl
        if op == "setitem":
            dd[ckey(a[0])] = [O(k) for k in m["xs"]]        # a NEW list, possibly equal to the one stored
        elif op == "delitem":
            del dd[ckey(a[0])]
        elif op == "clear":
            dd.clear()
        else:
            raise MachineryError(op)
    elif t == "dlin":
        l = x.dl[ckey(a[3])]
        xs = [O(k) for k in m["xs"]]
        if op == "append":
            l.append(xs[0])
        elif op == "extend":
            l.extend(xs)
        elif op == "remove":
            l.remove(xs[0])
        elif op == "pop":
            l.pop() if a[0] == NONE else l.pop(a[0])
        elif op == "setitem":
            l[a[0]] = xs[0]
        elif op == "insert":
            l.insert(a[0], xs[0])
        elif op == "clear":
            l.clear()
        elif op == "reverse":
            l.reverse()
        else:
            raise MachineryError(op)
    elif t == "del":
        delattr(x, op)
    elif t == "addx":
        donors = [o for o in pool.objs[1:] if "extra" in o._instance_traits()]
        if donors:
            x.add_trait("extra", donors[m["a"][0] % len(donors)].trait("extra"))     # another object's instance trait
        else:
            if XTRAIT[0] is None:
                from traits.api import Int
                XTRAIT[0] = Int().as_ctrait()
            x.add_trait("extra", XTRAIT[0])
    elif t == "xv":
        x.extra += 1
    else:
        raise MachineryError(t)


def ckey(k):
    """abstract key -> python key: 1, 2 -> "1", "2" (valid str keys); 11, 12 -> the ints 1, 2 (coerced by CStr)"""
    return str(k) if k < 10 else k - 10


def random_mut(rnd, heap, allow_loop):
    x = 1 if rnd.random() < 0.45 else rnd.randint(1, NOBJ)
    u = rnd.random()
    ro = lambda: rnd.randint(1, NOBJ)
    m = {"t": "", "op": "", "x": x, "a": [0, 0, 0], "xs": [], "ps": []}
    n = len(heap["kids"][x - 1])
    if u < 0.2:
        # comparison mode none: re-assigning the very same object is an event too (old is new)
        same = rnd.random() < 0.3 and heap["child"][x - 1] != 0
        m.update(t="child", a=[heap["child"][x - 1] if same else rnd.randint(0, NOBJ), 0, 0])
    elif u < 0.28:
        same = rnd.random() < 0.3           # an equal but distinct list: no user event, but the hooks must move
        m.update(t="kidsassign", xs=list(heap["kids"][x - 1]) if same else [ro() for _ in range(rnd.randint(0, 3))])
    elif u < 0.62:
        op = rnd.choice(["setitem", "setslice", "setslice", "delitem", "delslice", "append", "append", "extend", "insert",
                         "pop", "remove", "reverse", "clear", "imul"])
        ri = lambda: rnd.randint(-n - 1, n + 1)
        rop = lambda: NONE if rnd.random() < 0.35 else ri()
        a, xs = [0, 0, 0], []
        if op in ("setitem", "insert"):
            a[0], xs = ri(), [ro()]
        elif op in ("append", "remove"):
            xs = [ro()]
        elif op == "setslice":
            a = [rop(), rop(), rnd.choice([NONE, NONE, 1, 2, -1])]
            xs = [ro() for _ in range(rnd.randint(0, 3))]
            if a[2] not in (NONE, 1):
                k = len(range(*slice(_opt(a[0]), _opt(a[1]), a[2]).indices(n)))
                xs = [ro() for _ in range(k)]
        elif op == "delslice":
            a = [rop(), rop(), rnd.choice([NONE, 1, 2, -1])]
        elif op == "delitem":
            a[0] = ri()
        elif op == "extend":
            xs = [ro() for _ in range(rnd.randint(0, 2))]
        elif op == "pop":
            a[0] = rop()
        elif op == "imul":
            a[0] = rnd.choice([0, 1, 2]) if n <= 2 else rnd.choice([0, 1])
        if n > 5 and op in ("append", "extend", "insert", "imul"):
            op, a, xs = "clear", [0, 0, 0], []
        m.update(t="kids", op=op, a=a, xs=xs)
    elif u < 0.68:
        m.update(t="dassign", ps=[[k, ro()] for k in rnd.sample([1, 2, 3], rnd.randint(0, 2))])
    elif u < 0.8:
        op = rnd.choice(["setitem", "setitem", "delitem", "update", "ior", "pop", "clear"])
        keys = [1, 2, 3, 11, 12]
        a, ps = [0, 0, 0], []
        if op == "setitem":
            a = [rnd.choice(keys), ro(), 0]
        elif op == "delitem":
            a = [rnd.choice([1, 2, 3]), 0, 0]
        elif op in ("update", "ior"):
            ps = [[rnd.choice(keys), ro()] for _ in range(rnd.randint(0, 2))]
            seen = set()
            ps = [p for p in ps if not (p[0] in seen or seen.add(p[0]))]
            if len({(k if k < 10 else k - 10) for k, _ in ps}) != len(ps):
                ps = ps[:1]
            a = [0, 0, 0]
        elif op == "pop":
            a = [rnd.choice([1, 2, 3]), 1, 0]
        m.update(t="d", op=op, a=a, ps=ps)
    elif u < 0.88:
        m.update(t="value", x=rnd.randint(1, NOBJ - 1))
    elif u < 0.915:
        m.update(t="del", op=rnd.choice(["child", "kids", "kids", "d", "s", "dl"]))
    else:
        m = random_mut2(rnd, heap, m, x, ro)
    return m


def random_mut2(rnd, heap, m, x, ro):
    """sets, the nested container dl, the dynamic trait"""
    u = rnd.random()
    cur_s = heap["s"][x - 1]
    cur_dl = heap["dl"][x - 1]
    if u < 0.08:
        same = rnd.random() < 0.3
        m.update(t="sassign", xs=list(cur_s) if same else sorted({ro() for _ in range(rnd.randint(0, 3))}))
    elif u < 0.45:
        op = rnd.choice(["add", "add", "discard", "remove", "clear", "update", "update", "ior", "iand", "isub", "ixor",
                         "difference_update", "intersection_update", "symmetric_difference_update"])
        a, xs = [0, 0, 0], []
        if op in ("add", "discard", "remove"):
            a[0] = ro()
        elif op != "clear":
            xs = sorted({ro() for _ in range(rnd.randint(0, 3))})
            if op == "update" and cur_s and rnd.random() < 0.6:
                xs = sorted(set(xs) | {rnd.choice(cur_s)})          # overlap with what is already there
        m.update(t="s", op=op, a=a, xs=xs)
    elif u < 0.52:
        m.update(t="dlassign", ps=[[k, [ro() for _ in range(rnd.randint(0, 2))]] for k in rnd.sample([1, 2, 3], rnd.randint(0, 2))])
    elif u < 0.72:
        op = rnd.choice(["setitem", "setitem", "setitem", "delitem", "clear"])
        a, xs = [0, 0, 0], []
        if op == "setitem":
            a[0] = rnd.choice([1, 2, 3, 11, 12])
            key = a[0] if a[0] < 10 else a[0] - 10
            old = [vs for k, vs in cur_dl if k == key]
            if old and rnd.random() < 0.5:
                xs = list(old[0])                                   # an equal but distinct list over an existing key
            else:
                xs = [ro() for _ in range(rnd.randint(0, 2))]
        elif op == "delitem":
            a[0] = rnd.choice([1, 2, 3])
        m.update(t="dl", op=op, a=a, xs=xs)
    elif u < 0.9:
        keys = [k for k, _ in cur_dl] or [1]
        key = rnd.choice(keys)
        inner = ([vs for k, vs in cur_dl if k == key] or [[]])[0]
        n = len(inner)
        op = rnd.choice(["append", "append", "extend", "remove", "pop", "setitem", "insert", "clear", "reverse"])
        a, xs = [0, 0, 0, key], []
        if op in ("append", "remove"):
            xs = [ro()]
        elif op == "extend":
            xs = [ro() for _ in range(rnd.randint(0, 2))]
        elif op == "pop":
            a[0] = NONE if rnd.random() < 0.5 else rnd.randint(-n - 1, n)
        elif op in ("setitem", "insert"):
            a[0], xs = rnd.randint(-n - 1, n), [ro()]
        if n > 4 and op in ("append", "extend", "insert"):
            op, xs = "clear", []
        m.update(t="dlin", op=op, a=a, xs=xs)
    elif u < 0.93:
        cur = heap["box"][x - 1]
        isint = heap["boxi"][x - 1]
        v = rnd.random()
        if isint or v < 0.35:
            m.update(t="boxassign", xs=list(cur) if (v < 0.1 and not isint) else [ro() for _ in range(rnd.randint(0, 2))])
        elif v < 0.85:
            n = len(cur)
            op = rnd.choice(["append", "append", "pop", "remove", "setitem", "reverse", "clear", "extend"])
            a, xs = [0, 0, 0], []
            if op in ("append", "remove"):
                xs = [ro()]
            elif op == "extend":
                xs = [ro() for _ in range(rnd.randint(0, 2))]
            elif op == "pop":
                a[0] = NONE if rnd.random() < 0.5 else rnd.randint(-n - 1, n)
            elif op == "setitem":
                a[0], xs = rnd.randint(-n - 1, n), [ro()]
            if n > 4 and op in ("append", "extend"):
                op, xs = "clear", []
            m.update(t="box", op=op, a=a, xs=xs)
        else:
            m.update(t="boxint", a=[0, 1 if rnd.random() < 0.7 else 0, 0])
    elif u < 0.96 and not heap["hasx"][x - 1]:
        m.update(t="addx", a=[rnd.randint(0, 3), 0, 0])
    else:
        have = [k for k in range(1, NOBJ + 1) if heap["hasx"][k - 1]]
        if have:
            m.update(t="xv", x=rnd.choice(have))
        else:
            m.update(t="value", x=rnd.randint(1, NOBJ - 1))
    return m


def on_cycle(heap, x):
    """does object x lie on a cycle of the heap? (trace control only: after mutating a link of such an object the
    code is off-specification - known finding F8 - and the history ends)"""
    succ = lambda k: (({heap["child"][k - 1]} - {0}) | set(heap["kids"][k - 1]) | {v for _, v in heap["d"][k - 1]}
                      | set(heap["s"][k - 1]) | {v for _, vs in heap["dl"][k - 1] for v in vs})
    seen, todo = set(), list(succ(x))
    while todo:
        y = todo.pop()
        if y in seen:
            continue
        seen.add(y)
        todo.extend(succ(y))
    return x in seen


def run_history(rnd, steps, t, p_loop=0.0):
    """one seeded history; returns the list of step records"""
    from traits.observation.exceptions import NotifierNotFound
    pool = Pool()
    out = []
    after_quiet = False
    for s in range(steps):
        pre = pool.heap()
        regs1 = pool.regs_list()
        census1 = pool.census()
        pool.clear_logs()
        exc = ""
        u = rnd.random()
        if after_quiet:
            u = 0.0             # the step after a quiet assignment is a registration step (the last of the history)
        paths = []
        live = [h for h in range(1, NH + 1) if h not in pool.dropped]
        if u > 0.985 and s > 2 and [h for h in live if h != 1]:
            # the owner of a bound-method handler disappears
            h = rnd.choice([h for h in live if h != 1])
            m = {"t": "drop_owner", "h": h, "e": "", "op": "", "x": 1, "a": [0, 0, 0], "xs": [], "ps": []}
            w = weakref.ref(pool.owners[h])
            del pool.owners[h]
            pool.dropped.add(h)
            pool.regs.pop(h, None)
            gc.collect()
            alive = 0 if w() is None else 1
            post = pool.heap()
            try:
                probe = pool.probe()
            except Exception as ex:
                exc = type(ex).__name__
                probe = [[0] * NOBJ for _ in range(NH)]
            out.append({"tid": t, "step": s, "m": m, "exc": exc, "pre": pre, "post": post, "regs": regs1,
                        "regs2": pool.regs_list(), "calls": pool.calls(), "probe": probe, "xprobe": pool.xprobe_safe(), "census0": pool.census0,
                        "census1": census1, "census2": pool.census(), "paths": [], "alive": alive, "dropped": len(pool.dropped)})
            continue
        if 0.90 < u <= 0.985:
            # C12: read an observed property of the root
            p = rnd.choice(["csnap", "csnap", "chv", "cfirst", "cfirst", "dlsnap", "dlsnap"])
            m = {"t": "read", "h": 0, "e": p, "op": "", "x": 1, "a": [0, 0, 0], "xs": [], "ps": []}
            try:
                ret, runs = pool.read_prop(p)
            except Exception as ex:
                ret, runs, exc = [], 0, type(ex).__name__
            start = pool.last_read.get(p)
            since = [{"pre": a, "m": b} for a, b in (pool.muts[start:] if start is not None else [])]
            pool.last_read[p] = len(pool.muts)
            out.append({"tid": t, "step": s, "m": m, "exc": exc, "pre": pre, "post": pool.heap(), "regs": regs1,
                        "regs2": regs1, "calls": pool.calls(), "probe": [], "xprobe": [], "census0": pool.census0, "census1": census1,
                        "census2": census1, "paths": [], "alive": 0, "dropped": len(pool.dropped), "ret": ret, "runs": runs,
                        "since": since, "first": 1 if start is None else 0})
            continue
        if 0.885 < u <= 0.90 and s > 1 and not any(pre["hasx"]):
            # (instance traits given by add_trait are not part of an object's pickled / copied state)
            kind = rnd.choice([-1, 2, 4, 5])
            m = {"t": "copy", "h": 0, "e": "", "op": str(kind), "x": 1, "a": [kind, 0, 0], "xs": [], "ps": []}
            try:
                pool.replace_by_copy(kind)
            except Exception as ex:
                exc = type(ex).__name__
            post = pool.heap()
            # read the observed properties of the copy BEFORE anything else touches it
            try:
                rets = [pool.read_prop("csnap")[0], pool.read_prop("chv")[0]]
            except Exception as ex:
                rets, exc = [[], []], exc or type(ex).__name__
            probe = pool.probe()
            out.append({"tid": t, "step": s, "m": m, "exc": exc, "pre": pre, "post": post, "regs": regs1, "regs2": [],
                        "calls": pool.calls(), "probe": probe, "xprobe": pool.xprobe_safe(), "census0": pool.census0, "census1": census1,
                        "census2": pool.census(), "paths": [], "alive": 0, "dropped": 1, "rets": rets})
            continue
        if u < 0.22 or not regs1 and u < 0.5:
            h = rnd.choice(live)
            e = pool.regs[h][0] if h in pool.regs else rnd.choice(EXPRS + ["box!items.value", "box!items"])
            remove = h in pool.regs and pool.regs[h][1] > 0 and rnd.random() < 0.5 or rnd.random() < 0.08
            if after_quiet:
                # prefer a registration that walks through box: its removal / a further registration must fail cleanly
                onbox = [hh for hh in live if hh in pool.regs and pool.regs[hh][0].startswith("box!")]
                if onbox:
                    h = rnd.choice(onbox)
                    e, remove = pool.regs[h][0], rnd.random() < 0.7
                elif h not in pool.regs:
                    e, remove = rnd.choice(["box!items.value", "box!items"]), False
            m = {"t": "unobserve" if remove else "observe", "h": h, "e": e, "op": "", "x": 1, "a": [0, 0, 0], "xs": [], "ps": []}
            try:
                pool.objs[1].observe(pool.handler(h), expr_of(e), remove=remove)
                cur = pool.regs.get(h, [e, 0])
                pool.regs[h] = [e, cur[1] + (-1 if remove else 1)]
                if pool.regs[h][1] <= 0:
                    del pool.regs[h]
            except NotifierNotFound:
                exc = "NotifierNotFound"
            except Exception as ex:
                exc = type(ex).__name__
            if not remove:
                paths = project_paths(e)
        else:
            m = random_mut(rnd, pre, True)
            if any(r["e"].startswith("box!") for r in regs1) and rnd.random() < 0.12:
                # a registration walks through root.box: put the int there QUIETLY; the next step is its removal
                m = {"t": "boxint", "op": "", "x": 1, "a": [0, 1, 0], "xs": [], "ps": []}
            m["h"] = 0
            m["e"] = ""
            pool.muts.append((pre, m))
            try:
                apply_mut(pool, m)
            except Exception as ex:
                exc = type(ex).__name__
        calls = pool.calls()
        post = pool.heap()
        regs2 = pool.regs_list()
        census2 = pool.census()
        extra_reads = []
        if NOVAL in post["kids"][0] or post["child"][0] == NOVAL:
            # The mutation linked an object lacking `value` where the root's observed properties need it: it raised from
            # inside the framework - AFTER the link had changed.  The properties are read at once (C12: no read returns a
            # value cached before the last relevant change, whatever became of the mutation's own outcome); nothing else
            # is done to the pool in between (its hooks may be partial from here on: the history ends)
            s2 = s
            for p in ("csnap", "cfirst", "chv"):
                s2 += 1
                rexc = ""
                hp = pool.heap()
                try:
                    ret, runs = pool.read_prop(p)
                except Exception as ex:
                    ret, runs, rexc = [], 0, type(ex).__name__
                start = pool.last_read.get(p)
                since = [{"pre": a, "m": b} for a, b in (pool.muts[start:] if start is not None else [])]
                pool.last_read[p] = len(pool.muts)
                extra_reads.append({"tid": t, "step": s2, "m": {"t": "read", "h": 0, "e": p, "op": "", "x": 1, "a": [0, 0, 0], "xs": [], "ps": []},
                                    "exc": rexc, "pre": hp, "post": pool.heap(), "regs": regs2, "regs2": regs2, "calls": [[] for _ in calls], "probe": [],
                                    "xprobe": [], "census0": pool.census0, "census1": census2, "census2": census2, "paths": [], "alive": 0,
                                    "dropped": len(pool.dropped), "ret": ret, "runs": runs, "since": since, "first": 1 if start is None else 0})
            pool.clear_logs()
        probe = pool.probe()
        out.append({"tid": t, "step": s, "m": m, "exc": exc, "pre": pre, "post": post, "regs": regs1, "regs2": regs2,
                    "calls": calls, "probe": probe, "xprobe": pool.xprobe_safe(), "census0": pool.census0, "census1": census1, "census2": census2,
                    "paths": paths, "alive": 0, "dropped": len(pool.dropped), "afterquiet": 1 if after_quiet else 0})
        if after_quiet:
            break
        if m["t"] == "boxint" and m["a"][1] == 1:
            after_quiet = True
            continue
        if m["t"] in LINK_MUTS and on_cycle(pre, m["x"]):
            break               # known finding F8: from here on the code is off-specification
        if NOVAL in post["kids"][0] or post["child"][0] == NOVAL:
            # the root's observed properties require `value` there: inapplicable from here on
            out.extend(extra_reads)
            break
        if exc and m["t"] not in ("observe", "unobserve") and exc not in ("IndexError", "ValueError_list", "KeyError"):
            if exc == "ValueError" and m["t"] == "kids" and m["op"] in ("remove", "setslice", "delslice"):
                # may be the list's own ValueError; the judge decides; but hooks may be partial: stop
                break
            break               # a mutation made an observed expression inapplicable (out of the quantifier)
    # end of the history: drop every reference to the pool while registrations are still active; nothing may survive
    if out:
        last = dict(out[-1])
        refs = [weakref.ref(o) for o in pool.objs[1:]] + [weakref.ref(o) for o in pool.owners.values()]
        nregs = len(pool.regs)
        del pool
        gc.collect()
        last.update(m={"t": "collect", "h": 0, "e": "", "op": "", "x": 1, "a": [0, 0, 0], "xs": [], "ps": []},
                    alive=sum(1 for w in refs if w() is not None), step=last["step"] + 1, exc="")
        out.append(last)
    return out


def step_record(pool, t, s, m, do):
    """perform `do` as one recorded step"""
    pre = pool.heap()
    regs1 = pool.regs_list()
    census1 = pool.census()
    pool.clear_logs()
    exc = ""
    try:
        do()
    except Exception as ex:
        exc = type(ex).__name__
    calls = pool.calls()
    post = pool.heap()
    probe = pool.probe()
    return {"tid": t, "step": s, "m": m, "exc": exc, "pre": pre, "post": post, "regs": regs1, "regs2": pool.regs_list(),
            "calls": calls, "probe": probe, "xprobe": pool.xprobe_safe(), "census0": pool.census0, "census1": census1, "census2": pool.census(),
            "paths": [], "alive": 0, "dropped": 0}


WITH_READS = [True]


def case_records(kind, pre, m, t):
    """mode A: container `pre` on the root under three registrations; one operation; then clear; then collect"""
    pool = Pool()
    root = pool.objs[1]
    O = lambda k: pool.objs[k]
    blank = {"h": 0, "e": "", "op": "", "x": 1, "a": [0, 0, 0], "xs": [], "ps": []}
    follow = []
    if kind == "list":
        root.kids = [O(k) for k in pre]
        exprs = {1: "kids.items.value", 2: "+ltracked:items.value", 3: "kids.items"}
        clear = dict(blank, t="kids", op="clear")
    elif kind == "set":
        root.s = set(O(k) for k in pre)
        exprs = {1: "s.items.value", 2: "s.items", 3: "s.items.value"}
        clear = dict(blank, t="s", op="clear")
        # afterwards every item is removed again, one by one (an item hooked twice stays hooked)
        follow = [dict(blank, t="s", op="discard", a=[k, 0, 0]) for k in (2, 3)]
    elif kind == "dl":
        root.dl = dict([("1", [O(k) for k in pre])] + ([("2", [O(k) for k in reversed(pre)])] if len(pre) == 2 else []))
        exprs = {1: "dl.items.items.value", 2: "dl.items.items", 3: "dl.items.items.value"}
        clear = dict(blank, t="dl", op="clear", a=[0, 0, 0, 0])
        # afterwards the list under key 1 grows and shrinks (a replaced list must be the one that is hooked)
        follow = [dict(blank, t="dlin", op="append", a=[0, 0, 0, 1], xs=[3]), dict(blank, t="dlin", op="append", a=[0, 0, 0, 1], xs=[2]),
                  dict(blank, t="dlin", op="remove", a=[0, 0, 0, 1], xs=[3])]
    elif kind == "dyn":
        root.child = O(pre[0])
        exprs = {1: "child.*", 2: "child.*", 3: "child"}
        clear = dict(blank, t="child", a=[0, 0, 0])
    else:
        root.d = {str(k): O(v) for k, v in pre}
        exprs = {1: "d.items.value", 2: "d.items", 3: "d.items.value"}
        clear = dict(blank, t="d", op="clear")
    for h, e in exprs.items():
        root.observe(pool.handler(h), e)
        pool.regs[h] = [e, 1]
    m = dict(m, h=0, e="")

    def read(step):
        p = "dlsnap" if kind == "dl" else "csnap"
        rm = dict(blank, t="read", e=p)
        pre_h = pool.heap()
        try:
            ret, runs = pool.read_prop(p)
            exc = ""
        except Exception as ex:
            ret, runs, exc = [], 0, type(ex).__name__
        start = pool.last_read.get(p)
        since = [{"pre": a, "m": b} for a, b in (pool.muts[start:] if start is not None else [])]
        pool.last_read[p] = len(pool.muts)
        return {"tid": t, "step": step, "m": rm, "exc": exc, "pre": pre_h, "post": pool.heap(), "regs": pool.regs_list(),
                "regs2": pool.regs_list(), "calls": [[], [], []], "probe": [], "xprobe": [], "census0": pool.census0,
                "census1": pool.census0, "census2": pool.census0, "paths": [], "alive": 0, "dropped": 0, "ret": ret,
                "runs": runs, "since": since, "first": 1 if start is None else 0}

    def mut(step, mm):
        pool.muts.append((pool.heap(), mm))
        return step_record(pool, t, step, mm, lambda: apply_mut(pool, mm))
    reads = WITH_READS[0] and kind in ("list", "dict", "dl")
    if kind == "dyn":
        out = [mut(1, dict(blank, t="addx", x=k, a=[0, 0, 0])) for k in m["xs"]]
        out.append(mut(2, dict(blank, t="child", a=[5 - pre[0], 0, 0])))          # the other object becomes the child
        out.append(mut(4, clear))
        return out + [collect_record(pool, out[-1], blank)]
    out = ([read(0)] if reads else []) + [mut(1, m)]
    if out[-1]["exc"] and out[-1]["exc"] not in ("IndexError", "KeyError", "ValueError"):
        return out
    if m["t"] == "del":
        # the attribute is back at a fresh default container: that one must be hooked now - fill it
        fill = {"list": dict(blank, t="kids", op="append", xs=[2]), "dict": dict(blank, t="d", op="setitem", a=[1, 2, 0]),
                "set": dict(blank, t="s", op="add", a=[2, 0, 0]), "dl": dict(blank, t="dl", op="setitem", a=[1, 0, 0, 0], xs=[2])}[kind]
        out.append(mut(2, fill))
    if reads:
        if kind == "list" and root.kids:
            out.append(mut(2, dict(blank, t="kids", op="pop", a=[NONE, 0, 0])))
        out.append(read(3))
        # the cache is now filled: a change of an item that is still in the container must invalidate it
        for k in (2, 3):
            out.append(mut(3, dict(blank, t="value", x=k)))
        out.append(read(3))
    for fm in follow:
        out.append(mut(3, fm))
    if reads and follow:
        out.append(read(4))
    out.append(mut(4, clear))
    if reads:
        out.append(read(5))
    del root, O
    out.append(collect_record(pool, out[-1], blank))
    return out


def collect_record(pool, last, blank):
    """end of a case: every reference to the pool is dropped; nothing may survive"""
    refs = [weakref.ref(o) for o in pool.objs[1:]] + [weakref.ref(o) for o in pool.owners.values()]
    last = dict(last)
    pool.objs = None
    pool.owners = None
    pool.handlers = None
    pool.muts = None
    del pool
    gc.collect()
    last.update(m=dict(blank, t="collect"), alive=sum(1 for w in refs if w() is not None), step=6, exc="")
    return last


_tid = [0]


def case_fn(st, rep):
    from ..tlaval import to_py
    m = to_py(st["m"])
    m["a"] = list(m["a"])
    _tid[0] += 1
    recs = case_records(str(st["kind"]), to_py(st["pre"]), m, 1000000 + _tid[0])
    return {"fail": None, "lines": recs, "sample": recs[0]}


PROP_CLAUSES = {"C08": ("C08-", "F8"), "C09": ("C09-",), "C12": ("C12-", "F8", "KF32"), "C16": ("C16-",)}


def sig_of_factory(pid):
    prefixes = PROP_CLAUSES[pid]

    def sig_of(rec, cl):
        mine = [c for c in cl if c.startswith(prefixes)]
        if not mine:
            return None
        if mine == ["KF32"]:
            return "C12:F32:cached-property-stale-after-another-observers-maintainer-raised"
        if mine == ["F8"]:
            return "%s:F8:link-of-object-on-a-cycle-mutated" % pid
        what = rec["m"]["t"] + ("." + rec["m"]["op"] if rec["m"].get("op") else "")
        return "%s:judge:%s:%s" % (pid, what, "+".join(mine))
    return sig_of


def run_for(rep, tier, seed, pid):
    build.install()
    rnd = random.Random(seed)
    work = tlc.scratch_dir("obs_")
    try:
        # (C12 records carry every mutation since the previous read: its thorough tier is sized accordingly)
        ntr, steps = ((2500 if pid == "C09" else 1200), 14) if tier == "quick" else ((6000 if pid == "C12" else 20000), 22)
        trace = os.path.join(work, "trace.ndjson")
        n = 0
        sample = None
        # mode A: the enumerated container cases (C09 is about registration steps: histories only)
        if pid != "C09":
            WITH_READS[0] = (pid == "C12")
            dump = os.path.join(work, "cases")
            res = tlc.run_tlc("ObserveCasesMC", "ObserveCasesMC_%s.cfg" % tier, dump=dump, timeout=3000, workers=4)
            rep.add_tlc("ObserveCasesMC", res)
            from .. import cases as _cases
            tot = _cases.run_dump_cases(dump + ".dump", case_fn, out_ndjson=trace)
            os.unlink(dump + ".dump")
            n += tot["nlines"]
            rep.extra["enumerated_container_cases"] = tot["ncases"]
        else:
            open(trace, "w").close()
        with open(trace, "a") as f:
            for t in range(ntr):
                for r in run_history(rnd, steps, t):
                    f.write(json.dumps(r, separators=(",", ":")) + "\n")
                    n += 1
                    if sample is None and r["regs"] and r["m"]["t"] == "kids":
                        sample = r
        rep.case(n)
        rep.sample(sample)
        sig_of = sig_of_factory(pid)
        judge_filtered(rep, trace, n, sig_of, "Trace_Observe", "Trace_Observe.cfg")
        rep.extra["history_steps"] = n
        return n
    finally:
        shutil.rmtree(work, ignore_errors=True)


def judge_filtered(rep, trace, n, sig_of, spec, cfg, label=None):
    chunks = judge.split_trace(trace)
    if chunks:
        if sum(k for _, k in chunks) != n:
            raise MachineryError("trace has %d records, expected %d" % (sum(k for _, k in chunks), n))
        for j, (path, k) in enumerate(chunks, 1):
            judge_filtered(rep, path, k, sig_of, spec, cfg, label="%s[chunk %d/%d]" % (spec, j, len(chunks)))
            os.unlink(path)
        return
    res = tlc.run_tlc(spec, cfg, workers=4, env={"TRACE_FILE": trace}, timeout=5000, heap="8g")
    rep.add_tlc(label or spec, res)
    if res.distinct != n + 65:
        raise MachineryError("judge visited %d states, expected %d records" % (res.distinct, n))
    rejects = tlaval.find_printed(res.stdout, "REJECT")
    if res.stdout.count('"REJECT"') != len(rejects):
        raise MachineryError("REJECT markers %d != parsed %d" % (res.stdout.count('"REJECT"'), len(rejects)))
    seen = {}
    for r in rejects:
        seen.setdefault(r[0], r[1])
    recs = {}
    if seen:
        with open(trace) as f:
            for k, line in enumerate(f, 1):
                if k in seen:
                    recs[k] = json.loads(line)
    for i in sorted(seen):
        cl = sorted(str(c) for c in seen[i])
        sig = sig_of(recs[i], cl)
        if sig is None:
            continue
        r = recs[i]
        rep.violation(sig, "step rejected by %s, clauses %s: step=%s exc=%r regs=%s pre=%s post=%s calls=%s probe=%s" %
                      (spec, cl, r["m"], r["exc"], r["regs"], r["pre"], r["post"], r.get("calls", [r.get("lcalls"), r.get("ocalls")]),
                       r.get("probe", [r.get("lprobe"), r.get("oprobe")])),
                      case={"record": r, "clauses": cl, "judge": spec})

