"""C07 — TraitSet refines set; events are faithful deltas; copies still validate.
spec/TraitSet.tla, TraitSetMC (enumeration), Trace_TraitSet (judge). Pure driver: every verdict is TLC's."""
import copy
import zlib
import json
import os
import pickle
import random
import shutil

from .. import build, tlc, cases, judge
from ..core import MachineryError

NONE = 1000
VALID = {1, 2, 3, 4}


def _coerce_validator(x):
    from traits.trait_errors import TraitError
    if type(x) is int and x in VALID:
        return x
    if type(x) is str and x.isdigit():
        return int(x)
    raise TraitError("invalid %r" % (x,))


def conc(vm, x):
    if vm == "id" or x in VALID:
        return x
    if x in (11, 12, 13):
        return str(x - 10)
    return "bad"


def proj(x):
    """inverse of conc: a raw coercible item found in a set shows as its own code (11..13), the invalid item as 99"""
    if type(x) is int:
        return x
    if type(x) is str:
        return {"1": 11, "2": 12, "3": 13, "bad": 99}.get(x, 777)
    return 777


def _raising_iter(items):
    for x in items:
        yield x
    raise ZeroDivisionError("iterator")


def operand(A, vm, how):
    """the Python operand standing for the argument set A (TraitSet.tla: NotIterable -1, Unhashable -2, RaisingIter -3);
    how: the constructor used for a well-formed operand (iter / list / set / frozenset)"""
    items = [conc(vm, x) for x in A if x >= 0]
    if -1 in A:
        return 5
    if -3 in A:
        return _raising_iter(items + ([[1]] if -2 in A else []))
    if -2 in A:
        return items + [[1]]
    return how(items)


def proj_set(s):
    if not isinstance(s, (set, frozenset)):
        return [778]
    return sorted(proj(x) for x in s)


def perform(obj, op, a, args, vm):
    c0 = [1] if a[0] == -2 else conc(vm, a[0])
    if op == "add":
        obj.add(c0)
    elif op == "discard":
        obj.discard(c0)
    elif op == "remove":
        obj.remove(c0)
    elif op == "pop":
        return obj.pop()
    elif op == "clear":
        obj.clear()
    elif op == "update":
        obj.update(*[operand(A, vm, iter) for A in args])
    elif op == "difference_update":
        obj.difference_update(*[operand(A, vm, list) for A in args])
    elif op == "intersection_update":
        obj.intersection_update(*[operand(A, vm, list) for A in args])
    elif op == "symmetric_difference_update":
        obj.symmetric_difference_update(operand(args[0], vm, list if a[0] == 1 else set))
    elif op in ("ior", "iand", "isub", "ixor"):
        arg = operand(args[0], vm, frozenset if a[0] == 1 else (list if a[0] == 2 else set))
        if op == "ior":
            obj |= arg
        elif op == "iand":
            obj &= arg
        elif op == "isub":
            obj -= arg
        else:
            obj ^= arg
    else:
        raise MachineryError("unknown op " + op)
    return None


_owners = {}


def _set_owner(vm):
    """a HasTraits class with values = Set(item trait); the item trait validates like the TraitSet validator of vm"""
    if vm not in _owners:
        from traits.api import Any, HasTraits, Set, TraitType

        class CoerceItem(TraitType):
            def validate(self, object, name, value):
                return _coerce_validator(value)
        _owners[vm] = type("SetOwner_" + vm, (HasTraits,), {"values": Set(CoerceItem() if vm == "coerce" else Any())})
    return _owners[vm]


_shaped = {}


def _shaped_owner(vm, shape):
    """shape 1: HasTraits with values = Set(T); shape 2: HasStrictTraits with values = Union(None, Set(T)) - no class-level
    values_items trait exists, the items event trait is made on demand; shape 3: as 1 with an owner that is falsy"""
    key = (vm, shape)
    if key not in _shaped:
        from traits.api import Any, HasStrictTraits, HasTraits, Set, TraitType, Union

        class CoerceItem(TraitType):
            def validate(self, object, name, value):
                return _coerce_validator(value)
        item = CoerceItem() if vm == "coerce" else Any()
        if shape == 2:
            cls = type("SetOwnerStrict_" + vm, (HasStrictTraits,), {"values": Union(None, Set(item))})
        elif shape == 3:
            cls = type("SetOwnerFalsy_" + vm, (HasTraits,), {"values": Set(item), "__len__": lambda self: 0})
        else:
            cls = type("SetOwnerPlain_" + vm, (HasTraits,), {"values": Set(item)})
        _shaped[key] = cls
    return _shaped[key]


def execute(pre, op, a, args, vm, owner=0):
    r = _execute(pre, op, a, args, vm, owner)
    if owner:
        r["owner"] = owner
    return r


def _execute(pre, op, a, args, vm, owner=0):
    build.install()
    from traits.trait_set_object import TraitSet
    from traits.trait_errors import TraitError
    events = []

    def rec(ts, removed, added):
        events.append({"removed": proj_set(removed), "added": proj_set(added)})
    val = _coerce_validator if vm == "coerce" else None
    exc = ""
    ret = None
    ts = None
    try:
        if op == "construct":
            ts = TraitSet(iter([conc(vm, x) for x in args[0]]), item_validator=val, notifiers=[rec])
            post = proj_set(ts)
        elif op == "copyadd" and a[0] >= 3:
            # the TraitSetObject held by a Set trait: copied on its own, or kept after its owner is gone
            owner = _set_owner(vm)(values=set(pre))
            ts = owner.values
            if a[0] == 3:
                c = copy.copy(ts)
            elif a[0] == 4:
                c = copy.deepcopy(ts)
            elif a[0] == 5:
                c = pickle.loads(pickle.dumps(ts))
            else:
                c = ts
                del owner
                import gc
                gc.collect()
            post = proj_set(c)
            if not isinstance(c, TraitSet) or set(c) != set(pre) or (c is ts and a[0] != 6):
                exc = "CopyNotEqual"
            else:
                ts = c
                ts.add(conc(vm, a[1]))
                post = proj_set(ts)
        elif op == "copyadd":
            ts = TraitSet(set(pre), item_validator=val, notifiers=[rec])
            if a[0] == 0:
                c = copy.copy(ts)
            elif a[0] == 1:
                c = copy.deepcopy(ts)
            else:
                c = pickle.loads(pickle.dumps(ts))
            post = proj_set(c)
            if not isinstance(c, TraitSet) or set(c) != set(pre) or c is ts:
                exc = "CopyNotEqual"
            else:
                ts = c                       # the probe is applied to the copy
                ts.add(conc(vm, a[1]))
                post = proj_set(ts)
        elif owner:
            # the TraitSetObject of a Set trait, its events being what the owner's values_items handler receives
            def handler(event):
                events.append({"removed": proj_set(event.removed), "added": proj_set(event.added)})
            o = _shaped_owner(vm, owner)()
            o.values = set(pre)
            o.on_trait_change(handler, "values_items")
            ts = o.values
            ret = perform(ts, op, a, args, vm)
            post = proj_set(ts)
        else:
            ts = TraitSet(set(pre), item_validator=val, notifiers=[rec])
            ret = perform(ts, op, a, args, vm)
            post = proj_set(ts)
    except TraitError:
        exc, post = "TraitError", (proj_set(ts) if ts is not None else [])
    except Exception as e:
        exc, post = type(e).__name__, (proj_set(ts) if ts is not None else [])
    # builtin set on validated arguments
    bs = set(pre)
    bexc = ""
    try:
        v = (lambda x: x if x < 0 else _coerce_validator(conc(vm, x))) if vm == "coerce" else (lambda x: x)
        if op == "construct":
            bs = set(v(x) for x in args[0])
        elif op == "copyadd":
            bs.add(v(a[1]))
        elif op == "pop":
            bs.discard(ret)
        elif op in ("add",):
            bs.add([1] if a[0] == -2 else v(a[0]))
        elif op in ("update", "ior", "ixor", "symmetric_difference_update"):
            perform(bs, op, a, [[v(x) for x in A] for A in args], "id")
        else:
            perform(bs, op, a, args, vm)
    except Exception as e:
        from traits.trait_errors import TraitError as _TE
        bexc = "" if isinstance(e, _TE) else type(e).__name__     # (validation of the arguments failed: no builtin twin)
        bs = set(pre)
    return {"op": op, "a": list(a), "args": [sorted(A) for A in args], "vm": vm, "pre": sorted(pre), "post": post,
            "exc": exc, "ret": NONE if ret is None else proj(ret), "evs": events, "builtin": proj_set(bs),
            "bexc": bexc}


def case_fn(st, rep):
    last = st["last"]
    if last["op"] == "init":
        return None
    if last["op"] == "pop" and last["ret"] != NONE:
        # pop is nondeterministic in the spec (one case per member); the code pops one member: run once
        if last["ret"] != min(last["pre"]):
            return None
    own = 0
    if rep == 1:
        if last["op"] in ("construct", "copyadd"):
            return None
        own = 1 + zlib.crc32(repr(sorted(last["pre"])).encode() + last["op"].encode()) % 3
    r = execute(sorted(last["pre"]), last["op"], list(last["a"]), [sorted(A) for A in last["args"]], last["vm"], own)
    return {"fail": None, "line": r, "sample": r}


def history_lines(seed, ntraces, steps):
    rnd = random.Random(seed)
    out = []
    ops = ["add", "add", "discard", "remove", "pop", "clear", "update", "update", "ior", "iand", "isub", "ixor",
           "difference_update", "intersection_update", "symmetric_difference_update", "copyadd"]
    for t in range(ntraces):
        vm = rnd.choice(["id", "coerce"])
        items = [1, 2, 3, 4] + ([11, 12, 99] if vm == "id" else [])
        cur = sorted(set(rnd.choice(items) for _ in range(rnd.randint(0, 5))))
        own = rnd.choice([0, 0, 1, 2, 3])
        for _ in range(steps):
            op = rnd.choice(ops)
            a = [0, 0]
            args = []
            pool = [1, 2, 3, 4, 11, 12, 13] + ([99] if rnd.random() < 0.12 else [])
            def rs(allow_bad=True):
                A = sorted(set(rnd.choice(pool) for _ in range(rnd.randint(0, 4))))
                if allow_bad and rnd.random() < 0.08:
                    bad = rnd.choice([-1, -2, -3])
                    A = [-1] if bad == -1 else [bad] + A
                return A
            if op in ("add", "discard", "remove"):
                a[0] = rnd.choice(pool if op == "add" else items) if rnd.random() > 0.04 else -2
            elif op in ("update", "difference_update", "intersection_update"):
                args = [rs() for _ in range(rnd.randint(0, 3))]
            elif op in ("ior", "iand", "isub", "ixor", "symmetric_difference_update"):
                args = [rs(op == "symmetric_difference_update")]
                a[0] = rnd.choice([0, 0, 1, 2]) if op != "symmetric_difference_update" else rnd.randint(0, 1)
                if args[0] and args[0][0] < 0:
                    a[0] = 1
            elif op == "copyadd":
                a = [rnd.randint(0, 6), rnd.choice([3, 11, 99, 1])]
            r = execute(cur, op, a, args, vm, own if op != "copyadd" else 0)
            r["tid"] = t
            out.append(r)
            if op != "copyadd":
                cur = r["post"]
                if 777 in cur:
                    break
    return out


def sig_of(rec, cl):
    if cl == ["KF15"]:
        return "C07:KF15:symmetric-difference-raw-item-absent-validated-present"
    if cl == ["KF24"]:
        return "C07:KF24:TraitSetObject-pickled-alone-no-longer-validates"
    if rec["op"] == "copyadd" and rec["a"][0] == 1 and rec["exc"] == "AttributeError":
        return "C07:F2:deepcopy-AttributeError-validator"
    return "C07:judge:%s%s:%s" % (rec["op"], ":Set-trait-shape%d" % rec["owner"] if rec.get("owner") else "", "+".join(cl))


def run(rep, tier, seed):
    build.install()
    work = tlc.scratch_dir("c07_")
    try:
        cfg = "TraitSetMC_%s.cfg" % tier
        dump = os.path.join(work, "cases")
        res = tlc.run_tlc("TraitSetMC", cfg, dump=dump, timeout=3000, workers=8)
        rep.add_tlc("TraitSetMC", res)
        trace = os.path.join(work, "trace.ndjson")
        tot = cases.run_dump_cases(dump + ".dump", case_fn, out_ndjson=trace, reps=2)
        os.unlink(dump + ".dump")
        if tot["ncases"] == 0:
            raise MachineryError("no cases in dump")
        rep.case(tot["ncases"])
        for s in tot["samples"][:2]:
            rep.sample(s)
        nh, steps = (500, 25) if tier == "quick" else (8000, 40)
        hl = history_lines(seed, nh, steps)
        with open(trace, "a") as f:
            for r in hl:
                f.write(json.dumps(r, separators=(",", ":")) + "\n")
        rep.case(len(hl))
        rep.sample(hl[len(hl) // 2])
        n = tot["nlines"] + len(hl)
        judge.judge(rep, "Trace_TraitSet", "Trace_TraitSet", "Trace_TraitSet.cfg", trace, n, sig_of=sig_of)
        from .. import suite_phase
        ns = suite_phase.run(rep, "C07", "set", tier, sig_of=lambda rec, cl: sig_of(rec, cl).replace("C07:judge:", "C07:suite:"))
        rep.notes.append("%d TraitSet operations recorded while the repository's own tests ran were judged by the same judge" % ns)
        rep.rule = ("every (set, validator, operation, argument sets) state enumerated by TLC from TraitSetMC executed on "
                    "a real TraitSet and on a builtin set (copy/deepcopy/pickle followed by a validating add on the copy), "
                    "plus %d seeded history steps; every record judged by TLC" % len(hl))
        rep.exhaustive = True
        rep.extra["cases_from_tlc_dump"] = tot["ncases"]
        rep.extra["history_steps"] = len(hl)
    finally:
        shutil.rmtree(work, ignore_errors=True)


def replay(rep, path):
    build.install()
    obj = json.load(open(path))
    rec = (obj.get("case") or {}).get("record")
    r = execute(rec["pre"], rec["op"], rec["a"], rec["args"], rec["vm"], rec.get("owner", 0))
    print("recorded:", rec)
    print("now     :", r)
