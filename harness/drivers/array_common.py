"""C01 for Array / CArray / ArrayOrNone traits: real numpy values and real traits built from ArrayTrait.tla cases.

mode A: every (configuration, value) state of ArrayTraitMC is instantiated and assigned by one of four routes; what was
stored (type, dtype, shape, identity with the assigned object, equality of the contents), the exception class, the
untouched-on-failure frame and the documented default are recorded and judged by Trace_ArrayTrait.
The numpy rules the specification assumes (can_cast, what asarray infers) are checked against the installed numpy first."""
import json
import os
import shutil
import zlib

from .. import build, tlc, cases, judge, tlaval
from ..core import MachineryError

_state = {}
ROUTES = ["setattr", "ctor", "trait_set", "trait_setq"]
DT = {"b1": "|b1", "i1": "|i1", "i8": "<i8", "i8s": ">i8", "f4": "<f4", "f8": "<f8", "f8s": ">f8", "c16": "<c16", "U1": "<U1"}
RDT = {v: k for k, v in DT.items()}


def world():
    if _state:
        return _state
    build.install()
    import numpy as np

    class NdSub(np.ndarray):
        pass
    _state.update(np=np, NdSub=NdSub, classes={})
    return _state


def leaves(kind, n):
    if kind == "b":
        return [bool((k + 1) % 2) for k in range(n)]
    if kind == "i":
        return [(k + 1) % 2 for k in range(n)]
    if kind == "f":
        return [2.5] + [float(k % 2) for k in range(1, n)]
    if kind == "if":
        return [1, 2.5] + [k % 2 for k in range(2, n)]
    if kind == "s":
        return ["a"] * n
    raise MachineryError("leaf kind " + kind)


def nest(flat, shape, mk):
    if len(shape) == 1:
        return mk(flat[:shape[0]])
    step = 1
    for d in shape[1:]:
        step *= d
    return mk([nest(flat[k * step:(k + 1) * step], shape[1:], mk) for k in range(shape[0])])


def concretize(v):
    w = world()
    np = w["np"]
    ty, dt, shape = v["ty"], v["dt"], list(v["shape"])
    n = 1
    for d in shape:
        n *= d
    if ty in ("ndarray", "ndsub"):
        if dt == "U1":
            a = np.array(["a"] * n, dtype="<U1").reshape(shape)
        else:
            flat = [(k + 1) % 2 for k in range(n)]
            a = np.array(flat, dtype="<f8")
            if v["frac"]:
                a[0] = 2.5
            with __import__("warnings").catch_warnings():
                __import__("warnings").simplefilter("ignore")
                a = a.astype(np.dtype(DT[dt])).reshape(shape)
        if ty == "ndsub":
            a = a.view(w["NdSub"])
        return a
    if ty in ("list", "tuple"):
        mk = list if ty == "list" else tuple
        if v["rag"]:
            return mk([mk(leaves(dt, 2)), mk(leaves(dt, 1))])
        if dt == "e":
            return mk([])
        return nest(leaves(dt, n), shape, mk)
    return {"none": None, "int": 3, "float": 2.5, "str": "ab", "npscalar": np.float64(1.0), "range": range(3),
            "dict": {0: 1}, "bytes": b"ab"}[ty]


def proj(x):
    w = world()
    np = w["np"]
    if x is None:
        return {"ty": "none", "dt": "", "shape": [], "frac": False, "rag": False}
    if isinstance(x, np.ndarray):
        ty = "ndarray" if type(x) is np.ndarray else ("ndsub" if type(x) is w["NdSub"] else "other:" + type(x).__name__)
        dt = RDT.get(x.dtype.str, "other:" + x.dtype.str)
        frac = bool(x.dtype.kind in "fc" and x.size and (x == 2.5).any())
        return {"ty": ty, "dt": dt, "shape": [int(d) for d in x.shape], "frac": frac, "rag": False}
    return {"ty": "other:" + type(x).__name__, "dt": "", "shape": [], "frac": False, "rag": False}


def same_contents(a, b):
    np = world()["np"]
    try:
        if a is None or b is None:
            return a is b
        b = np.asarray(b)
        return bool(a.shape == b.shape and (a == b).all())
    except Exception:
        return False


def trait_of(cfg):
    from traits import api as T
    np = world()["np"]
    kw = {}
    if cfg["dt"] != "none":
        kw["dtype"] = np.dtype(DT[cfg["dt"]])
    if cfg["given"]:
        dims = []
        for d in cfg["dims"]:
            dims.append(None if d["k"] == "any" else d["lo"] if d["k"] == "eq" else (d["lo"], None if d["hi"] == -1 else d["hi"]))
        kw["shape"] = tuple(dims)
    kw["casting"] = cfg["casting"]
    return getattr(T, cfg["cls"])(**kw)


def holder(cfg):
    w = world()
    key = json.dumps(cfg, sort_keys=True)
    if key not in w["classes"]:
        from traits import api as T
        w["classes"][key] = type("VA_%d" % len(w["classes"]), (T.HasTraits,), {"x": trait_of(cfg), "y": T.Int(7), "z": T.Str("z")})
    return w["classes"][key]


def default_view(cls, cfg):
    """the documented default, observed on fresh instances: projection, all zeros, the same object on every read, a
    different object per instance"""
    o1, o2 = cls(), cls()
    d1, d1b, d2 = o1.x, o1.x, o2.x
    zero = 1 if d1 is None or not d1.any() else 0
    stable = 1 if d1 is d1b else 0
    fresh = 1 if (d1 is None and d2 is None) or d1 is not d2 else 0
    return {"w": proj(d1), "zero": zero, "stable": stable, "fresh": fresh}


def execute(cfg, v, route):
    import warnings
    from traits.trait_errors import TraitError
    none = {"w": proj(None), "zero": 1, "stable": 1, "fresh": 1}
    try:
        cls = holder(cfg)
    except TraitError as e:
        # the trait's own default was refused while the class was being defined
        return {"cfg": cfg, "v": v, "route": route, "a": {"tag": "nodef", "w": proj(None), "same": False, "eq": False, "e": str(e)[:80]},
                "frame": 1, "msg": 1, "d": none}
    val = concretize(v)
    res = {"tag": "reject", "w": proj(None), "same": False, "eq": False, "e": ""}
    frame, msg = 1, 1
    with warnings.catch_warnings():
        warnings.simplefilter("ignore")
        dflt = default_view(cls, cfg)
        obj = cls()
        before = obj.x
        before_copy = None if before is None else before.copy()
        o = obj
        try:
            if route == "ctor":
                o = cls(x=val)
            elif route == "setattr":
                obj.x = val
            elif route == "trait_set":
                obj.trait_set(x=val)
            else:
                obj.trait_setq(x=val)
            stored = o.x
            res = {"tag": "store", "w": proj(stored), "same": stored is val, "eq": same_contents(stored, val), "e": ""}
            if (o.y, o.z) != (7, "z"):
                frame = 0
        except TraitError as e:
            text = str(e)
            if "'x'" not in text and " x " not in text:
                msg = 0
            if route != "ctor":
                now = obj.x
                if now is not before or not same_contents(now, before_copy) or (obj.y, obj.z) != (7, "z"):
                    frame = 0
        except Exception as e:
            res = {"tag": "prop", "w": proj(None), "same": False, "eq": False, "e": type(e).__name__}
    return {"cfg": cfg, "v": v, "route": route, "a": res, "frame": frame, "msg": msg, "d": dflt}


def plain(x):
    if isinstance(x, dict):
        return {str(k): plain(val) for k, val in x.items()}
    if isinstance(x, (list, tuple)):
        return [plain(i) for i in x]
    if isinstance(x, (bool, int)):
        return x
    return str(x)


NREPS = {"n": 1}


def case_fn(st, rep):
    cfg, v = plain(st["cfg"]), plain(st["v"])
    if NREPS["n"] == 1:
        route = ROUTES[zlib.crc32(json.dumps([cfg, v], sort_keys=True).encode()) % len(ROUTES)]
    else:
        route = ROUTES[rep]
    r = execute(cfg, v, route)
    return {"fail": None, "line": r, "sample": r}


def check_environment():
    """the numpy rules ArrayTrait.tla assumes, against the installed numpy (TLC evaluates the table)"""
    np = world()["np"]
    rows = []
    for a in DT:
        for b in DT:
            if "U1" in (a, b) and a != b:
                continue
            for rule in ("no", "equiv", "safe", "same_kind", "unsafe"):
                rows.append({"k": "cast", "a": a, "b": b, "rule": rule,
                             "np": bool(np.can_cast(np.dtype(DT[a]), np.dtype(DT[b]), rule)), "dt": ""})
    for leaf in ("b", "i", "f", "if", "s"):
        rows.append({"k": "infer", "a": leaf, "b": "", "rule": "", "np": True, "dt": RDT.get(np.asarray(leaves(leaf, 2)).dtype.str, "?")})
    rows.append({"k": "infer", "a": "e", "b": "", "rule": "", "np": True, "dt": RDT.get(np.asarray([]).dtype.str, "?")})
    return rows


def run_for(rep, tier, seed):
    build.install()
    world()
    work = tlc.scratch_dir("arr_")
    try:
        dump = os.path.join(work, "cases")
        res = tlc.run_tlc("ArrayTraitMC", "ArrayTraitMC_%s.cfg" % tier, dump=dump, timeout=3000, workers=4)
        rep.add_tlc("ArrayTraitMC", res)
        if not res.ok:
            return
        env = os.path.join(work, "env.ndjson")
        rows = check_environment()
        with open(env, "w") as f:
            for r in rows:
                f.write(json.dumps(r) + "\n")
        eres = tlc.run_tlc("Trace_ArrayEnv", "Trace_ArrayEnv.cfg", workers=1, env={"TRACE_FILE": env}, timeout=600)
        if not eres.ok or '"MISMATCH"' in eres.stdout or eres.distinct != len(rows) + 1:
            raise MachineryError("the installed numpy does not follow the casting / inference rules ArrayTrait.tla assumes: "
                                 + str(tlaval.find_printed(eres.stdout, "MISMATCH")[:5]) + (eres.error or ""))
        NREPS["n"] = 1 if tier == "quick" else len(ROUTES)
        trace = os.path.join(work, "trace.ndjson")
        tot = cases.run_dump_cases(dump + ".dump", case_fn, out_ndjson=trace, reps=NREPS["n"])
        os.unlink(dump + ".dump")
        if tot["ncases"] == 0:
            raise MachineryError("no array cases in dump")
        rep.case(tot["ncases"])
        for s in tot["samples"][:1]:
            rep.sample(s)

        def sig(rec, cl):
            return "C01:array:%s:%s" % (rec["cfg"]["cls"], "+".join(sorted(cl)))
        judge.judge(rep, "Trace_ArrayTrait", "Trace_ArrayTrait", "Trace_ArrayTrait.cfg", trace, tot["nlines"], sig)
        rep.extra["array_cases_from_tlc_dump"] = tot["ncases"]
        rep.extra["array_states"] = res.distinct
        rep.extra["numpy_rules_checked"] = len(rows)
    finally:
        shutil.rmtree(work, ignore_errors=True)


def replay_record(rec):
    print("recorded:", rec)
    print("now     :", execute(rec["cfg"], rec["v"], rec["route"]))
