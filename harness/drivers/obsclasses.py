"""Pool classes of Observe.tla (module level so that Instance("NodeBase") resolves and objects pickle)."""
from traits.api import (HasTraits, Instance, List, Dict, CStr, Int, Property, cached_property, observe,
                        ComparisonMode)


class NodeBase(HasTraits):
    # comparison_mode none: re-assigning the very same object is an event too (old is new)
    child = Instance("NodeBase", tracked=True, comparison_mode=ComparisonMode.none)
    kids = List(Instance("NodeBase"), ltracked=True)
    d = Dict(CStr, Instance("NodeBase"))


class Node(NodeBase):
    value = Int


class Bare(NodeBase):
    """an object of a class WITHOUT the trait `value`"""
