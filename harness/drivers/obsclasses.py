"""Pool classes of Observe.tla (module level so that Instance("NodeBase") resolves and objects pickle)."""
from traits.api import (HasTraits, Instance, List, Dict, Set, CStr, Int, Property, cached_property, observe,
                        ComparisonMode, Union)


class NodeBase(HasTraits):
    # the metadata values are DEFINED BUT FALSY (0, ""): "+name" selects the traits that define the metadata at all
    # comparison_mode none: re-assigning the very same object is an event too (old is new)
    child = Instance("NodeBase", tracked=0, comparison_mode=ComparisonMode.none)
    kids = List(Instance("NodeBase"), ltracked="")
    # (Dict traits are copied by reference unless told otherwise; List / Set / Instance default to copy="deep")
    d = Dict(CStr, Instance("NodeBase"), copy="deep")
    # compared by IDENTITY: assigning another set object - equal or not - is a change
    s = Set(Instance("NodeBase"), comparison_mode=ComparisonMode.identity)
    dl = Dict(CStr, List(Instance("NodeBase")), copy="deep")      # a nested container
    # a list or an int: observed with list_items() of the expression API, which REQUIRES a list
    box = Union(List(Instance("NodeBase")), Int)


RUNS = {}          # (id(object), property name) -> number of getter runs


def _ran(obj, name):
    key = (id(obj), name)
    RUNS[key] = RUNS.get(key, 0) + 1


def _tokn(o):
    return o.__dict__.get("tokn", 0)


def _val(o):
    # never touch `value` on an object whose class lacks it: the failed lookup would cache a Python trait of that
    # name in the CLASS (finding F7/F12) and the class would from then on "have" the trait
    return o.value if isinstance(o, Node) else -1


class Node(NodeBase):
    value = Int
    tokn = Int          # pool number of the object (so that getters can name objects; survives copies)


class RootBase(Node):
    """the class of the ROOT object only: observed properties (their class-level observers require `value` on
    every item of root.kids and on root.child)"""
    w = Int             # its static handler reads the cached property (also while an object is being copied)

    def __len__(self):
        # a container-like object: FALSY while it has no kids (nothing in the framework may take "falsy" for "gone")
        return len(self.__dict__.get("kids", ()))

    #: declared with observe dependencies and an UNCACHED getter here; CNode overrides the getter as cached
    csnap = Property(observe="kids.items.value")
    #: uncached observed property
    chv = Property(observe="child.value")

    #: a cached property whose computed value is None while there is no child
    cfirst = Property(observe="child.value")

    #: a cached property over the nested container
    dlsnap = Property(observe="dl.items.items")

    def _get_csnap(self):
        _ran(self, "csnap")
        return tuple((_tokn(k), _val(k)) for k in self.kids)

    @cached_property
    def _get_dlsnap(self):
        _ran(self, "dlsnap")
        return tuple((int(key) if key.isdigit() else 777, tuple(_tokn(o) for o in inner)) for key, inner in self.dl.items())

    @cached_property
    def _get_cfirst(self):
        _ran(self, "cfirst")
        c = self.child
        return None if c is None else _val(c)

    def _get_chv(self):
        _ran(self, "chv")
        c = self.child
        return () if c is None else (_tokn(c), _val(c))

    def _w_changed(self):
        self.csnap


class CNode(RootBase):
    @cached_property
    def _get_csnap(self):
        _ran(self, "csnap")
        return tuple((_tokn(k), _val(k)) for k in self.kids)


class Bare(NodeBase):
    """an object of a class WITHOUT the trait `value`"""
    tokn = Int


class VNode(Node):
    """a node with VALUE-based equality: all VNodes compare equal (and hash alike).  Assigning a fresh one where another
    was is "no change" to a trait compared by equality - yet the new object is the one to follow from then on (C16)"""

    def __eq__(self, other):
        return isinstance(other, VNode)

    def __ne__(self, other):
        return not isinstance(other, VNode)

    def __hash__(self):
        return 7
