"""C11 — deferred traits mirror their target: delegation and prototyping.
spec/Deferred.tla, DeferredMC (histories with invariants), Trace_Deferred (judge)."""
import json
import os
import random
import shutil

from .. import build, tlc, judge

ATTRS = ["a", "b", "c", "e", "pa", "pb", "pc", "pe", "da", "dpa"]
TARGET = {"a": "a", "b": "tb", "c": "pre_c", "e": "pp_e", "pa": "pa", "pb": "ptb", "pc": "pre_pc", "pe": "pp_pe",
          "da": "xa", "dpa": "xpa"}
TARGETS = sorted(set(TARGET.values()))
ABSENT = 1000
BAD = 99


class World(object):
    def __init__(self, shape=0):
        build.install()
        from . import defer_classes as dc
        self.ps = [None, dc.P(), dc.P()]
        self.shape = shape
        self.p0 = dc.P()          # shape 1: the delegate of the overridden base-class declarations - a stranger to D
        if shape == 2:
            self.d = dc.DLink()
            self.d.holder.par = self.ps[1]
        else:
            self.d = dc.D(par=self.ps[1]) if shape == 0 else dc.DSub(par=self.ps[1], par0=self.p0)
        from traits.api import DelegatesTo, PrototypedFrom
        self.d.add_trait("da", DelegatesTo("par", "xa"))           # deferred traits given to the object at run time
        self.d.add_trait("dpa", PrototypedFrom("par", "xpa"))
        self.d2 = (dc.D2Sub if shape == 1 else dc.D2)(par=self.d)
        self.sx_touched = False
        self.logs = {x: [] for x in ATTRS}
        for x in ATTRS:
            self.d.on_trait_change(self._mk(x), x)

    def _mk(self, x):
        log = self.logs[x]

        def handler(obj, name, old, new):
            log.append(new if isinstance(new, int) else -7)
        return handler

    def state(self):
        d = self.d
        par = 0 if d.par is None else 1 if d.par is self.ps[1] else 2
        # (a value that is not an int - the rejected value stored all the same - is projected to the code of Bad)
        num = lambda v: v if type(v) is int else BAD
        val = [{t: num(getattr(self.ps[p], t)) for t in TARGETS} for p in (1, 2)]
        local = {x: num(d.__dict__.get(x, ABSENT)) for x in ATTRS}
        return {"par": par, "val": val, "local": local}

    def reads(self):
        out = {}
        for x in ATTRS:
            try:
                v = getattr(self.d, x)
                out[x] = v if isinstance(v, int) else -2
            except Exception:
                out[x] = -1
        qs = {}
        for q in ("q", "q2", "q3"):
            try:
                v = getattr(self.d2, q)
                qs[q] = v if isinstance(v, int) else -2
            except Exception:
                qs[q] = -1
        return out, qs


def run_history(rnd, steps, t):
    from traits.trait_errors import TraitError
    w = World(rnd.choice([0, 1, 2]))
    out = []
    for s in range(steps):
        pre = w.state()
        for x in ATTRS:
            w.logs[x].clear()
        u = rnd.random()
        x = rnd.choice(ATTRS)
        p, v, qn = 0, 0, "q"
        conc = lambda val: "bad" if val == BAD else val
        exc = ""
        try:
            if u < 0.08 and w.shape == 1:
                # the stranger: every attribute of the base-class delegate gets the value
                op, v = "setp0", rnd.choice([2, 3, 4, BAD])
                setattr(w.p0, rnd.choice(TARGETS), conc(v))
                if v != BAD:
                    for tname in TARGETS:
                        setattr(w.p0, tname, v)
            elif u < 0.12:
                # a write through an attribute that defers to an UNDECLARED name of a strict delegate
                op, v, x = "setsx", rnd.choice([1, 2, 3]), "a"
                w.d.sx = v
            elif u < 0.3:
                op, v = "setd", rnd.choice([1, 2, 3, BAD])
                setattr(w.d, x, conc(v))
            elif u < 0.6:
                op, p, v = "setp", rnd.choice([1, 2]), rnd.choice([1, 2, 3, BAD])
                setattr(w.ps[p], TARGET[x], conc(v))
            elif u < 0.72:
                op = "del"
                delattr(w.d, x)
            elif u < 0.88:
                op, p = "swap", rnd.choice([0, 1, 2, 1, 2])
                w.d.par = w.ps[p]
            else:
                op, v = "setq", rnd.choice([1, 2, 3, BAD])
                qn = rnd.choice(["q", "q2", "q3"])
                x = {"q": "b", "q2": "a", "q3": "c"}[qn]
                setattr(w.d2, qn, conc(v))
        except TraitError:
            exc = "TraitError"
        except Exception as e:
            exc = type(e).__name__
        calls = list(w.logs[x]) if op != "setp0" else [c for xx in ATTRS for c in w.logs[xx]]
        post = w.state()
        reads, readq = w.reads()
        for xx in ATTRS:
            w.logs[xx].clear()
        # (no attribute of the strict delegate is READ before the first write through sx: a lookup would resolve - and
        # cache - the undeclared name in its class)
        sp = w.d.__dict__.get("spar")
        leak = 1 if sp is not None and "nope" in sp.__dict__ else 0
        readsx = -1
        if op == "setsx" or w.sx_touched:
            w.sx_touched = True
            try:
                w.d.spar.nope
                leak = 1
            except Exception:
                pass
            try:
                w.d.sx
                readsx = 0
            except Exception:
                readsx = -1
        out.append({"tid": t, "step": s, "op": op, "x": x, "p": p, "v": v, "exc": exc, "pre": pre, "post": post,
                    "calls": calls, "reads": reads, "readq": readq, "q": qn, "sxleak": leak, "readsx": readsx})
    return out


def run(rep, tier, seed):
    build.install()
    rnd = random.Random(seed)
    work = tlc.scratch_dir("c11_")
    try:
        res = tlc.run_tlc("DeferredMC", "DeferredMC_%s.cfg" % tier, timeout=3000, workers=8)
        rep.add_tlc("DeferredMC", res)
        ntr, steps = (1500, 16) if tier == "quick" else (25000, 24)
        trace = os.path.join(work, "trace.ndjson")
        n = 0
        with open(trace, "w") as f:
            for t in range(ntr):
                for r in run_history(rnd, steps, t):
                    f.write(json.dumps(r, separators=(",", ":")) + "\n")
                    n += 1
                    if n == 30:
                        rep.sample(r)
        rep.case(n)

        def sig_of(rec, cl):
            kind = "delegate" if rec["x"] in ("a", "b", "c", "e", "da") else "prototype"
            return "C11:judge:%s:%s:%s:%s" % (rec["op"], kind, rec["x"], "+".join(cl))
        judge.judge(rep, "Trace_Deferred", "Trace_Deferred", "Trace_Deferred.cfg", trace, n, sig_of=sig_of)
        rep.rule = ("TLC: DeferredMC histories (set via the deferring object, set on either candidate delegate, swap the "
                    "delegate incl. None, delete the local value, invalid assignments) with the mirror / independence / "
                    "stale-delegate invariants; %d recorded steps on real objects with one DelegatesTo and one "
                    "PrototypedFrom attribute per prefix style (same name, explicit name, 'pre_*', '*' with __prefix__) and "
                    "a two-hop renaming chain; after every step all deferring attributes are read and the handler calls "
                    "on the touched attribute recorded; every record judged by TLC" % n)
        rep.extra["history_steps"] = n
    finally:
        shutil.rmtree(work, ignore_errors=True)


def replay(rep, path):
    print(json.dumps(json.load(open(path)), indent=1)[:3000])
