"""C04 — container traits never hold an invalid element or an illegal length.
spec/ContainerTraits.tla (+TraitList/TraitDict/TraitSet instances), ContainerTraitsMC (cases + histories),
Trace_ContainerTraits (judge).  Real objects: HasTraits classes generated from the configuration record."""
import json
import os
import random
import shutil
import sys

from .. import build, tlc, cases, judge
from ..core import MachineryError

NONE = 1000
INF = 999
VALID = {1, 2, 3, 4}
_classes = {}


_BADREP = [0]     # which representative of the specification's Invalid item: 0 a string, 1 the Undefined sentinel, 2 None
VIAS = ["assign", "assign", "assign", "ctor", "deepcopy", "clone", "copy_traits", "pickle", "share"]


_INST = [0]       # 1: the strict inner trait is Instance("harness.drivers.valclasses.Cell") - a class given BY NAME, resolved
                  # at its first use - and the valid items are Cell objects (list and nested-list kinds)


def conc_item(x):
    if x in VALID:
        if _INST[0]:
            from .valclasses import Cell
            return Cell(x)
        return x
    if x in (11, 12, 13):
        return str(x - 10)
    if _BADREP[0] == 1:
        from traits.api import Undefined
        return Undefined
    if _BADREP[0] == 2:
        return None
    return "bad"


def proj(x):
    if type(x).__name__ == "Cell":
        return x.n
    return x if type(x) is int else 777


def proj_val(kind, v):
    try:
        if kind == "list":
            return [proj(x) for x in v]
        if kind == "listlist":
            return [[proj(x) for x in inner] if isinstance(inner, list) else [778] for inner in v]
        if kind == "dict":
            return [[proj(k), proj(x)] for k, x in v.items()]
        if kind == "set":
            return sorted(proj(x) for x in v)
        if kind == "dictlist":
            return [[proj(k), [proj(x) for x in inner] if isinstance(inner, list) else [778]] for k, inner in v.items()]
    except Exception:
        return [779]
    raise MachineryError(kind)


_EXT = [0]
_SHAPE = [0]      # owner shape: 0 an ordinary HasTraits class, 1 a class whose instances are FALSY (__len__ gives 0)


def get_class(cfg):
    key = json.dumps(cfg, sort_keys=True) + "|%d|%d" % (_SHAPE[0], _INST[0])
    if key in _classes:
        return _classes[key]
    build.install()
    from traits.api import HasTraits, List, Dict, Set, CInt, Int
    from traits.api import Instance
    T = lambda m: CInt if m == "coerce" else (Instance("harness.drivers.valclasses.Cell") if _INST[0] else Int)
    mx = lambda hi: sys.maxsize if hi == INF else hi
    kind = cfg["kind"]
    if kind == "list":
        tr = List(T(cfg["vm"]), minlen=cfg["lo"], maxlen=mx(cfg["hi"]))
    elif kind == "listlist":
        tr = List(List(T(cfg["vm"]), minlen=cfg["ilo"], maxlen=mx(cfg["ihi"])), minlen=cfg["lo"], maxlen=mx(cfg["hi"]))
    elif kind == "dict":
        tr = Dict(T(cfg["kvm"]), T(cfg["vvm"]))
    elif kind == "set":
        tr = Set(T(cfg["vm"]))
    elif kind == "dictlist":
        tr = Dict(T(cfg["kvm"]), List(T(cfg["vm"]), minlen=cfg["ilo"], maxlen=mx(cfg["ihi"])))
    else:
        raise MachineryError(kind)
    name = "H_%d" % len(_classes)
    ns = {"xs": tr, "__module__": __name__}
    if _SHAPE[0] == 1:
        ns["__len__"] = lambda self: 0
    cls = type(name, (HasTraits,), ns)
    globals()[name] = cls            # so that instances pickle
    _classes[key] = cls
    return cls


def establish(cls, kind, pre, via):
    """an object whose attribute holds `pre`, obtained by the given route (the specification's Transfer: the value of a
    container attribute is the same after any of them, and the attribute is governed by the same trait)"""
    import copy
    import gc
    import pickle
    if via == "ctor":
        return cls(xs=conc_pre(kind, pre))
    src = cls()
    src.xs = conc_pre(kind, pre)
    if via == "assign":
        return src
    if via == "deepcopy":
        return copy.deepcopy(src)
    if via == "clone":
        return src.clone_traits()
    if via == "copy_traits":
        obj = cls()
        obj.copy_traits(src)
        return obj
    if via == "pickle":
        return pickle.loads(pickle.dumps(src))
    if via == "share":
        obj = cls()
        obj.xs = src.xs          # the other object's container object, same trait
        del src
        gc.collect()
        return obj
    raise MachineryError("via " + via)


def conc_pre(kind, pre):
    if kind == "list":
        return [conc_item(x) for x in pre] if _INST[0] else list(pre)
    if kind == "listlist":
        return [[conc_item(y) for y in x] for x in pre] if _INST[0] else [list(x) for x in pre]
    if kind == "dict":
        return dict((k, v) for k, v in pre)
    if kind == "set":
        return set(pre)
    if kind == "dictlist":
        return dict((k, list(v)) for k, v in pre)


def conc_lc(c):
    """list candidate [islist, items] -> python value"""
    items = [conc_lc(x) if isinstance(x, dict) else conc_item(x) for x in c["items"]]
    return items if c["islist"] == 1 else tuple(items)


def _opt(v):
    return None if v == NONE else v


def list_perform(obj, op, a, xs):
    """xs already concrete"""
    if op == "setitem":
        obj[a[0]] = xs[0]
    elif op == "setslice":
        obj[slice(_opt(a[0]), _opt(a[1]), _opt(a[2]))] = xs
    elif op == "delitem":
        del obj[a[0]]
    elif op == "delslice":
        del obj[slice(_opt(a[0]), _opt(a[1]), _opt(a[2]))]
    elif op == "append":
        obj.append(xs[0])
    elif op == "extend":
        # the argument as a list iterator (its length can be asked for) or as a generator (it cannot), by turns
        _EXT[0] += 1
        obj.extend(iter(xs) if _EXT[0] % 2 else (x for x in xs))
    elif op == "iadd":
        obj += xs
    elif op == "imul":
        obj *= a[0]
    elif op == "insert":
        obj.insert(a[0], xs[0])
    elif op == "pop":
        r = obj.pop() if a[0] == NONE else obj.pop(a[0])
        return r
    elif op == "remove":
        obj.remove(xs[0])
    elif op == "reverse":
        obj.reverse()
    elif op == "sort":
        obj.sort(reverse=bool(a[1]))
    elif op == "clear":
        obj.clear()
    else:
        raise MachineryError("list op " + op)
    return None


def dict_perform(obj, op, a, ps):
    ck = conc_item
    if op == "setitem":
        obj[ck(a[0])] = ck(a[1])
    elif op == "delitem":
        del obj[a[0]]
    elif op in ("update", "ior"):
        pairs = [(ck(k), ck(v)) for k, v in ps]
        arg = dict(pairs) if a[0] == 0 else iter(pairs)
        if op == "update":
            obj.update(arg)
        else:
            obj |= dict(pairs)
    elif op == "setdefault":
        return [proj(obj.setdefault(ck(a[0]), ck(a[1])))]
    elif op == "pop":
        return [proj(obj.pop(a[0], a[2]) if a[1] == 1 else obj.pop(a[0]))]
    elif op == "popitem":
        k, v = obj.popitem()
        return [proj(k), proj(v)]
    elif op == "clear":
        obj.clear()
    else:
        raise MachineryError("dict op " + op)
    return [NONE]


def set_perform(obj, op, a, args):
    cargs = [[conc_item(x) for x in A] for A in args]
    c0 = conc_item(a[0]) if op == "add" else a[0]
    if op == "add":
        obj.add(c0)
    elif op == "discard":
        obj.discard(c0)
    elif op == "remove":
        obj.remove(c0)
    elif op == "pop":
        return obj.pop()
    elif op == "clear":
        obj.clear()
    elif op == "update":
        obj.update(*[iter(A) for A in cargs])
    elif op == "difference_update":
        obj.difference_update(*[[x for x in A] for A in args])
    elif op == "intersection_update":
        obj.intersection_update(*[[x for x in A] for A in args])
    elif op == "symmetric_difference_update":
        obj.symmetric_difference_update(list(cargs[0]))
    elif op == "ior":
        obj |= (frozenset(cargs[0]) if len(cargs[0]) % 2 else set(cargs[0]))
    elif op == "iand":
        obj &= set(args[0])
    elif op == "isub":
        obj -= set(args[0])
    elif op == "ixor":
        obj ^= set(cargs[0])
    else:
        raise MachineryError("set op " + op)
    return None


class PreStateError(Exception):
    """the pre-state is not a legal value of the trait (only after an already reported violation)"""


def execute(cfg, pre, op, sub, a, xs, cs, via="assign", badrep=0, shape=0, inst=0):
    _BADREP[0] = badrep
    _SHAPE[0] = shape
    _INST[0] = inst if (cfg["kind"] in ("list", "listlist") and cfg.get("vm") == "strict") else 0
    if _INST[0] and badrep != 0:
        _BADREP[0] = badrep = 0        # (None and Undefined are not invalid for an Instance trait: only the text stands for Invalid)
    try:
        r = _execute(cfg, pre, op, sub, a, xs, cs, via)
    finally:
        _BADREP[0] = 0
        _SHAPE[0] = 0
        inst_used = _INST[0]
        _INST[0] = 0
    if inst_used:
        r["inst"] = 1
    r["badrep"] = badrep
    if shape:
        r["shape"] = shape
    return r


def _execute(cfg, pre, op, sub, a, xs, cs, via):
    build.install()
    from traits.trait_errors import TraitError
    kind = cfg["kind"]
    cls = get_class(cfg)
    if op == "default":
        return _execute_default(cfg, cls, kind, pre, a, via)
    try:
        obj = establish(cls, kind, pre, via)
    except TraitError:
        if via != "assign":
            raise PreStateError(pre)
        # a LEGAL value of the trait was refused by a plain assignment: a verdict for the judge (no specification outcome has
        # this exception class), not a failure of the machinery
        return {"cfg": cfg, "kind": kind, "op": op, "sub": sub, "a": list(a), "xs": xs, "cs": cs, "pre": pre, "post": pre,
                "exc": "LegalValueRefused", "ret": [NONE] if kind == "dict" else NONE, "nitems": 0, "nchange": 0, "evs": [],
                "via": via, "viapre": pre}
    viapre = proj_val(kind, obj.xs)
    if via == "assign" and viapre != pre:
        raise MachineryError("cannot establish pre-state %r for %r: got %r" % (pre, cfg, viapre))
    items_events = []
    change_events = []

    def on_items(event):
        items_events.append(event)

    def on_change(new):
        change_events.append(1)
    obj.on_trait_change(on_items, "xs_items")
    obj.on_trait_change(on_change, "xs")
    exc = ""
    ret = None
    try:
        if op == "reset":
            if a[0] == 0:
                del obj.xs
            else:
                obj.reset_traits(["xs"])
        elif op == "assign":
            c = cs[0]
            if kind in ("list", "listlist"):
                obj.xs = conc_lc(c)
            elif kind == "dict":
                pairs = [(conc_item(k), conc_item(v)) for k, v in c["ps"]]
                obj.xs = dict(pairs) if c["isdict"] == 1 else pairs
            elif kind == "set":
                items = [conc_item(x) for x in c["items"]]
                obj.xs = set(items) if c["isset"] == 1 else items
        elif kind == "list":
            ret = list_perform(obj.xs, op, a, [conc_item(x) for x in xs])
        elif kind == "listlist":
            if sub == "outer":
                ret = list_perform(obj.xs, op, a, [conc_lc(c) for c in cs])
                ret = None
            else:
                ret = list_perform(obj.xs[a[3]], op, a, [conc_item(x) for x in xs])
        elif kind == "dict":
            ret = dict_perform(obj.xs, op, a, xs)
        elif kind == "set":
            ret = set_perform(obj.xs, op, a, cs)
        elif kind == "dictlist":
            if sub == "outer":
                if op == "setitem":
                    obj.xs[conc_item(a[0])] = conc_lc(cs[0])
                else:
                    del obj.xs[a[0]]
            else:
                ret = list_perform(obj.xs[a[3]], op, a, [conc_item(x) for x in xs])
    except TraitError:
        exc = "TraitError"
    except Exception as e:
        exc = type(e).__name__
    post = proj_val(kind, obj.xs)
    evs = []
    if kind == "list":
        from ..drivers.C05 import proj_ev
        for e in items_events:
            evs.append(proj_ev(e.index, [proj(x) for x in e.removed] if isinstance(e.removed, list) else e.removed,
                               [proj(x) for x in e.added] if isinstance(e.added, list) else e.added))
    if kind == "dict":
        pret = ret if isinstance(ret, list) else [NONE]
    elif kind == "set":
        pret = NONE if ret is None else proj(ret)
    else:
        pret = NONE if ret is None else proj(ret)
    return {"cfg": cfg, "kind": kind, "op": op, "sub": sub, "a": list(a), "xs": xs, "cs": cs, "pre": pre, "post": post,
            "exc": exc, "ret": pret, "nitems": len(items_events), "nchange": len(change_events), "evs": evs,
            "via": via, "viapre": viapre}


def _execute_default(cfg, cls, kind, pre, a, via):
    """the first read of the never-assigned attribute on a fresh object (a sibling holds `pre` and must keep it)"""
    from traits.trait_errors import TraitError
    sib = establish(cls, kind, pre, "assign")
    obj = cls()
    got = []
    obj.on_trait_change(lambda: got.append(1), "xs")
    exc = ""
    try:
        post = proj_val(kind, obj.xs)
        again = proj_val(kind, obj.xs)
        if post != again:
            exc = "DefaultNotStable"
    except TraitError:
        exc, post = "TraitError", pre
    except Exception as e:
        exc, post = type(e).__name__, pre
    if proj_val(kind, sib.xs) != pre:
        exc = "SiblingChanged"
    return {"cfg": cfg, "kind": kind, "op": "default", "sub": "", "a": list(a), "xs": [], "cs": [], "pre": pre, "post": post,
            "exc": exc, "ret": NONE, "nitems": 0, "nchange": len(got), "evs": [], "via": "assign", "viapre": pre}


def _plain(v):
    from ..tlaval import to_py
    return to_py(v)


def case_fn(st, rep):
    last = st["last"]
    if last["op"] == "init":
        return None
    cfg = _plain(last["cfg"])
    kind = cfg["kind"]
    pre = _plain(last["pre"])
    if kind == "set":
        pre = sorted(pre)
        if last["op"] == "pop" and last["ret"] != NONE and last["ret"] != min(pre):
            return None
    xs = _plain(last["xs"])
    cs = _plain(last["cs"])
    if kind == "set":
        cs = [sorted(A) if isinstance(A, list) else ({"isset": A["isset"], "items": sorted(A["items"])}) for A in cs]
    if rep == 1 and "99" not in json.dumps([xs, cs, list(last["a"])]):
        return None          # second representative of the Invalid item (Undefined): only cases that use it
    if rep == 2:
        # a falsy owner object: a quarter of the cases
        import zlib
        if zlib.crc32(json.dumps([cfg, pre, last["op"], list(last["a"])], sort_keys=True).encode()) % 4:
            return None
        r = execute(cfg, pre, last["op"], last["sub"], list(last["a"]), xs, cs, shape=1)
        return {"fail": None, "line": r, "sample": r}
    if rep == 3:
        # the inner trait is an Instance whose class is given by name: list kinds, a quarter of the cases
        import zlib
        if cfg["kind"] not in ("list", "listlist") or cfg.get("vm") != "strict" or last["op"] in ("default", "reset"):
            return None
        if zlib.crc32(json.dumps([cfg, pre, last["op"], list(last["a"]), "i"], sort_keys=True).encode()) % 4:
            return None
        r = execute(cfg, pre, last["op"], last["sub"], list(last["a"]), xs, cs, inst=1)
        return {"fail": None, "line": r, "sample": r}
    r = execute(cfg, pre, last["op"], last["sub"], list(last["a"]), xs, cs, badrep=rep)
    return {"fail": None, "line": r, "sample": r}


def history_lines(seed, ntraces, steps):
    """seeded multi-step histories: the pre-state of every step is the real object's projected state"""
    rnd = random.Random(seed)
    out = []
    cfgs = []
    for vm in ("coerce", "strict"):
        for lo, hi in ((0, INF), (1, 3), (2, 2), (0, 5)):
            cfgs.append({"kind": "list", "vm": vm, "lo": lo, "hi": hi})
        for ilo, ihi in ((0, INF), (0, 2)):
            cfgs.append({"kind": "listlist", "vm": vm, "lo": 0, "hi": INF, "ilo": ilo, "ihi": ihi})
            cfgs.append({"kind": "listlist", "vm": vm, "lo": 1, "hi": 3, "ilo": ilo, "ihi": ihi})
            cfgs.append({"kind": "dictlist", "kvm": vm, "vm": "coerce", "ilo": ilo, "ihi": ihi})
        cfgs.append({"kind": "set", "vm": vm})
        for v2 in ("coerce", "strict"):
            cfgs.append({"kind": "dict", "kvm": vm, "vvm": v2})
    items = [1, 2, 3, 4, 11, 12, 99]
    listops = ["setitem", "setslice", "delitem", "delslice", "append", "extend", "iadd", "imul", "insert", "pop",
               "remove", "reverse", "sort", "clear"]

    def rand_listop(n):
        op = rnd.choice(listops)
        ri = lambda: rnd.randint(-n - 2, n + 2)
        ro = lambda: NONE if rnd.random() < 0.3 else ri()
        a, xs = [0, 0, 0], []
        if op in ("setitem", "insert"):
            a[0], xs = ri(), [rnd.choice(items)]
        elif op in ("append", "remove"):
            xs = [rnd.choice(items)]
        elif op == "setslice":
            a = [ro(), ro(), rnd.choice([NONE, 1, 2, -1, -2, 3, 0])]
            xs = [rnd.choice(items[:-1] + ([99] if rnd.random() < 0.1 else [])) for _ in range(rnd.randint(0, 3))]
            if a[2] not in (NONE, 1, 0) and rnd.random() < 0.7:
                k = len(range(*slice(_opt(a[0]), _opt(a[1]), a[2]).indices(n)))
                xs = [rnd.choice([1, 2, 3, 11]) for _ in range(k)]
        elif op == "delslice":
            a = [ro(), ro(), rnd.choice([NONE, 1, 2, -1, -2, 3, 0])]
        elif op == "delitem":
            a[0] = ri()
        elif op in ("extend", "iadd"):
            xs = [rnd.choice(items[:-1] + ([99] if rnd.random() < 0.15 else [])) for _ in range(rnd.randint(0, 3))]
        elif op == "imul":
            a[0] = rnd.choice([-1, 0, 1, 2, 2, 3]) if n <= 3 else rnd.choice([0, 1, 1])
        elif op == "pop":
            a[0] = ro()
        elif op == "sort":
            a = [0, rnd.randint(0, 1), 0]
        return op, a, xs

    def rand_lc():
        if rnd.random() < 0.08:
            return {"islist": 0, "items": [3]}
        return {"islist": 1, "items": [rnd.choice(items[:-1] + ([99] if rnd.random() < 0.15 else []))
                                       for _ in range(rnd.randint(0, 3))]}
    for t in range(ntraces):
        cfg = rnd.choice(cfgs)
        hshape = 1 if rnd.random() < 0.25 else 0
        hinst = 1 if rnd.random() < 0.3 else 0
        kind = cfg["kind"]
        if kind == "list":
            n0 = rnd.randint(cfg["lo"], min(cfg["hi"], cfg["lo"] + 3))
            cur = [rnd.choice([1, 2, 3]) for _ in range(n0)]
        elif kind == "listlist":
            cur = [[rnd.choice([1, 2]) for _ in range(rnd.randint(0, 2))] for _ in range(rnd.randint(cfg["lo"], 2))]
        elif kind == "dict":
            cur = [[k, rnd.choice([1, 2])] for k in rnd.sample([1, 2, 3], rnd.randint(0, 3))]
        elif kind == "set":
            cur = sorted(rnd.sample([1, 2, 3, 4], rnd.randint(0, 3)))
        else:
            cur = [[k, [rnd.choice([1, 2]) for _ in range(rnd.randint(0, 2))]] for k in rnd.sample([1, 2, 3], rnd.randint(0, 2))]
        for _ in range(steps):
            sub, a, xs, cs = "", [0, 0, 0], [], []
            if kind == "list":
                if rnd.random() < 0.1:
                    op, cs = "assign", [rand_lc()]
                else:
                    op, a, xs = rand_listop(len(cur))
            elif kind == "listlist":
                u = rnd.random()
                if u < 0.08:
                    op, cs = "assign", [{"islist": 1, "items": [rand_lc() for _ in range(rnd.randint(0, 3))]}]
                elif u < 0.5 and cur:
                    j = rnd.randrange(len(cur))
                    op, a, xs = rand_listop(len(cur[j]))
                    a = a + [j]
                    sub = "inner"
                else:
                    sub = "outer"
                    op, a, xs0 = rand_listop(len(cur))
                    while op in ("remove", "sort", "iadd"):
                        op, a, xs0 = rand_listop(len(cur))
                    cs = [rand_lc() for _ in xs0]
            elif kind == "dict":
                op = rnd.choice(["setitem", "setitem", "delitem", "update", "ior", "setdefault", "pop", "popitem", "clear", "assign"])
                ka = [1, 2, 3, 4, 11, 12] + ([99] if rnd.random() < 0.15 else [])
                if op in ("setitem", "setdefault"):
                    a = [rnd.choice(ka), rnd.choice(ka), 0]
                elif op == "delitem":
                    a = [rnd.choice([1, 2, 3, 4]), 0, 0]
                elif op in ("update", "ior"):
                    xs = [[rnd.choice(ka), rnd.choice(ka)] for _ in range(rnd.randint(0, 3))]
                    a[0] = rnd.randint(0, 1) if op == "update" else 0
                    if a[0] == 0:
                        seen = set()
                        xs = [p for p in xs if not (p[0] in seen or seen.add(p[0]))]
                elif op == "pop":
                    h = rnd.randint(0, 1)
                    a = [rnd.choice([1, 2, 3, 4]), h, 3 if h else 0]
                elif op == "assign":
                    cs = [{"isdict": 1 if rnd.random() < 0.9 else 0,
                           "ps": [[k, rnd.choice(ka)] for k in rnd.sample(ka, rnd.randint(0, 3))]}]
                    if cs[0]["isdict"] == 0:
                        cs[0]["ps"] = []
            elif kind == "set":
                op = rnd.choice(["add", "add", "discard", "remove", "pop", "clear", "update", "ior", "iand", "isub", "ixor",
                                 "difference_update", "intersection_update", "symmetric_difference_update", "assign"])
                pool = [1, 2, 3, 4, 11, 12] + ([99] if rnd.random() < 0.12 else [])
                rs = lambda: sorted(set(rnd.choice(pool) for _ in range(rnd.randint(0, 3))))
                if op in ("add", "discard", "remove"):
                    a[0] = rnd.choice(pool if op == "add" else [1, 2, 3, 4])
                elif op == "assign":
                    cs = [{"isset": 1 if rnd.random() < 0.9 else 0, "items": rs()}]
                    if cs[0]["isset"] == 0:
                        cs[0]["items"] = []
                elif op in ("update", "difference_update", "intersection_update"):
                    cs = [rs() for _ in range(rnd.randint(1, 2))]
                elif op not in ("pop", "clear"):
                    cs = [rs()]
            else:   # dictlist
                u = rnd.random()
                if u < 0.45 and cur:
                    k = rnd.choice(cur)[0]
                    op, a, xs = rand_listop(len([v for kk, v in cur if kk == k][0]))
                    a = a + [k]
                    sub = "inner"
                elif u < 0.85:
                    op, sub, a, cs = "setitem", "outer", [rnd.choice([1, 2, 3, 11, 99]), 0, 0], [rand_lc()]
                else:
                    op, sub, a = "delitem", "outer", [rnd.choice([1, 2, 3]), 0, 0]
            try:
                r = execute(cfg, cur, op, sub, a, xs, cs, via=rnd.choice(VIAS), badrep=rnd.choice([0, 0, 1, 2]), shape=hshape, inst=hinst)
            except PreStateError:
                break       # the previous step left an illegal value; the judge rejects that step
            r["tid"] = t
            out.append(r)
            cur = r["post"]
            if "77" in json.dumps(cur):
                break
    return out


def sig_of(rec, cl):
    if cl == ["KF14"]:
        return "C04:KF14:dict-setdefault-raw-key-absent-validated-present"
    if cl == ["KF15"]:
        return "C04:KF15:set-symmetric-difference-raw-item-absent-validated-present"
    return "C04:judge:%s:%s%s%s%s:%s" % (rec["kind"], rec["sub"] + "." if rec["sub"] else "", rec["op"],
                                         ":after-" + rec["via"] if rec.get("via", "assign") != "assign" else "",
                                         ":invalid-item-rep%d" % rec["badrep"] if rec.get("badrep") else "", "+".join(cl))


def run(rep, tier, seed):
    build.install()
    work = tlc.scratch_dir("c04_")
    try:
        hres = tlc.run_tlc("ContainerTraitsMC", "ContainerTraitsMC_hist_%s.cfg" % tier, timeout=5000, workers=16,
                           heap="8g" if tier == "quick" else "16g")
        rep.add_tlc("ContainerTraitsMC_hist", hres)
        cfg = "ContainerTraitsMC_cases_%s.cfg" % tier
        dump = os.path.join(work, "cases")
        res = tlc.run_tlc("ContainerTraitsMC", cfg, dump=dump, timeout=5000, workers=8,
                          heap="6g" if tier == "quick" else "16g")
        rep.add_tlc("ContainerTraitsMC_cases", res)
        trace = os.path.join(work, "trace.ndjson")
        tot = cases.run_dump_cases(dump + ".dump", case_fn, out_ndjson=trace, reps=4)
        os.unlink(dump + ".dump")
        if tot["ncases"] == 0:
            raise MachineryError("no cases in dump")
        rep.case(tot["ncases"])
        for s in tot["samples"][:2]:
            rep.sample(s)
        nh, steps = (600, 25) if tier == "quick" else (8000, 40)
        hl = history_lines(seed, nh, steps)
        with open(trace, "a") as f:
            for r in hl:
                f.write(json.dumps(r, separators=(",", ":")) + "\n")
        rep.case(len(hl))
        rep.sample(hl[len(hl) // 2])
        n = tot["nlines"] + len(hl)
        judge.judge(rep, "Trace_ContainerTraits", "Trace_ContainerTraits", "Trace_ContainerTraits.cfg", trace, n,
                    sig_of=sig_of, heap="8g" if tier == "quick" else "24g")
        rep.rule = ("TLC: (a) histories of the container-attribute model up to the configured depth with the C04 "
                    "invariants (elements valid, length in bounds, nested) checked in every state; (b) every one-step "
                    "case (configuration, value, operation, arguments) enumerated and executed on a real HasTraits "
                    "object with List/Dict/Set(/nested) traits built from the configuration; plus %d seeded history "
                    "steps on real objects; every record judged by TLC (outcome, contents, silence on failure, item "
                    "events)" % len(hl))
        rep.exhaustive = True
        rep.extra["cases_from_tlc_dump"] = tot["ncases"]
        rep.extra["history_steps"] = len(hl)
    finally:
        shutil.rmtree(work, ignore_errors=True)


def replay(rep, path):
    build.install()
    obj = json.load(open(path))
    rec = (obj.get("case") or {}).get("record")
    r = execute(rec["cfg"], rec["pre"], rec["op"], rec["sub"], rec["a"], rec["xs"], rec["cs"], rec.get("via", "assign"),
                rec.get("badrep", 0))
    print("recorded:", rec)
    print("now     :", r)
