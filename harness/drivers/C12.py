"""C12 — observed/cached properties are never stale and announce dependency changes
(spec/Observe.tla: Props, PropValue, Relevant; Trace_Observe: ReadClauses and the property-notification clause)."""
from . import observe_common as oc


def run(rep, tier, seed):
    n = oc.run_for(rep, tier, seed, "C12")
    rep.rule = ("%d recorded steps of seeded histories (and the enumerated container cases) on a real pool whose root has a "
                "cached property (getter cached in a subclass of the declaring class) observing kids.items.value and an "
                "uncached one observing child.value: every read is compared by TLC with the value computed from the "
                "projected heap, getter runs are bounded using the mutations since the previous read, handlers on the "
                "property must be called exactly for relevant changes; histories continue on pickled / deep-copied pools"
                % n)


def replay(rep, path):
    import json
    print(json.dumps(json.load(open(path)), indent=1)[:3000])
