"""C01 for Range traits whose bounds name other attributes (spec/DynRange.tla): seeded histories of bound changes,
assignments and reads on real objects, every step judged by Trace_DynRange."""
import json
import os
import random
import shutil

from .. import build, tlc, judge

UNSET, BAD, NOBOUND = 999, 998, 997
_cls = {}


def get_class(cfg):
    key = json.dumps(cfg, sort_keys=True)
    if key not in _cls:
        build.install()
        from traits.api import HasTraits, Int, Range, Str
        b = lambda kind, name, const: name if kind == "name" else const if kind == "const" else None
        tr = Range(low=b(cfg["lk"], "lo", cfg["lc"]), high=b(cfg["hk"], "hi", cfg["hc"]),
                   exclude_low=cfg["xl"], exclude_high=cfg["xh"])
        _cls[key] = type("DynR_%d" % len(_cls), (HasTraits,), {"x": tr, "lo": Int(2), "hi": Int(6), "z": Str("z")})
    return _cls[key]


def state(o):
    c = o.__dict__.get("_traits_cache_x", UNSET)
    return {"lo": o.lo, "hi": o.hi, "cache": c if type(c) is int else (UNSET if c is UNSET else BAD)}


def run_history(rnd, steps, t):
    from traits.trait_errors import TraitError
    cfg = {"lk": rnd.choice(["name", "name", "const", "none"]), "hk": rnd.choice(["name", "name", "const", "none"]),
           "lc": 1, "hc": 6, "xl": rnd.random() < 0.4, "xh": rnd.random() < 0.4}
    if "name" not in (cfg["lk"], cfg["hk"]):
        cfg[rnd.choice(["lk", "hk"])] = "name"
    if cfg["lk"] == "none":
        cfg["xl"] = False
    if cfg["hk"] == "none":
        cfg["xh"] = False
    o = get_class(cfg)()
    out = []
    for s in range(steps):
        pre = state(o)
        op = rnd.choice(["read", "read", "assign", "assign", "setlo", "sethi"])
        v = rnd.choice([0, 2, 3, 4, 5, 6, 8]) if op != "assign" or rnd.random() > 0.12 else BAD
        exc, val = "", 0
        try:
            if op == "read":
                val = o.x
                if type(val) is not int:
                    val = BAD
            elif op == "assign":
                o.x = "bad" if v == BAD else v
            elif op == "setlo":
                o.lo = v
            else:
                o.hi = v
        except TraitError:
            exc = "TraitError"
        except Exception as e:
            exc = type(e).__name__
        if op == "read":
            v = 0
        out.append({"tid": t, "step": s, "cfg": cfg, "op": op, "v": v, "pre": pre, "post": state(o), "exc": exc, "val": val,
                    "frame": 1 if o.z == "z" else 0})
    return out


def run_for(rep, tier, seed):
    build.install()
    rnd = random.Random(seed + 4242)
    work = tlc.scratch_dir("dynr_")
    try:
        res = tlc.run_tlc("DynRangeMC", "DynRangeMC.cfg", timeout=1200, workers=4)
        rep.add_tlc("DynRangeMC", res)
        res2 = tlc.run_tlc("DynRangeMC", "DynRangeMC_F33.cfg", timeout=1200, workers=2)
        if res2.violated != "C01_ReadInDomain":
            rep.notes.append("DynRangeMC without the F33 deviation did not report the violation TLC reported when it was found")
        ntr, steps = (800, 12) if tier == "quick" else (15000, 20)
        trace = os.path.join(work, "trace.ndjson")
        n = 0
        with open(trace, "w") as f:
            for t in range(ntr):
                for r in run_history(rnd, steps, t):
                    f.write(json.dumps(r, separators=(",", ":")) + "\n")
                    n += 1
        rep.case(n)

        def sig_of(rec, cl):
            if cl == ["KF33"]:
                return "C01:F33:dynamic-Range-exclusive-bound-moved-onto-stored-value"
            return "C01:dynrange:%s:%s" % (rec["op"], "+".join(cl))
        judge.judge(rep, "Trace_DynRange", "Trace_DynRange", "Trace_DynRange.cfg", trace, n, sig_of=sig_of)
        rep.extra["dynamic_range_steps"] = n
    finally:
        shutil.rmtree(work, ignore_errors=True)
