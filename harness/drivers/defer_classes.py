"""Classes of Deferred.tla."""
from traits.api import HasTraits, Int, Instance, DelegatesTo, PrototypedFrom


class P(HasTraits):
    a = Int(1)
    tb = Int(1)
    pre_c = Int(1)
    pp_e = Int(1)
    pa = Int(1)
    ptb = Int(1)
    pre_pc = Int(1)
    pp_pe = Int(1)
    xa = Int(1)
    xpa = Int(1)


class D(HasTraits):
    __prefix__ = "pp_"
    par = Instance(P)
    a = DelegatesTo("par")
    b = DelegatesTo("par", "tb")
    c = DelegatesTo("par", "pre_*")
    e = DelegatesTo("par", "*")
    pa = PrototypedFrom("par")
    pb = PrototypedFrom("par", "ptb")
    pc = PrototypedFrom("par", "pre_*")
    pe = PrototypedFrom("par", "*")


class D2(HasTraits):
    par = Instance(D)
    q = DelegatesTo("par", "b")      # -> D.b (explicit name) -> par.tb (explicit name)
    q2 = DelegatesTo("par", "a")     # -> D.a (same name: derived from the incoming name) -> par.a
    q3 = DelegatesTo("par", "c")     # -> D.c ('pre_*': derived from the incoming name) -> par.pre_c
