"""Classes of Deferred.tla."""
from traits.api import HasStrictTraits, HasTraits, Int, Instance, DelegatesTo, PrototypedFrom


class P(HasTraits):
    a = Int(1)
    tb = Int(1)
    pre_c = Int(1)
    pp_e = Int(1)
    pa = Int(1)
    ptb = Int(1)
    pre_pc = Int(1)
    pp_pe = Int(1)
    xa = Int(1)
    xpa = Int(1)


class StrictP(HasStrictTraits):
    """a delegate of a strict class: the name `nope` is not declared on it"""
    known = Int(1)


class D(HasTraits):
    __prefix__ = "pp_"
    par = Instance(P)
    # defers to a name the (strict) delegate does not declare: governed by the DELEGATE's rule - rejected
    spar = Instance(StrictP, ())
    sx = DelegatesTo("spar", "nope", listenable=False)
    a = DelegatesTo("par")
    b = DelegatesTo("par", "tb")
    c = DelegatesTo("par", "pre_*")
    e = DelegatesTo("par", "*")
    pa = PrototypedFrom("par")
    pb = PrototypedFrom("par", "ptb")
    pc = PrototypedFrom("par", "pre_*")
    pe = PrototypedFrom("par", "*")


class D2(HasTraits):
    par = Instance(D)
    q = DelegatesTo("par", "b")      # -> D.b (explicit name) -> par.tb (explicit name)
    q2 = DelegatesTo("par", "a")     # -> D.a (same name: derived from the incoming name) -> par.a
    q3 = DelegatesTo("par", "c")     # -> D.c ('pre_*': derived from the incoming name) -> par.pre_c


class DBase(HasTraits):
    """declares the same deferring attributes against ANOTHER delegate link (and other targets); DSub overrides them all"""
    __prefix__ = "pp_"
    spar = Instance(StrictP, ())
    sx = DelegatesTo("spar", "nope", listenable=False)
    par0 = Instance(P)
    par = Instance(P)
    a = DelegatesTo("par0", "tb")
    b = DelegatesTo("par0")
    c = DelegatesTo("par0", "a")
    e = DelegatesTo("par0", "pre_*")
    pa = PrototypedFrom("par0", "ptb")
    pb = PrototypedFrom("par0", "pa")
    pc = PrototypedFrom("par0", "*")
    pe = PrototypedFrom("par0", "pa")


class DSub(DBase):
    a = DelegatesTo("par")
    b = DelegatesTo("par", "tb")
    c = DelegatesTo("par", "pre_*")
    e = DelegatesTo("par", "*")
    pa = PrototypedFrom("par")
    pb = PrototypedFrom("par", "ptb")
    pc = PrototypedFrom("par", "pre_*")
    pe = PrototypedFrom("par", "*")


class D2Sub(HasTraits):
    par = Instance(DSub)
    q = DelegatesTo("par", "b")
    q2 = DelegatesTo("par", "a")
    q3 = DelegatesTo("par", "c")


class Holder(HasTraits):
    par = Instance(P)


class DLink(D):
    """the delegate link is itself a deferred attribute: par = DelegatesTo("holder") (its value is not in the object's
    __dict__; reading, swapping and listening go through the holder)"""
    holder = Instance(Holder, ())
    par = DelegatesTo("holder")
