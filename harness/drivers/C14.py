"""C14 — pickling, deep copying and cloning preserve state and keep traits live.
(a) spec/Persist.tla + Trace_Persist: histories that CONTINUE on copies (pickle protocols 0-5, deepcopy, clone_traits);
(b) spec/CTraitTables.tla: handler tables / getstate-setstate indices, bound to the real CTrait API;
(c) trait definition objects: every configuration of Validate.tla is pickled / deep-copied as a CTrait and the C01 case
    replay repeated on the copy (judged by Trace_Validate)."""
import copy
import json
import os
import pickle
import random
import shutil

from .. import build, tlc, judge, cases
from ..core import MachineryError
from . import ctrait_tables, validate_common as vc

BAD = 99
KINDS = ["p0", "p1", "p2", "p3", "p4", "p5", "deepcopy", "clone", "clone_shallow", "clone_deep"]


def proj(o):
    from traits.api import Undefined
    d = o.__dict__
    ro = d.get("ro", 0)
    return {"n": o.n, "xs": list(o.xs), "nested": [list(x) for x in o.nested],
            "dl": [[int(k), list(v)] for k, v in sorted(o.dl.items())], "s": sorted(o.s),
            "child": {"value": o.child.value, "items": list(o.child.items),
                      "grid": [list(g) if type(g) is list else [777] for g in o.child.grid]}, "tmp": o.tmp,
            "ro": 0 if ro is Undefined or ro == 0 else ro, "kids": kids_pattern(o),
            "wr": 0 if o.wr is None else 1 if o.wr is o.child else 2,
            # byleaf: 0 empty | 1 its one key is the object's own child | 2 its key is some other Leaf
            "bl": 0 if not o.byleaf else 1 if any(k is o.child for k in o.byleaf) else 2,
            "pvset": 1 if "pv" in d else 0, "pvval": (lambda x: x if type(x) is int else BAD)(d.get("pv", 0)),
            "hasx": 1 if "extra" in o._instance_traits() else 0,
            "xval": (lambda x: x if type(x) is int else BAD)(d.get("extra", 0))}


def kids_pattern(o):
    """identity pattern of o.kids: 0 = the Leaf `child` refers to, 1.. = distinct other Leafs in order of first occurrence"""
    seen = {id(o.child): 0}
    out = []
    for k in o.kids:
        if id(k) not in seen:
            seen[id(k)] = max(list(seen.values()) + [0]) + 1
        out.append(seen[id(k)])
    return out


def containers(o, deep=True):
    out = [o.xs, o.nested, o.dl, o.s, o.child, o.child.items, o.kids, o.child.grid, o.byleaf] + list(o.kids) + list(o.byleaf)
    out += list(o.nested) + list(o.dl.values())
    if deep:
        out += list(o.child.grid)      # plain lists inside List(Any): shared by a shallow clone by design
    return out


def do_copy(o, kind):
    if kind.startswith("p"):
        return pickle.loads(pickle.dumps(o, int(kind[1])))
    if kind == "deepcopy":
        return copy.deepcopy(o)
    if kind == "clone":
        return o.clone_traits()
    if kind == "clone_shallow":
        return o.clone_traits(copy="shallow")
    return o.clone_traits(copy="deep")


KEEP = []
PVLOG = []           # calls of the handler the driver keeps on the deferred attribute pv of the CURRENT object


def _pv_handler():
    PVLOG.append(1)


def _t2(o):
    return o.total2 if "total2" in o.trait_names() else sum(o.xs)


def _pv(o):
    return o.pv if "pv" in o.trait_names() else o.child.value


def step(o, dyn, op, v):
    from traits.trait_errors import TraitError
    cv = "bad" if v == BAD else v
    pre = proj(o)
    obs0 = o.obs_count
    pobs0 = o.post_count
    pvn0 = len(PVLOG)
    dyn0 = len(dyn)
    exc = ""
    try:
        if op == "n_assign":
            o.n = cv
        elif op == "tmp_assign":
            o.tmp = v
        elif op == "ro_assign":
            if v == BAD:
                raise TraitError("bad")
            o.ro = cv
        elif op == "xs_append":
            o.xs.append(cv)
        elif op == "xs_assign":
            o.xs = [cv]
        elif op == "nested_append":
            o.nested.append([cv])
        elif op == "nested_inner":
            o.nested[0].append(cv)
        elif op == "dl_set":
            if str(v) not in o.dl:
                o.dl[str(v)] = []
        elif op == "dl_inner":
            o.dl[sorted(o.dl)[0]].append(cv)
        elif op == "s_add":
            o.s.add(cv)
        elif op == "child_value":
            o.child.value = cv
        elif op == "child_items":
            o.child.items.append(cv)
        elif op == "addx":
            from traits.api import Int
            if "extra" not in o._instance_traits():
                o.add_trait("extra", Int)
        elif op == "extra_assign":
            o.extra = cv
        elif op == "grid_append":
            (o.cgrid if "cgrid" in o.trait_names() else o.child.grid).append([v])
        elif op == "grid_inner":
            o.child.grid[0].append(v)
        elif op == "bl_child":
            o.byleaf[o.child] = 1
        elif op == "wr_child":
            o.wr = o.child
        elif op == "wr_none":
            o.wr = None
        elif op == "pv_assign":
            o.pv = cv
        elif op == "pv_del":
            del o.pv
        elif op == "kids_child":
            o.kids.append(o.child)
        elif op == "kids_new":
            from .persist_classes import Leaf
            o.kids.append(Leaf())
        elif op == "kids_dup":
            o.kids.append(o.kids[0])
        else:
            raise MachineryError(op)
    except TraitError:
        exc = "TraitError"
    except Exception as e:
        exc = type(e).__name__
    return {"op": op, "v": v, "pre": pre, "post": proj(o), "exc": exc, "obs": o.obs_count - obs0, "dyn": len(dyn) - dyn0,
            "pobs": o.post_count - pobs0, "total": o.total, "total2": _t2(o), "pvread": _pv(o), "pvn": len(PVLOG) - pvn0,
            "haspv": 1 if hasattr(type(o), "pv") or "pv" in o.trait_names() else 0}


OPS = ["kids_child", "kids_new", "kids_dup", "n_assign", "n_assign", "tmp_assign", "ro_assign", "xs_append", "xs_append", "xs_assign", "nested_append", "nested_inner", "dl_set",
       "dl_inner", "s_add", "child_value", "child_items", "grid_append", "grid_inner", "addx", "extra_assign", "pv_assign", "pv_assign", "pv_del", "wr_child", "wr_none", "bl_child"]


def run_history(rnd, steps, t):
    build.install()
    from .persist_classes import Obj, ObjCore, ObjP
    del KEEP[:]
    shape = rnd.choice([0, 1, 2])           # 0: no listener attributes at all; 1: legacy listeners; 2: plus a prototyped one
    haspv = shape == 2
    o = (ObjCore, Obj, ObjP)[shape]()
    dyn = []
    handler = lambda: dyn.append(1)
    o.on_trait_change(handler, "xs_items")
    if haspv:
        o.on_trait_change(_pv_handler, "pv")
    out = []
    for s in range(steps):
        u = rnd.random()
        if u < 0.12 and s > 1:
            kind = rnd.choice(KINDS)
            pre = proj(o)
            if pre["wr"] != 0 and kind.startswith("p"):
                kind = rnd.choice([x for x in KINDS if not x.startswith("p")])    # (pickle refuses weak references cleanly)
            exc = ""
            try:
                c = do_copy(o, kind)
            except Exception as e:
                exc = type(e).__name__
                c = None
            rec = {"tid": t, "step": s, "op": "copy", "v": 0, "kind": kind, "pre": pre, "exc": exc, "obs": 0, "dyn": 0, "pobs": 0}
            if c is not None:
                deep = kind != "clone_shallow"
                ids = set(id(x) for x in containers(o, deep))
                shared = sum(1 for x in containers(c, deep) if id(x) in ids)
                rec.update(post=proj(c), sameclass=1 if type(c) is type(o) else 0, shared=shared, total=c.total,
                           total2=_t2(c), orig_after=proj(o), pvread=_pv(c), haspv=1 if haspv else 0)
                if haspv:
                    o.on_trait_change(_pv_handler, "pv", remove=True)
                KEEP.append(o)       # former objects stay alive: what their copies weakly refer to must not vanish
                o = c
                if haspv:
                    o.on_trait_change(_pv_handler, "pv")
                dyn = []
                handler = (lambda d: (lambda: d.append(1)))(dyn)
                o.on_trait_change(handler, "xs_items")
            else:
                rec.update(post=pre, sameclass=1, shared=0, total=0, total2=0, orig_after=pre, pvread=0, haspv=1 if haspv else 0)
            out.append(rec)
            continue
        op = rnd.choice(OPS)
        if not haspv and op in ("pv_assign", "pv_del"):
            op = "child_value"
        v = rnd.choice([0, 0, 1, 2, BAD]) if op == "pv_assign" else rnd.choice([1, 2, 3, BAD]) if op not in ("tmp_assign", "nested_append", "dl_set", "xs_assign", "grid_append", "grid_inner") else rnd.choice([1, 2, 3])
        r = step(o, dyn, op, v)
        r.update(tid=t, step=s, kind="")
        out.append(r)
    return out


def tdef_case_fn(st, rep):
    """trait definition round trip: the C01 case on a class whose trait is a pickled / deep-copied CTrait"""
    if rep >= 2:
        return None
    cfg = vc.plain_cfg(st["cfg"])
    if cfg["t"] == "NoneT":
        return None
    r = vc.execute(cfg, str(st["tok"]), "setattr", via=("pickle", "deepcopy")[rep])
    return {"fail": None, "line": r, "sample": r}


def run(rep, tier, seed):
    build.install()
    rnd = random.Random(seed)
    work = tlc.scratch_dir("c14_")
    try:
        # (b) handler tables
        ctrait_tables.run_binding_isolated(rep, work)
        # (a) object histories continuing on copies
        ntr, steps = (1500, 18) if tier == "quick" else (25000, 30)
        trace = os.path.join(work, "trace.ndjson")
        n = 0
        with open(trace, "w") as f:
            for t in range(ntr):
                for r in run_history(rnd, steps, t):
                    # (total projection: a value outside the abstract domain becomes a token no specification value equals)
                    f.write(json.dumps(r, separators=(",", ":"), default=lambda o: 770000 + (hash(type(o).__name__) % 1000)) + "\n")
                    n += 1
                    if r["op"] == "copy" and len(rep.samples) < 1:
                        rep.sample(r)
        rep.case(n)
        judge.judge(rep, "Trace_Persist", "Trace_Persist", "Trace_Persist.cfg", trace, n,
                    sig_of=lambda rec, cl: ("C14:F22:trait-added-with-add_trait-not-copied" if cl == ["KF22"] else
                                            "C14:judge:%s%s:%s" % (rec["op"], ":" + rec["kind"] if rec["kind"] else "", "+".join(cl))))
        # (c) trait definitions
        vc.world()
        dump = os.path.join(work, "cases")
        res = tlc.run_tlc("ValidateMC", "ValidateMC_%s.cfg" % tier, dump=dump, timeout=3000, workers=4)
        rep.add_tlc("ValidateMC", res)
        trace2 = os.path.join(work, "trace2.ndjson")
        tot = cases.run_dump_cases(dump + ".dump", tdef_case_fn, out_ndjson=trace2, reps=2)
        os.unlink(dump + ".dump")
        rep.case(tot["ncases"])

        def sig_of(rec, cl):
            # (the round-tripped definition must behave like the specification of the ORIGINAL - the agreement of the two
            # paths with each other is C03's business, known finding F28 included)
            mine = [c for c in cl if c.startswith(("assign-", "C01-", "cpath-", "pypath-"))]
            return "C14:trait-definition-%s:%s:%s" % (rec.get("via"), rec["cfg"]["t"], "+".join(mine)) if mine else None
        vc.judge_filtered(rep, trace2, tot["nlines"], sig_of)
        rep.rule = ("(a) %d recorded steps of seeded histories that continue on copies (pickle protocols 0-5, deepcopy, "
                    "clone_traits with copy None/shallow/deep): copy state, transient default, class, container sharing, "
                    "original untouched, then every later operation (invalid items in nested containers, items handlers, "
                    "declared observer, cached property, ReadOnly) judged by TLC against Persist.tla; (b) %d CTrait handler "
                    "configurations of CTraitTables.tla built through the API and round-tripped; (c) %d validation cases "
                    "replayed on pickled / deep-copied trait definitions and judged by Trace_Validate"
                    % (n, rep.extra.get("ctrait_handler_configurations", 0), tot["ncases"]))
        rep.extra.update(history_steps=n, trait_definition_cases=tot["ncases"])
    finally:
        shutil.rmtree(work, ignore_errors=True)


def replay(rep, path):
    print(json.dumps(json.load(open(path)), indent=1)[:3000])
