"""Run TLC (model checking / simulation) and collect its own statistics."""
import os
import re
import shutil
import subprocess
import tempfile
import time

VERIF = os.path.dirname(os.path.dirname(os.path.abspath(__file__)))
SPEC_DIR = os.path.join(VERIF, "spec")
CFG_DIR = os.path.join(VERIF, "cfg")
JAR = "/opt/veriftools/tla/tla2tools.jar"
CP = JAR + ":/opt/veriftools/tla/CommunityModules-deps.jar"


class TLCResult:
    def __init__(self):
        self.stdout = ""
        self.rc = None
        self.generated = 0
        self.distinct = 0
        self.left = 0
        self.ok = False
        self.violated = None        # invariant / property name
        self.error = None           # first Error: text
        self.wall_s = 0.0
        self.coverage = {}          # action name -> (distinct, total)
        self.depth = None
        self.timed_out = False

    def summary(self):
        return dict(states=self.distinct, transitions=self.generated, ok=self.ok,
                    violated=self.violated, wall_s=round(self.wall_s, 2), depth=self.depth)


_FINAL = re.compile(r"(\d+) states generated, (\d+) distinct states found, (\d+) states left on queue")
_SIMFINAL = re.compile(r"The number of states generated: (\d+)")
_INV = re.compile(r"Error: Invariant (\S+) is violated")
_ACTPROP = re.compile(r"Error: Action property (\S+) is violated")
_DEPTH = re.compile(r"The depth of the complete state graph search is (\d+)")
_COV = re.compile(r"^<(\w+) line \d+, col \d+ to line \d+, col \d+ of module (\w+)>: (\d+):(\d+)", re.M)


def scratch_dir(prefix="verif_"):
    base = os.environ.get("VERIF_TMP") or os.environ.get("TMPDIR") or "/tmp"
    os.makedirs(base, exist_ok=True)
    return tempfile.mkdtemp(prefix=prefix, dir=base)


def run_tlc(spec, cfg, workers=16, dump=None, simulate=None, depth=None, seed=None,
            env=None, timeout=3600, coverage=False, deadlock_off=True, extra=None,
            jvm_props=None, heap="4g", continue_=False):
    """spec: module name in SPEC_DIR (without .tla); cfg: file name in CFG_DIR or absolute path.
    dump: path of state dump to write. simulate: dict(file=..., num=...) or None."""
    res = TLCResult()
    meta = scratch_dir("tlcmeta_")
    cfgpath = cfg if os.path.isabs(cfg) else os.path.join(CFG_DIR, cfg)
    # (TLC unpacks its module jars into java.io.tmpdir: keep that inside the run's own scratch directory)
    cmd = ["java", "-XX:+UseParallelGC", "-Xss16m", "-Djava.io.tmpdir=" + meta]
    if heap:
        # a bounded heap matters: with the JVM default (1/4 of RAM) page-faulting of the young
        # generation made small runs 4-10x slower on this machine
        cmd.append("-Xmx" + heap)
        if heap.endswith("g") and int(heap[:-1]) >= 4:
            cmd.append("-Xmn%dg" % max(1, int(heap[:-1]) // 4))
    for p in (jvm_props or []):
        cmd.append("-D" + p)
    cmd += ["-cp", CP, "tlc2.TLC", "-metadir", meta, "-noGenerateSpecTE",
            "-config", cfgpath, "-workers", str(workers)]
    if deadlock_off:
        cmd.append("-deadlock")
    if coverage:
        cmd += ["-coverage", "1"]
    if continue_:
        cmd.append("-continue")
    if dump:
        cmd += ["-dump", dump]
    if simulate is not None:
        s = "-simulate"
        cmd.append(s)
        parts = []
        if simulate.get("file"):
            parts.append("file=" + simulate["file"])
        if simulate.get("num"):
            parts.append("num=%d" % simulate["num"])
        if parts:
            cmd.append(",".join(parts))
        if depth:
            cmd += ["-depth", str(depth)]
        if seed is not None:
            cmd += ["-seed", str(seed)]
    if extra:
        cmd += list(extra)
    cmd.append(spec)
    e = dict(os.environ)
    e.pop("JAVA_TOOL_OPTIONS", None)
    if env:
        e.update({k: str(v) for k, v in env.items()})
    t0 = time.time()
    try:
        p = subprocess.run(cmd, cwd=SPEC_DIR, env=e, stdout=subprocess.PIPE, stderr=subprocess.STDOUT,
                           timeout=timeout, text=True, errors="replace")
        res.stdout = p.stdout
        res.rc = p.returncode
    except subprocess.TimeoutExpired as ex:
        out = ex.stdout
        if isinstance(out, bytes):
            out = out.decode("utf-8", "replace")
        res.stdout = out or ""
        res.rc = -9
        res.timed_out = True
    finally:
        shutil.rmtree(meta, ignore_errors=True)
    res.wall_s = time.time() - t0
    out = res.stdout
    m = None
    for m in _FINAL.finditer(out):
        pass
    if m:
        res.generated, res.distinct, res.left = int(m.group(1)), int(m.group(2)), int(m.group(3))
    else:
        m2 = _SIMFINAL.search(out)
        if m2:
            res.generated = int(m2.group(1))
            res.distinct = res.generated
    m = _DEPTH.search(out)
    if m:
        res.depth = int(m.group(1))
    m = _INV.search(out) or _ACTPROP.search(out)
    if m:
        res.violated = m.group(1)
    m = re.search(r"Error: (.*)", out)
    if m:
        res.error = m.group(1)
        # include following lines for context
        idx = m.start()
        res.error_context = out[idx: idx + 4000]
    for cm in _COV.finditer(out):
        res.coverage[cm.group(1)] = (int(cm.group(3)), int(cm.group(4)))
    finished = "Model checking completed. No error has been found." in out or \
        (simulate is not None and res.error is None and (res.rc == 0 or res.timed_out))
    res.ok = bool(finished and res.error is None and res.violated is None and res.rc in (0,) or
                  (simulate is not None and res.timed_out and res.error is None))
    return res


def sany(spec):
    p = subprocess.run(["java", "-cp", CP, "tla2sany.SANY", spec + ".tla"], cwd=SPEC_DIR,
                       stdout=subprocess.PIPE, stderr=subprocess.STDOUT, text=True)
    ok = p.returncode == 0 and "Semantic errors" not in p.stdout and "*** Errors" not in p.stdout \
        and "Parse Error" not in p.stdout and "Fatal" not in p.stdout
    return ok, p.stdout
