"""Verdict plumbing: evidence files, known findings, VIOLATION lines, replay files."""
import json
import os
import sys
import time

VERIF = os.path.dirname(os.path.dirname(os.path.abspath(__file__)))
# evidence/ and replay/ describe /repo itself; a run pointed at another tree (VERIF_REPO, used only to try seeded
# changes in a scratch worktree) writes them elsewhere
_ALT = os.environ.get("VERIF_OUT_DIR") or (
    os.path.join(os.environ["VERIF_REPO"], ".verif_out") if os.environ.get("VERIF_REPO", "/repo") != "/repo" else None)
EVID = os.path.join(_ALT or VERIF, "evidence")
REPLAY = os.path.join(_ALT or VERIF, "replay")
KF_FILE = os.path.join(VERIF, "known_findings.json")


def load_known_findings():
    """known_findings.json: {"findings": [ {"id","property","status":"known"|"fixed","sig", "what", ...} ]}
    Only status == "known" entries suppress anything; the file is never written at run time."""
    try:
        with open(KF_FILE) as f:
            data = json.load(f)
    except FileNotFoundError:
        return []
    return data.get("findings", [])


class MachineryError(Exception):
    pass


class Report:
    def __init__(self, pid, tier, seed, level="model_checking"):
        self.pid = pid
        self.tier = tier
        self.seed = seed
        self.level = level
        self.t0 = time.time()
        self.states = 0
        self.transitions = 0
        self.impl = 0              # cases replayed / traces validated against the implementation
        self.evaluations = 0
        self.samples = []
        self.tlc_runs = []
        self.violations = []       # (sig, text, replay_path)
        self.known_hit = {}        # sig -> (what, count)
        self.notes = []
        self.assumptions = []
        self.extra = {}
        self.exhaustive = None
        self.rule = ""
        self.distinct = set()
        self._known = [k for k in load_known_findings()
                       if k.get("status") == "known" and pid in k.get("property", "").replace(",", " ").split()]
        self._vcount = 0
        self.by_sig = {}

    # ---- TLC bookkeeping
    def add_tlc(self, name, res, must_pass=True):
        self.states += res.distinct
        self.transitions += res.generated
        d = res.summary()
        d["name"] = name
        if res.coverage:
            d["coverage_actions"] = {k: v[1] for k, v in res.coverage.items()}
        self.tlc_runs.append(d)
        if must_pass and not res.ok:
            if res.violated:
                path = self.write_replay("tlc_%s" % name, {"tlc_run": name, "violated": res.violated,
                                                           "output_tail": res.stdout[-6000:]})
                self.violation("spec:%s:%s" % (name, res.violated),
                               "TLC: %s violated in %s" % (res.violated, name), path=path)
            else:
                sys.stderr.write(res.stdout[-4000:])
                raise MachineryError("TLC run %s failed: rc=%s error=%s" % (name, res.rc, res.error))

    def require_coverage(self, res, actions):
        """Vacuity guard: each named action must have been taken at least once."""
        for a in actions:
            if a not in res.coverage:
                raise MachineryError("coverage: action %s not reported by TLC" % a)
            if res.coverage[a][1] == 0:
                raise MachineryError("vacuous: action %s never taken" % a)

    # ---- implementation cases
    def case(self, n=1):
        self.impl += n
        self.evaluations += n

    def sample(self, s, limit=5):
        if len(self.samples) < limit:
            self.samples.append(s)

    def write_replay(self, name, obj):
        d = os.path.join(REPLAY, self.pid)
        os.makedirs(d, exist_ok=True)
        safe = "".join(c if c.isalnum() or c in "-_." else "_" for c in name)[:80]
        path = os.path.join(d, "%s.json" % safe)
        with open(path, "w") as f:
            json.dump(obj, f, indent=1, default=repr)
        return path

    def violation(self, sig, text, case=None, path=None):
        """sig: stable signature of the failing class (used to match known findings).
        Returns True if it was a known finding."""
        for k in self._known:
            if k.get("sig") == sig:
                w, c = self.known_hit.get(sig, (k.get("what", sig), 0))
                self.known_hit[sig] = (w, c + 1)
                return True
        self._vcount += 1
        self.by_sig[sig] = self.by_sig.get(sig, 0) + 1
        if len(self.violations) < 25 and self.by_sig[sig] <= 3:
            if path is None:
                path = self.write_replay("v%d_%s" % (self._vcount, sig), {"sig": sig, "text": text, "case": case})
            self.violations.append((sig, text, path))
        return False

    def finish(self):
        wall = time.time() - self.t0
        cov = {
            "states": self.states,
            "transitions": self.transitions,
            "traces_validated_against_impl": self.impl,
            "samples": self.samples or ["(none recorded)"],
            "evaluations": max(self.evaluations, self.impl),
            "distinct_nontrivial": len(self.distinct) if self.distinct else self.impl,
            "rule": self.rule,
            "tlc_runs": self.tlc_runs,
            "known_findings_hit": {s: {"what": w, "count": c} for s, (w, c) in self.known_hit.items()},
        }
        if self.level == "other":
            cov["explanation"] = self.extra.pop("explanation", self.rule)
        if self.exhaustive is not None:
            cov["exhaustive"] = self.exhaustive
        cov.update(self.extra)
        ev = {
            "property_id": self.pid,
            "tier": self.tier,
            "seed": self.seed,
            "level": self.level,
            "coverage": cov,
            "assumptions": self.assumptions,
            "wall_s": round(wall, 2),
            "violations": self._vcount,
            "violations_by_signature": self.by_sig,
            "notes": self.notes,
        }
        os.makedirs(EVID, exist_ok=True)
        with open(os.path.join(EVID, "%s.json" % self.pid), "w") as f:
            json.dump(ev, f, indent=1, default=repr)
        for sig, (w, c) in sorted(self.known_hit.items()):
            print("KNOWN-FINDING: property=%s %s [sig=%s, %d occurrence(s) this run]" % (self.pid, w, sig, c))
        for sig, text, path in self.violations:
            print("VIOLATION property=%s replay=%s" % (self.pid, path))
            print("  %s: %s" % (sig, text[:600]))
        if self._vcount > len(self.violations):
            print("  (+%d further violations not listed); by signature:" % (self._vcount - len(self.violations)))
            for sg, c in sorted(self.by_sig.items()):
                print("    %6d  %s" % (c, sg))
        print("%s %s: states=%d transitions=%d impl_cases=%d violations=%d known=%d wall=%.1fs" % (
            self.pid, self.tier, self.states, self.transitions, self.impl, self._vcount,
            sum(c for _, c in self.known_hit.values()), wall))
        return 1 if self._vcount else 0


def run_isolated(fn, *args):
    """Run fn(*args) in a forked child; returns ("ok", result) | ("exc", text) | ("crash", signal_or_exit_status).
    Used where the code under test may crash the interpreter (memory-safety checks)."""
    import os
    import pickle
    import traceback
    r, w = os.pipe()
    pid = os.fork()
    if pid == 0:
        os.close(r)
        status = 0
        try:
            try:
                payload = pickle.dumps(("ok", fn(*args)))
            except Exception:
                payload = pickle.dumps(("exc", traceback.format_exc()))
            with os.fdopen(w, "wb") as f:
                f.write(payload)
        except BaseException:
            status = 3
        os._exit(status)
    os.close(w)
    data = b""
    with os.fdopen(r, "rb") as f:
        data = f.read()
    _, st = os.waitpid(pid, 0)
    if os.WIFSIGNALED(st):
        return "crash", "signal %d" % os.WTERMSIG(st)
    if os.WEXITSTATUS(st) != 0 or not data:
        return "crash", "exit status %d" % os.WEXITSTATUS(st)
    return pickle.loads(data)
