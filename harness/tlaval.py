"""Parser for TLA+ values as printed by TLC (-dump, -simulate file=, PrintT, error traces).

Value mapping (TLA+ -> Python):
  integers -> int; "strings" -> str; TRUE/FALSE -> bool; model values / identifiers -> MV(name)
  <<a, b>> -> tuple; {a, b} -> frozenset; [f |-> v, ...] -> dict (record, str keys)
  (k :> v @@ k2 :> v2) -> dict (function, arbitrary hashable keys); a..b -> range-set (frozenset)
Records/functions are returned as FrozenDict so that they can be members of sets.
"""
import re


class MV(str):
    """A TLC model value / bare identifier."""
    __slots__ = ()

    def __repr__(self):
        return "MV(%s)" % str.__repr__(self)


class FrozenDict(dict):
    __slots__ = ("_h",)

    def __hash__(self):
        try:
            return self._h
        except AttributeError:
            self._h = hash(frozenset(self.items()))
            return self._h

    def __getattr__(self, k):
        try:
            return self[k]
        except KeyError:
            raise AttributeError(k)


_TOKEN = re.compile(
    r"""\s*(?:
      (?P<int>-?\d+)
    | "(?P<str>(?:[^"\\]|\\.)*)"
    | (?P<id>[A-Za-z_][A-Za-z0-9_]*)
    | (?P<op><<|>>|\|->|:>|@@|\.\.|[\[\]{}(),])
    )""",
    re.X,
)


def tokenize(text):
    pos = 0
    n = len(text)
    out = []
    m = _TOKEN.match
    while pos < n:
        mo = m(text, pos)
        if mo is None:
            if text[pos:].strip() == "":
                break
            raise ValueError("cannot tokenize at %r" % text[pos:pos + 40])
        pos = mo.end()
        k = mo.lastgroup
        if k == "int":
            out.append(("int", int(mo.group("int"))))
        elif k == "str":
            s = mo.group("str")
            if "\\" in s:
                s = s.replace('\\"', '"').replace("\\\\", "\\").replace("\\n", "\n").replace("\\t", "\t")
            out.append(("str", s))
        elif k == "id":
            out.append(("id", mo.group("id")))
        else:
            out.append(("op", mo.group("op")))
    return out


class _P:
    __slots__ = ("t", "i")

    def __init__(self, toks):
        self.t = toks
        self.i = 0

    def peek(self):
        return self.t[self.i] if self.i < len(self.t) else (None, None)

    def next(self):
        x = self.t[self.i]
        self.i += 1
        return x

    def expect(self, op):
        k, v = self.next()
        if k != "op" or v != op:
            raise ValueError("expected %r got %r at token %d" % (op, v, self.i))

    def value(self):
        k, v = self.next()
        if k == "int":
            # range a..b
            if self.peek() == ("op", ".."):
                self.next()
                k2, v2 = self.next()
                return frozenset(range(v, v2 + 1))
            return v
        if k == "str":
            return v
        if k == "id":
            if v == "TRUE":
                return True
            if v == "FALSE":
                return False
            return MV(v)
        if v == "<<":
            items = []
            if self.peek() == ("op", ">>"):
                self.next()
                return ()
            while True:
                items.append(self.value())
                k, v = self.next()
                if v == ">>":
                    return tuple(items)
                if v != ",":
                    raise ValueError("bad tuple sep %r" % (v,))
        if v == "{":
            items = []
            if self.peek() == ("op", "}"):
                self.next()
                return frozenset()
            while True:
                items.append(self.value())
                k, v = self.next()
                if v == "}":
                    return frozenset(items)
                if v != ",":
                    raise ValueError("bad set sep %r" % (v,))
        if v == "[":
            d = FrozenDict()
            while True:
                k, name = self.next()
                if k != "id":
                    raise ValueError("bad record field %r" % (name,))
                self.expect("|->")
                dict.__setitem__(d, name, self.value())
                k, v = self.next()
                if v == "]":
                    return d
                if v != ",":
                    raise ValueError("bad record sep %r" % (v,))
        if v == "(":
            d = FrozenDict()
            while True:
                key = self.value()
                self.expect(":>")
                dict.__setitem__(d, key, self.value())
                k, v = self.next()
                if v == ")":
                    return d
                if v != "@@":
                    raise ValueError("bad function sep %r" % (v,))
        raise ValueError("unexpected token %r" % (v,))


def parse_value(text):
    p = _P(tokenize(text))
    v = p.value()
    if p.i != len(p.t):
        raise ValueError("trailing tokens after value: %r" % (p.t[p.i:p.i + 5],))
    return v


_STATE_HDR = re.compile(r"^State \d+:")
_VAR = re.compile(r"^/\\ ([A-Za-z_][A-Za-z0-9_]*) = (.*)$")


def iter_dump_states(path):
    """Yield dict var->value for each state of a `tlc -dump file` output (streaming)."""
    cur = None
    curvar = None
    buf = []

    def flush_var():
        if curvar is not None:
            cur[curvar] = parse_value("\n".join(buf))

    with open(path) as f:
        for line in f:
            line = line.rstrip("\n")
            if _STATE_HDR.match(line):
                if cur is not None:
                    flush_var()
                    yield cur
                cur = {}
                curvar = None
                buf = []
                continue
            if cur is None:
                continue
            m = _VAR.match(line)
            if m:
                flush_var()
                curvar = m.group(1)
                buf = [m.group(2)]
            elif line.strip() == "":
                continue
            else:
                buf.append(line)
        if cur is not None:
            flush_var()
            if cur:
                yield cur


_SIM_STATE = re.compile(r"^STATE_(\d+) ==\s*$")
_SIM_ACTION = re.compile(r"^\\\* <([A-Za-z_0-9]+)")


def parse_simulate_file(path):
    """Parse one behaviour file written by `tlc -simulate file=...`.
    Returns list of (action_name_or_None, state_dict)."""
    out = []
    cur = None
    curvar = None
    buf = []
    action = None
    pending_action = None

    def flush_var():
        if curvar is not None and cur is not None:
            cur[curvar] = parse_value("\n".join(buf))

    with open(path) as f:
        for line in f:
            line = line.rstrip("\n")
            ma = _SIM_ACTION.match(line)
            if ma:
                pending_action = ma.group(1)
                continue
            ms = _SIM_STATE.match(line)
            if ms:
                if cur is not None:
                    flush_var()
                    out.append((action, cur))
                cur = {}
                curvar = None
                buf = []
                action = pending_action
                pending_action = None
                continue
            if cur is None:
                continue
            m = _VAR.match(line)
            if m:
                flush_var()
                curvar = m.group(1)
                buf = [m.group(2)]
            elif line.strip() == "" or line.startswith("====") or line.startswith("----"):
                continue
            else:
                buf.append(line)
    if cur is not None:
        flush_var()
        out.append((action, cur))
    return out


def to_py(v):
    """Convert parsed value to plain JSON-able python (for samples in evidence)."""
    if isinstance(v, MV):
        return str(v)
    if isinstance(v, dict):
        return {str(to_py(k)) if not isinstance(k, str) else k: to_py(x) for k, x in v.items()}
    if isinstance(v, (tuple, list)):
        return [to_py(x) for x in v]
    if isinstance(v, frozenset):
        try:
            return sorted((to_py(x) for x in v), key=repr)
        except TypeError:
            return [to_py(x) for x in v]
    return v


def find_printed(stdout, tag):
    """Find values printed by PrintT(<<"tag", ...>>) in TLC stdout. TLC pretty-prints long values over
    several lines and with blanks after '<<', so the search is whitespace tolerant and bracket matched.
    Returns the list of tuples without the tag."""
    res = []
    pat = re.compile(r'<<\s*"%s"\s*,' % re.escape(tag))
    i = 0
    n = len(stdout)
    while True:
        mo = pat.search(stdout, i)
        if mo is None:
            break
        j = mo.start()
        depth = 0
        k = j
        instr = False
        end = None
        while k < n:
            c = stdout[k]
            if instr:
                if c == "\\":
                    k += 1
                elif c == '"':
                    instr = False
            elif c == '"':
                instr = True
            elif stdout.startswith("<<", k):
                depth += 1
                k += 1
            elif stdout.startswith(">>", k):
                depth -= 1
                k += 1
                if depth == 0:
                    end = k
                    break
            k += 1
        if end is None:
            raise ValueError("unterminated printed value for tag %s" % tag)
        res.append(parse_value(stdout[j:end + 1])[1:])
        i = end + 1
    return res
