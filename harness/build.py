"""Compile /repo/traits/ctraits.c from the current working tree into a scratch directory and
make it the `traits.ctraits` of this process (import override), so that every check runs against
the *current* C source and Python sources of /repo, never against a stale checked-in .so."""
import atexit
import hashlib
import importlib.machinery
import importlib.util
import os
import shutil
import subprocess
import sys
import sysconfig

REPO = os.environ.get("VERIF_REPO", "/repo")
_built = {}


def _scratch():
    from . import tlc
    d = tlc.scratch_dir("ctraits_")
    atexit.register(shutil.rmtree, d, True)
    return d


ASAN_RT = None


def asan_runtime():
    global ASAN_RT
    if ASAN_RT is None:
        p = subprocess.run(["clang", "-print-file-name=libclang_rt.asan-x86_64.so"],
                           stdout=subprocess.PIPE, text=True)
        ASAN_RT = p.stdout.strip()
    return ASAN_RT


def build_ctraits(asan=False, outdir=None):
    """Returns path of the freshly built extension."""
    key = ("asan" if asan else "plain")
    if key in _built and os.path.exists(_built[key]):
        return _built[key]
    src = os.path.join(REPO, "traits", "ctraits.c")
    d = outdir or _scratch()
    out = os.path.join(d, "ctraits" + sysconfig.get_config_var("EXT_SUFFIX"))
    inc = sysconfig.get_paths()["include"]
    if asan:
        cmd = ["clang", "-O1", "-g", "-fno-omit-frame-pointer", "-fsanitize=address,undefined",
               "-fno-sanitize-recover=undefined", "-shared-libasan", "-shared", "-fPIC", "-I", inc, src, "-o", out]
    else:
        cmd = ["gcc", "-O1", "-g0", "-shared", "-fPIC", "-fno-strict-aliasing", "-I", inc, src, "-o", out]
    p = subprocess.run(cmd, stdout=subprocess.PIPE, stderr=subprocess.STDOUT, text=True)
    if p.returncode != 0:
        sys.stderr.write(p.stdout)
        raise RuntimeError("cannot build ctraits.c (machinery failure)")
    _built[key] = out
    return out


def install(so_path=None):
    """Make `traits` import from REPO with ctraits taken from so_path (built if None)."""
    if "traits.ctraits" in sys.modules and getattr(sys.modules["traits.ctraits"], "__verif_override__", False):
        return sys.modules["traits.ctraits"]
    if "traits.api" in sys.modules or "traits.has_traits" in sys.modules:
        raise RuntimeError("traits already imported before override")
    so_path = so_path or os.environ.get("VERIF_CTRAITS_SO") or build_ctraits()
    if REPO not in sys.path:
        sys.path.insert(0, REPO)
    import traits  # package __init__ only
    if not os.path.abspath(traits.__file__).startswith(os.path.abspath(REPO) + os.sep):
        raise RuntimeError("traits imported from %s, not from %s" % (traits.__file__, REPO))
    loader = importlib.machinery.ExtensionFileLoader("traits.ctraits", so_path)
    spec = importlib.util.spec_from_file_location("traits.ctraits", so_path, loader=loader)
    mod = importlib.util.module_from_spec(spec)
    loader.exec_module(mod)
    mod.__verif_override__ = True
    sys.modules["traits.ctraits"] = mod
    traits.ctraits = mod
    os.environ["VERIF_CTRAITS_SO"] = so_path
    return mod


def source_fingerprint():
    h = hashlib.sha256()
    for root, dirs, files in os.walk(os.path.join(REPO, "traits")):
        dirs.sort()
        if "tests" in dirs:
            dirs.remove("tests")
        for f in sorted(files):
            if f.endswith((".py", ".c", ".lark")):
                with open(os.path.join(root, f), "rb") as fh:
                    h.update(fh.read())
    return h.hexdigest()[:16]
