#!/bin/sh
# usage: /tmp/wt/build.sh <worktree>   -- (re)builds traits/ctraits*.so inside the worktree from its ctraits.c
set -e
WT="$1"
cp -n /repo/traits/version.py "$WT/traits/version.py" 2>/dev/null || true
INC=$(/venv/bin/python -c "import sysconfig;print(sysconfig.get_paths()['include'])")
gcc -O2 -shared -fPIC -fno-strict-aliasing -I"$INC" "$WT/traits/ctraits.c" -o "$WT/traits/ctraits.cpython-312-x86_64-linux-gnu.so"
cd "$WT" && /venv/bin/python -c "import traits.ctraits as c, traits; assert c.__file__.startswith('$WT'), c.__file__; print('built', c.__file__)"
