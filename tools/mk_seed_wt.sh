#!/bin/sh
# tools/mk_seed_wt.sh <PID>...   -- scratch worktree of /repo's HEAD for a bug-seeding sub-agent, with the extension built
mkdir -p /tmp/wt; cp /verif/tools/wt_build.sh /tmp/wt/build.sh; chmod +x /tmp/wt/build.sh
for p in "$@"; do
  [ -d /tmp/wt/$p ] && { echo "exists /tmp/wt/$p"; continue; }
  git -C /repo worktree add --detach /tmp/wt/$p HEAD >/dev/null 2>&1 && /tmp/wt/build.sh /tmp/wt/$p
done
