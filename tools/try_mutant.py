#!/venv/bin/python
"""tools/try_mutant.py <PID> <k> [--checks C05,C04] [--tier quick] [--wt /tmp/wt/PID] [--skip-suite]
Confirms a seeded change (patch applies alone, full suite passes with it, demo fails with / passes without),
stores it under /verif/seeded/<PID>-<k>/ and runs the registered check(s) against it in the seed's worktree (VERIF_REPO=<worktree>; /repo is not touched)."""
import json
import os
import shutil
import subprocess
import sys
import time

VERIF = "/verif"


def sh(cmd, cwd=None, timeout=3600):
    p = subprocess.run(cmd, shell=True, cwd=cwd, stdout=subprocess.PIPE, stderr=subprocess.STDOUT, text=True, timeout=timeout)
    return p.returncode, p.stdout


def main():
    pid, k = sys.argv[1], sys.argv[2]
    args = sys.argv[3:]
    opt = lambda n, d=None: args[args.index(n) + 1] if n in args else d
    wt = opt("--wt", "/tmp/wt/" + pid)
    checks = opt("--checks", pid).split(",")
    tier = opt("--tier", "quick")
    mdir = os.path.join(wt, "MUT", k)
    patch = os.path.join(mdir, "patch.diff")
    demo = os.path.join(mdir, "demo.py")
    meta = {"property": pid, "source": "independent sub-agent given only the property text", "ran": []}
    rc, out = sh("git status --short --untracked-files=no", cwd=wt)
    if out.strip():
        print("worktree not clean:", out)
        return 2
    # demo on clean tree
    rc0, out0 = sh("/venv/bin/python %s" % demo, cwd=wt, timeout=600)
    meta["ran"].append("demo on unmodified tree: exit %d" % rc0)
    rc, out = sh("git apply %s" % patch, cwd=wt)
    if rc != 0:
        print("patch does not apply:", out)
        return 2
    try:
        touches_c = "ctraits.c" in open(patch).read()
        if touches_c:
            rc, out = sh("/tmp/wt/build.sh %s" % wt)
            if rc != 0:
                print("build failed", out)
                return 2
        rc1, out1 = sh("/venv/bin/python %s" % demo, cwd=wt, timeout=600)
        meta["ran"].append("demo with change: exit %d" % rc1)
        if "--skip-suite" not in args:
            rcs, outs = sh("/venv/bin/python -m pytest -q -p no:cacheprovider --timeout=900 -x 2>&1 | tail -3", cwd=wt)
            suite_ok = " passed" in outs and " failed" not in outs and "error" not in outs.lower()
            meta["ran"].append("full suite with change: %s" % outs.strip().splitlines()[-1])
        else:
            suite_ok = True
            # a re-run after strengthening a check: keep the suite result of the confirming run
            try:
                old = json.load(open(os.path.join(VERIF, "seeded", "%s-%s" % (pid, k), "meta.json")))
                meta["ran"] += [l for l in old.get("ran", []) if l.startswith("full suite")]
                if "first_run_checks" in old or "checks" in old:
                    meta["first_run_checks"] = old.get("first_run_checks") or old.get("checks")
            except Exception:
                pass
    finally:
        sh("git checkout -- .", cwd=wt)
        if "ctraits.c" in open(patch).read():
            sh("/tmp/wt/build.sh %s" % wt)
    confirmed = rc0 == 0 and rc1 != 0 and suite_ok
    print("confirmed=%s (demo clean=%d, demo mutated=%d, suite_ok=%s)" % (confirmed, rc0, rc1, suite_ok))
    if not confirmed:
        print(out0[-500:], out1[-800:])
        return 1
    dest = os.path.join(VERIF, "seeded", "%s-%s" % (pid, k))
    os.makedirs(dest, exist_ok=True)
    shutil.copy(patch, os.path.join(dest, "patch.diff"))
    shutil.copy(demo, os.path.join(dest, "demo.py"))
    notes = os.path.join(mdir, "notes.md")
    if os.path.exists(notes):
        shutil.copy(notes, os.path.join(dest, "notes.md"))
        meta["needs"] = open(notes).read()[:1500]
    # run the checks against the seed's own worktree with the patch applied (VERIF_REPO); /repo is never touched
    rc, out = sh("git apply %s" % os.path.join(dest, "patch.diff"), cwd=wt)
    if rc != 0:
        print("cannot re-apply", out)
        return 2
    results = {}
    env = dict(os.environ, VERIF_REPO=wt)
    env.pop("VERIF_CTRAITS_SO", None)
    try:
        for c in checks:
            t0 = time.time()
            p = subprocess.run("./check %s %s" % (c, tier), shell=True, cwd=VERIF, env=env, stdout=subprocess.PIPE,
                               stderr=subprocess.STDOUT, text=True, timeout=7200)
            rc, out = p.returncode, p.stdout
            det = rc == 1 and "VIOLATION property=%s" % c in out
            results[c] = {"exit": rc, "detected": det, "wall_s": round(time.time() - t0, 1),
                          "first_violation": next((l for l in out.splitlines() if l.startswith("  ")), "")[:400]}
            print("check %s %s -> exit %d detected=%s" % (c, tier, rc, det))
            if not det:
                print(out[-1500:])
    finally:
        sh("git checkout -- .", cwd=wt)
        shutil.rmtree(os.path.join(wt, ".verif_out"), ignore_errors=True)
    meta["checks"] = results
    meta["detected_by"] = [c for c, r in results.items() if r["detected"]]
    json.dump(meta, open(os.path.join(dest, "meta.json"), "w"), indent=1)
    return 0


if __name__ == "__main__":
    sys.exit(main())
