#!/usr/bin/env python3
import json, sys
pid, n = sys.argv[1], sys.argv[2]
wt = sys.argv[3] if len(sys.argv) > 3 else "/tmp/wt/" + pid
for line in open("/verif/properties.jsonl"):
    p = json.loads(line)
    if p["id"] == pid:
        t = open("/tmp/wt/prompt_template.txt").read()
        print(t.replace("{WT}", wt).replace("{PID}", pid).replace("{TITLE}", p["title"])
               .replace("{STATEMENT}", p["statement"]).replace("{QUANT}", p["quantifier"]["text"]).replace("{N}", n))
