#!/usr/bin/env python3
"""tools/mkprompt.py <PID> <n> [worktree] [first_k]  -- prompt for a bug-seeding sub-agent (property text only, nothing of /verif's
machinery).  With first_k > 1 the one-line descriptions of the changes earlier seeders produced are listed as areas to avoid."""
import glob, json, os, re, sys
pid, n = sys.argv[1], sys.argv[2]
wt = sys.argv[3] if len(sys.argv) > 3 else "/tmp/wt/" + pid
k0 = int(sys.argv[4]) if len(sys.argv) > 4 else 1
for line in open("/verif/properties.jsonl"):
    p = json.loads(line)
    if p["id"] == pid:
        t = open("/verif/tools/seed_prompt_template.txt").read()
        t = (t.replace("{WT}", wt).replace("{PID}", pid).replace("{TITLE}", p["title"])
              .replace("{STATEMENT}", p["statement"]).replace("{QUANT}", p["quantifier"]["text"]).replace("{N}", n))
        if k0 > 1:
            prev = []
            for d in sorted(glob.glob("/verif/seeded/%s-*" % pid)):
                f = os.path.join(d, "notes.md")
                if os.path.exists(f):
                    first = next((l.strip("# \n") for l in open(f) if l.strip()), "")
                    prev.append("  - " + re.sub(r"^(Mutation|Mutant|%s mutant)\s*\d+\s*[-—:]*\s*" % pid, "", first)[:200])
            t = t.replace("For each change k = 1..%s" % n, "For each change k = %d..%d" % (k0, k0 + int(n) - 1))
            t += ("\n\nThis is a later round. Earlier seeders already produced the following changes for this property; yours must be in "
                  "DIFFERENT functions / mechanisms / code paths (search the whole library for other places that implement or "
                  "support the property: the C extension, less common trait types, copy/pickle paths, rarely used API entry points, "
                  "interaction of two features):\n" + "\n".join(prev) + "\nNumber your changes %d..%d (directories MUT/%d ... MUT/%d).\n"
                  % (k0, k0 + int(n) - 1, k0, k0 + int(n) - 1))
        print(t)
