#!/bin/sh
# runs the thorough tier of every claimed check once, logging exit status and wall time
checks="$@"
[ -z "$checks" ] && checks=$(python3 -c "import json;print(' '.join(c['property_id'] for c in json.load(open('MANIFEST.json'))['checks']))")
for c in $checks; do
  t0=$(date +%s)
  out=$(timeout 5400 ./check $c thorough 2>&1); rc=$?
  t1=$(date +%s)
  echo "$c thorough rc=$rc wall=$((t1-t0))s $(echo "$out" | tail -1 | cut -c1-160)"
  [ $rc -ne 0 ] && echo "$out" | grep -A1 "^VIOLATION\|MACHINERY" | head -8 | cut -c1-500
done
