#!/venv/bin/python
"""Re-confirm that every stored seeded change (seeded/<PID>-<k>/patch.diff) still applies to /repo's current HEAD and is
still detected by its owning check.  Nothing is applied to /repo: each patch is applied to a scratch git worktree
under /tmp and the check is pointed at it with VERIF_REPO (the worktree is removed afterwards).

usage: tools/recheck_seeded.py [-j N] [--tier quick] [ids...]      (ids like C05-2; default all)
Writes seeded/RECHECK.json (id -> {applies, exit, detected, wall_s, head})."""
import json
import os
import shutil
import subprocess
import sys
import time
from concurrent.futures import ThreadPoolExecutor

VERIF = os.path.dirname(os.path.dirname(os.path.abspath(__file__)))
REPO = "/repo"


def sh(cmd, cwd=None, env=None, timeout=7200):
    p = subprocess.run(cmd, shell=True, cwd=cwd, env=env, stdout=subprocess.PIPE, stderr=subprocess.STDOUT, text=True,
                       timeout=timeout)
    return p.returncode, p.stdout


def one(mid, tier, head):
    pid = mid.split("-")[0]
    wt = "/tmp/mutwt_%s_%d" % (mid, os.getpid())
    res = {"head": head}
    try:
        rc, out = sh("git worktree add --detach %s HEAD" % wt, cwd=REPO)
        if rc != 0:
            return mid, {"error": "worktree: " + out[-300:]}
        shutil.copy(os.path.join(REPO, "traits", "version.py"), os.path.join(wt, "traits", "version.py"))
        rc, out = sh("git apply %s" % os.path.join(VERIF, "seeded", mid, "patch.diff"), cwd=wt)
        res["applies"] = rc == 0
        if rc != 0:
            res["apply_error"] = out[-400:]
            return mid, res
        env = dict(os.environ, VERIF_REPO=wt)
        env.pop("VERIF_CTRAITS_SO", None)
        t0 = time.time()
        rc, out = sh("./check %s %s" % (pid, tier), cwd=VERIF, env=env)
        res.update(exit=rc, detected=(rc == 1 and ("VIOLATION property=%s" % pid) in out), wall_s=round(time.time() - t0, 1),
                   first=next((l for l in out.splitlines() if l.startswith("  ")), "")[:300])
        if not res["detected"]:
            res["tail"] = out[-800:]
        return mid, res
    finally:
        sh("git worktree remove --force %s" % wt, cwd=REPO)
        shutil.rmtree(wt, ignore_errors=True)


def main():
    args = sys.argv[1:]
    j, tier = 3, "quick"
    if "-j" in args:
        i = args.index("-j")
        j = int(args[i + 1])
        del args[i:i + 2]
    if "--tier" in args:
        i = args.index("--tier")
        tier = args[i + 1]
        del args[i:i + 2]
    ids = args or sorted(d for d in os.listdir(os.path.join(VERIF, "seeded")) if os.path.isdir(os.path.join(VERIF, "seeded", d)))
    head = sh("git rev-parse --short HEAD", cwd=REPO)[1].strip()
    out_path = os.path.join(VERIF, "seeded", "RECHECK.json")
    try:
        allres = json.load(open(out_path))
    except Exception:
        allres = {}
    with ThreadPoolExecutor(j) as ex:
        for mid, res in ex.map(lambda m: one(m, tier, head), ids):
            allres[mid] = res
            print(mid, {k: v for k, v in res.items() if k not in ("tail", "first")}, flush=True)
            if not res.get("detected"):
                print("   ", res.get("tail", res.get("apply_error", res.get("error", "")))[-600:])
            json.dump(allres, open(out_path, "w"), indent=1, sort_keys=True)
    bad = [m for m in ids if not allres[m].get("detected")]
    print("not detected / not applying:", bad)
    return 1 if bad else 0


if __name__ == "__main__":
    sys.exit(main())
