#!/bin/sh
# usage: tools/seed_sweep.sh "1 2 3" [checks...]  -- runs the quick tier of the given (default: all claimed) checks for several seeds
seeds="$1"; shift
checks="$@"
[ -z "$checks" ] && checks=$(python3 -c "import json;print(' '.join(c['property_id'] for c in json.load(open('MANIFEST.json'))['checks']))")
for s in $seeds; do for c in $checks; do
  out=$(VERIF_SEED=$s ./check $c quick 2>&1); rc=$?
  echo "seed=$s $c rc=$rc $(echo "$out" | tail -1 | cut -c1-150)"
  [ $rc -ne 0 ] && echo "$out" | grep -A1 "^VIOLATION\|MACHINERY" | head -6 | cut -c1-600
done; done
