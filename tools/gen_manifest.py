#!/venv/bin/python
"""Writes /verif/MANIFEST.json from the table below (single place to keep it current)."""
import json
import os

HERE = os.path.dirname(os.path.dirname(os.path.abspath(__file__)))

TLA = "explicit TLA+ specification checked by TLC, bound to the code by conformance: "

CLAIMED = {
    "C05": dict(
        technique=TLA + "TLC enumerates every (list, validator, operation, arguments) case of TraitList.tla; each is "
                  "executed on a real TraitList (spec->code) and the recorded executions incl. actual notifier "
                  "arguments are judged by TLC against the outcome and the event law (code->spec)",
        text="Bounded-exhaustive model checking of Python-list semantics + event law (all lists up to length 3/5 over "
             "2 items, every index/slice in range -5..5/-7..7 with steps -3..3, all mutators) with every enumerated "
             "case executed against the implementation and judged by TLC; plus seeded histories on longer lists. Session 4: items as objects (equal-but-distinct twins, an item not equal to itself) in a second enumeration and in the histories.",
        note="Trusted: TLC, the transcription of Python list semantics in TraitList.tla (cross-checked on every case "
             "against the builtin list), the concretisation of abstract items (small ints / digit strings).",
        design="4/C05"),
    "C01": dict(
        technique=TLA + "Validate.tla holds three independent definitions per trait type - the compiled validators "
                  "(Fast), the Python validate methods (Py) and the declared domain (InDomain); TLC checks Store(w) => "
                  "InDomain for every (configuration, value); every pair is instantiated as a real trait and value, "
                  "assigned by four routes, and judged by TLC (outcome, stored value and exact type, members, shadow value, "
                  "frame condition, error naming the attribute)",
        text="Exhaustive over ~900 trait configurations (Int..CBool and Base* twins, float/int Range with all bound/"
             "exclusivity combinations, Enum, Map, PrefixMap/PrefixList, String minlen/maxlen/regex, Tuple/ValidatedTuple, "
             "Instance/Type incl. lazily resolved class names, Callable, Either/Union incl. nested and Python-only "
             "alternatives) x 60 value classes (bool/int/float subclasses, numpy scalars, __index__/__float__/"
             "__complex__ objects incl. raising ones, NaN/inf/-0.0, huge ints, None, text, tuples, lists, classes, "
             "instances) x 4 assignment routes. Session 4: Array / CArray / ArrayOrNone (ArrayTrait.tla: 8 dtypes x 12 shape patterns x 3-5 casting rules x ~160 numpy arrays, nested lists/tuples, ragged and non-sequence values; the documented default zeros(min(shape)); numpy's casting rules checked as an environment assumption) and This/self, Module, Date, Datetime, Time, UUID, File, Directory, Expression (MoreTypes.tla) are now part of this check; This and Complex also as Tuple members / compound alternatives. DynRange.tla / DynEnum.tla: Range and Enum traits whose bounds / members name other attributes (histories of bound changes, assignments and reads).",
        note="Trusted: TLC; one concrete representative per value class (several for arrays: dtype x shape x contents); numpy's "
             "can_cast / asarray rules are an environment assumption checked against the installed numpy; List/Dict/Set element "
             "validation is C04's subject; WeakRef and the String variants (Regex, Code, HTML, Password) are outside.",
        design="4/C01"),
    "C03": dict(
        technique=TLA + "the transcriptions Fast and Py of Validate.tla are compared by TLC for every (configuration, "
                  "value) (accept sets, results, Python TraitError => fast TraitError, first accepting alternative); "
                  "both are bound to the code: CTrait.validate (compiled path) and handler.validate (Python path) are "
                  "called on the real trait for every pair and judged by TLC",
        text="Same enumeration as C01; three-way agreement spec-Fast = C path, spec-Py = Python path, Fast ~ Py, for "
             "all fast-validating trait types and compound nestings (Either with nested Either, Python-only "
             "alternatives, Tuple members, lazily resolved Instance inside a compound). Session 4: This (self_type validator) and Module, also as compound alternatives / Tuple members; Complex as a compound alternative.",
        note="Trusted: TLC; a Python method raising a non-TraitError exception where the fast path raises TraitError counts as "
             "agreement (both reject); known finding F28 (values whose __class__ lies).",
        design="4/C03"),
    "C02": dict(
        technique=TLA + "Notify.tla models the C pre-filter and each mechanism's own filter as the code is structured; "
                  "TLC checks the property (exactly once per change, truthful old/new, same sequence, silence on "
                  "rejection/default read, Event traits) on all histories to the bound; every state of the dump and seeded "
                  "histories are executed on real objects with all four handler mechanisms and judged by TLC",
        text="Model checking over 3 comparison modes x trait/Event x typed/untyped x 11 value tokens (identical, "
             "equal-not-identical, two NaN objects, raising ==, numpy arrays, None, default, rejected) to depth 3/5; every "
             "case executed under 7 sets of raising handlers; recorded old/new per mechanism judged by TLC both against "
             "the code-shaped filters and against the property's IsChange directly. Session 4: a second object-level handler, one-shot assignments (handlers that remove themselves while being called), a wildcard-declared attribute with a sibling-name probe, trait types that store the original value (setattr_original_value).",
        note="Trusted: TLC; the token/equality structure of Notify.tla matches the concrete values; default "
             "exception-handler configuration; dispatch='same' only (no other threads).",
        design="4/C02"),
    "C04": dict(
        technique=TLA + "TLC checks the C04 invariants (elements valid, length in bounds, nested) on histories of "
                  "ContainerTraits.tla and enumerates every one-step case; cases are executed on real HasTraits objects "
                  "with List/Dict/Set/List(List)/Dict(K,List) traits generated from the configuration; recorded "
                  "executions (incl. seeded multi-step histories) are judged by TLC (Trace_ContainerTraits)",
        text="Model checking of the container-attribute model (histories to depth 2/3 over all mutators with bounded "
             "argument domains; invariants in every state) + bounded-exhaustive one-step conformance of the "
             "implementation (5 container kinds x inner-trait modes x length bounds) judged by TLC, which also evaluates "
             "the C04 invariant, failure atomicity and silence-on-failure on every observed post-state. Session 4: first read of a never-assigned List trait (default outside the bounds is refused), del / reset_traits, every case also on a falsy owner object.",
        note="Trusted: TLC, the container semantics of TraitList/TraitDict/TraitSet.tla, inner traits limited to Int "
             "(strict) and CInt (coercing); nested kinds limited to List(List(T)) and Dict(K, List(T)).",
        design="4/C04"),
    "C06": dict(
        technique=TLA + "TLC enumerates every (ordered dict, validator modes, operation, arguments) case of TraitDict.tla; "
                  "each is executed on a real TraitDict and a builtin dict; recorded executions incl. the actual "
                  "(removed, added, changed) notifier arguments are judged by TLC (Trace_TraitDict)",
        text="Bounded-exhaustive model checking of insertion-ordered dict semantics + the reconstruction law (dicts up to "
             "2/3 keys, update/|= with up to 2/3 pairs incl. duplicates, coercing/rejecting key and value validators, "
             "equal-but-distinct float keys) with every case executed on the implementation and judged by TLC; seeded "
             "histories on top. Session 4: float keys equal to int keys that a validator rejects (EqInvalid / RawKey), falsy keys and values as a third representative.",
        note="Trusted: TLC, TraitDict.tla's dict semantics (cross-checked per case against builtin dict), item "
             "concretisation. Known finding F14 (setdefault with coerced key) is a named deviation action.",
        design="4/C06"),
    "C07": dict(
        technique=TLA + "TLC enumerates every (set, validator, operation, argument sets) case of TraitSet.tla incl. "
                  "copy/deepcopy/pickle followed by a validating add on the copy; executed on a real TraitSet and a "
                  "builtin set; recorded executions incl. actual (removed, added) judged by TLC (Trace_TraitSet)",
        text="Bounded-exhaustive model checking of set semantics + delta law (all subsets of 3 items x all argument "
             "subsets of 5 items x 1-2 iterables x all mutators) with every case executed on the implementation and "
             "judged by TLC; seeded histories on top. Session 4: the TraitSetObject of a Set trait seen from its owner in three owner shapes (plain, HasStrictTraits with Union(None, Set(T)), falsy owner).",
        note="Trusted: TLC, TraitSet.tla (cross-checked per case against builtin set), item concretisation. Known "
             "finding F15 (symmetric difference with coerced items) is a named deviation action; F2 fixed in /repo.",
        design="4/C07"),
    "C08": dict(
        technique=TLA + "Observe.tla defines from scratch which observables an expression covers in a heap; TLC checks "
                  "its structural laws on all bounded heaps (ObserveMC) and that the incremental hook maintenance "
                  "(ObserveImpl) refines it - which is how known finding F8 (cycles) was found; recorded steps of real "
                  "observe() histories and of every enumerated (container with duplicates, operation) case, each with "
                  "the handler calls during the change and a reachability probe of every object afterwards, are judged "
                  "by TLC against the declarative definition",
        text="Model checking of the declarative semantics (43k heaps, locality/union/quiet-link laws) and of the "
             "implementation-shaped maintenance model against it; conformance on a real pool of 4 interlinked objects "
             "(Instance link with comparison mode none, List with duplicates, Dict with coercing keys, metadata-tagged "
             "traits, lazily materialised containers) under 19 expressions: 20k enumerated single-operation cases + "
             "seeded histories, every step judged by TLC. Session 4: the pool's set link is identity-compared, metadata values are defined-but-falsy. FilteredLinks.tla: a filtered link followed by more on an object whose matching link traits grow at run time.",
        note="Trusted: TLC; expressions limited to the catalogue (bound to the parser: compile_str must project to "
             "the catalogue paths); dispatch='same'; set items and add_trait not exercised. Known finding F8.",
        design="4/C08"),
    "C09": dict(
        technique=TLA + "same specification and recorded histories as C08; registration steps (observe / unobserve, "
                  "repeated, failing, without prior registration), notifier census, garbage collection of the whole pool "
                  "and of bound-method handler owners are judged by TLC (Trace_Observe, C09 clauses)",
        text="Every recorded observe/unobserve step is judged: failure iff Observe!Fails says the walk meets an object "
             "lacking a required trait (then the notifier census is unchanged), NotifierNotFound iff the count is 0, "
             "census back to the baseline whenever no registration is left, unregistered handlers never called, nothing "
             "kept alive by registrations after the pool or a handler owner is dropped. Session 4: RegCount.tla - registrations on three observed objects sharing a downstream object, two of them equal but distinct.",
        note="Trusted: TLC; census = sizes of all trait / container / object notifier lists of the pool; failures "
             "injected through one object of a class lacking the observed trait; gc.collect() forced explicitly.",
        design="4/C09"),
    "C10": dict(
        technique=TLA + "Defaults.tla specifies each operation's effect on the ACTOR's view only; DefaultsMC checks "
                  "non-interference as an action property over all histories to the bound; in conformance the "
                  "side-effect-free views of all instances and of the classes are recorded after every step of seeded "
                  "histories and TLC judges that only the actor's view changed, and as specified",
        text="14 default kinds (constant, overridden constant, comparison-mode-none, List/Dict/Set objects, list/dict "
             "copies via Any, callable-and-args factory, _name_default methods with run counters, Tuple and Union with "
             "container members) x 3 instances (one of an overriding subclass, created during the history) x read / "
             "in-place mutation / assign / delete / handler registration / add_trait with a shared trait object; identity "
             "sharing of mutable defaults between instances or with the class default is checked on every state. Session 4: list-subclass Any default; a name under a declared wildcard with waiting observers.",
        note="Trusted: TLC; views are projected from __dict__, run counters and handler logs (never by reading "
             "attributes). Known finding F12 (class-level caching of resolved names).",
        design="4/C10"),
    "C11": dict(
        technique=TLA + "Deferred.tla specifies reads, writes, deletion, delegate swaps and the notifications of "
                  "DelegatesTo / PrototypedFrom attributes for every prefix style; DeferredMC checks the mirror / "
                  "independence / stale-delegate invariants on all histories to the bound; recorded steps on real "
                  "objects (state projected from __dict__ and the delegates, all deferring attributes read after every "
                  "step, handler calls) are judged by TLC",
        text="All histories to depth 4/5 in TLC; conformance on seeded histories (24k steps quick) over 8 deferring "
             "attributes (2 kinds x 4 prefix styles), 2 candidate delegates and None, invalid assignments, and three "
             "two-hop chains with renaming at either hop. Session 4: a class shape whose delegate link is itself a deferred attribute.",
        note="Trusted: TLC; whether a swap of the delegate or a deletion itself notifies is left open (as in the "
             "statement); listenable=True default. F5 fixed in /repo.",
        design="4/C11"),
    "C12": dict(
        technique=TLA + "Observe.tla: an observed property is a permanent registration of its dependency expression; "
                  "PropValue computes its value from the heap, Relevant decides which mutations concern it; every read of "
                  "a cached and of an uncached observed property of the real root, the getter runs, and the calls of "
                  "handlers on the property are recorded along seeded histories and enumerated container cases (incl. "
                  "pickled / deep-copied pools) and judged by TLC",
        text="Every recorded read must equal the value TLC computes from the projected heap (no stale read); the cached "
             "getter runs at most once and not at all without a relevant change since the previous read (TLC decides "
             "relevance of every intermediate mutation, probes included); handlers on the property are called exactly "
             "when a relevant change alters the value; ~125k steps in the quick tier. Session 4: properties are read again after a mutation made the root's expression inapplicable (known finding F32).",
        note="Trusted: TLC; two properties (kids.items.value cached via subclass override, child.value uncached) on "
             "the root; clone_traits only through deepcopy. Known finding F8 applies (cycles).",
        design="4/C12"),
    "C13": dict(
        technique=TLA + "Names.tla defines Governing (instance trait > class trait > longest wildcard > class default) "
                  "and the access policies; TLC checks the policy invariants on all histories to the bound; every history "
                  "of the state graph is replayed on a freshly generated class hierarchy and folded through the "
                  "specification by TLC (Trace_Names)",
        text="Model checking over 162 class configurations (HasTraits/HasStrictTraits/HasPrivateTraits x three wildcard "
             "prefixes declared in base or subclass x explicit Int/ReadOnly/Constant/Event traits) x 12 names (zero/one/"
             "several prefix matches, leading underscores, dunder, exact) x all get/set/del/add_trait/remove_trait "
             "histories to depth 2/3, each replayed on real classes; random longer histories over 18 names. Session 4: hooking and unhooking a handler on a name as an operation (governs nothing).",
        note="Trusted: TLC; fresh classes per history (class-level caching across instances is C10's subject); policies "
             "limited to Int, Str, Any, ReadOnly, Constant, Event, Disallow, Python, getter-only Property.",
        design="4/C13"),
    "C14": dict(
        technique=TLA + "Persist.tla specifies the object state, Copy and the operations; recorded histories CONTINUE on "
                  "the copy (so an unbound container, a lost observer or a stale property is a rejected step), judged by "
                  "TLC; CTraitTables.tla models the handler tables and the getstate/setstate index protocol (TLC proves "
                  "every search stays inside its table - and reproduces F3 on the unrepaired table) and is bound to the "
                  "real CTrait API; every Validate.tla configuration is round-tripped as a trait definition and the C01 "
                  "replay repeated on the copy",
        text="Histories over scalar / List / List(List) / Dict(Str, List) / Set / Instance / List(Instance) with aliasing "
             "/ transient / ReadOnly / declared observers (incl. post_init) / cached property, copied at random points by "
             "pickle protocols 0-5, deepcopy and clone_traits (None, shallow, deep); 112 handler configurations; ~15k "
             "validation cases on pickled and deep-copied trait definitions. Session 4: a PrototypedFrom attribute (falsy local values, link kept by pickle / turned into a local value by copy_traits) with its reads and notifications on copies.",
        note="Trusted: TLC; definitions that pickle refuses cleanly (lambdas, shadowed singletons) are outside the "
             "quantifier; Dict traits are reference-copied by clone/deepcopy unless copy='deep' is declared (documented "
             "default, containers are still re-wrapped). F3 fixed in /repo.",
        design="4/C14"),
    "C15": dict(
        technique=TLA + "TLC computes the complete bounded language of the documented grammar with parse trees and "
                  "denotations (ObserveDSL.tla) and checks its well-formedness laws; every member is compiled by the real "
                  "parser and the projected ObserverGraphs compared with the denotation; the complement of TLC's set among "
                  "all token strings up to the bound must raise ValueError",
        text="Exhaustive to 5 (quick) / 7 (thorough) tokens over a 10-token alphabet: every grammatical string x 3 "
             "spellings compiled and compared with the specification's path set, recompiled, used in stacked @observe / "
             "observe / removal by an equivalent spelling on real objects; every non-member string up to the bound plus "
             "junk strings must raise ValueError. Session 4: a deep configuration (names and '.' only, up to 9 tokens) and names with non-ASCII word characters.",
        note="Trusted: TLC; names limited to two identifiers and one metadata name; whitespace variants are sampled "
             "(seeded), not enumerated. Known findings F9a/F9b.",
        design="4/C15"),
    "C16": dict(
        technique=TLA + "the declarative Observe.tla judges both mechanisms: each legacy extended name is mapped to its "
                  "corresponding observe expression, both handlers are registered together on a real pool whose heap is "
                  "kept a forest, and every recorded step (calls during the change, probe of every object afterwards) is "
                  "judged by TLC (Trace_Legacy) - agreement of the two systems follows from agreement with the one "
                  "specification",
        text="Seeded histories (quick 24k steps) over 9 extended names (series, ':' links, list and dict links at first "
             "and nested level) on tree-shaped graphs of 6 objects with fresh objects at every insertion and in-place "
             "permutations: final-attribute reachability for both systems, intermediate link assignments reported for "
             "'.' and not for ':', silence after removal. Session 4: the legacy '+metadata' name with defined-but-falsy metadata values.",
        note="Trusted: TLC; 4-argument legacy handlers, dispatch 'same'; in-place mutation of a container link is only "
             "required to be silent for ':' links (the legacy system documents signature-dependent special cases).",
        design="4/C16"),
    "C17": dict(
        technique=TLA + "the _adapt priority-queue algorithm is model-checked against the declarative definition of "
                  "successful adapter chains for every configuration; every enumerated configuration and seeded larger "
                  "ones are instantiated with real classes/factories and the recorded adapt()/Supports/AdaptsTo results "
                  "are judged by TLC against the declarative definition (Trace_Adaptation)",
        text="Exhaustive model checking over all configurations of a 7-type hierarchy family (chains, multiple "
             "inheritance, ABC virtual subclass) with 2 (quick) / 3 (thorough) offers incl. failing and conditional "
             "factories; all 2-offer configurations replayed on the real AdaptationManager through five entry points; "
             "random 3-7 offer configurations with cycles and late ABC registration judged by TLC. Session 4: a deeper class chain (A3, A4, virtual registration with the ABC) in the random configurations; Supports inside Either as an entry point. Offers named through facade modules that were never imported.",
        note="Trusted: TLC; the MRO table of the fixed class family in Adaptation.tla matches the generated Python "
             "classes; factories' success depends only on their position in the chain.",
        design="4/C17"),
    "C18": dict(
        level="other",
        technique="TLA+ specification for what the family can state (CTraitTables.tla: handler-table searches stay in "
                  "bounds and getstate/setstate round-trip - model-checked by TLC, reproducing finding F3 on the unrepaired "
                  "table, bound to the real CTrait API; RefLedger.tla: steady-state reference ledger of 31 operations, "
                  "measured with sys.getrefcount and judged by TLC) plus sanitised replay: the specification-driven history "
                  "generators of the other properties executed against an ASan+UBSan build of /repo's ctraits.c",
        text="Memory safety itself is not decidable by a TLA+ model: the specifications act as program generator and "
             "ledger, AddressSanitizer/UBSan as the monitor. Crash-prone phases run in forked children / a subprocess so "
             "that a crash is reported as a violation. Session 4: CTraitUpdate.tla (a definition's default replaced while a finaliser of the old default reads it) with its 16 programs; ledger loops for accepted / rejected dynamic defaults.",
        note="Trusted: clang ASan/UBSan on the extension only (CPython itself uninstrumented, PYTHONMALLOC=malloc); "
             "refcount deltas are steady-state (K=12 fresh values per loop); other threads not exercised.",
        design="4/C18"),
    "C19": dict(
        technique=TLA + "every operation of Faults.tla takes a fault parameter (callback site, occurrence, exception "
                  "class); FaultsMC lets TLC decide the two laws (deciding callback => no effect + exception; change "
                  "handler => complete + all other handlers) for every operation x site x occurrence; in conformance "
                  "counting fault injectors sit in every user callback of a real object and every step of seeded "
                  "histories - which continue after each fault - is judged by TLC",
        text="600k (state, operation, fault) combinations model-checked; 27k recorded steps (55% faulted) over 10 "
             "operations, 11 callback sites (validator, _name_default, property getter/setter, cached getter in a read "
             "and inside a dependency notification, List/Set item validator at its k-th item, adapter factory k, "
             "static/dynamic/observe handlers) x 4 exception classes, with the cached property and the notification "
             "switch probed after every step. Session 4: Dict update / |= / item assignment with the key or value validator failing at the k-th pair.",
        note="Trusted: TLC; default notification exception handlers; trait_set with several attributes is a series of "
             "operations (only single-attribute quiet sets are faulted); Dict item validators not faulted.",
        design="4/C19"),
    "C20": dict(
        technique=TLA + "SyncTrait.tla models the propagation operationally (per-object lock table, partner loop in "
                  "registration order, recursive handler runs); SyncTraitMC checks convergence to the declarative closure, "
                  "termination, at-most-once notification, no reverse effect of one-way links and lock release for EVERY "
                  "topology of up to 4 directed links; recorded steps on three real objects are judged by TLC with the "
                  "declarative closure (Trace_SyncTrait)",
        text="Exhaustive over all link topologies (4632) x assignments in TLC; conformance on seeded histories (26k steps "
             "quick): Int / aliased Int / Range partner (rejecting) / List / aliased List, mutual and one-way links in "
             "random registration order, removal, garbage collection of a partner, every in-place list operation incl. "
             "extended slices.",
        note="Trusted: TLC; topologies in conformance are hub-shaped (no cycle through three list partners); handler "
             "exceptions are contained by the default notification handler. F4 and F19 fixed in /repo.",
        design="4/C20"),
}

NOT_YET = "check not built yet (work in progress in this round; see DESIGN.md section 4 for the planned specification)"

ALL = ["C%02d" % i for i in range(1, 21)]



# what the models gained after the first version (kept separate so that the entries above stay readable)
ADDENDA = {
    "C01": " Also assigned through a PrototypedFrom delegate, a Property(trait) and an object holding an instance-level "
           "copy of the trait (7 routes).",
    "C02": " Extended: handler registration and removal as operations (on_trait_change, observe, object-level), the "
           "dispatch guard, inherited @observe methods with magic names, classes without handler methods, quiet bulk "
           "sets with a rejected member; every enumerated case is followed by a probe assignment.",
    "C04": " Every history step first transfers the value (constructor, deepcopy, clone_traits, copy_traits, pickle, "
           "another object's container); Undefined and None as further invalid items.",
    "C05": " Third binding: every TraitList mutation made while the repository's own test modules run (about 190 000 in "
           "the quick tier, the whole suite in the thorough tier) is recorded by a pytest plugin, abstracted into the "
           "specification's item domain and judged by the same judge.",
    "C06": " Third binding: the TraitDict mutations made by the repository's own tests are recorded and judged by the "
           "same judge.",
    "C07": " Third binding: the TraitSet mutations made by the repository's own tests are recorded and judged by the "
           "same judge.",
    "C08": " Extended: sets, a nested container (dict of lists), dynamic traits given with add_trait (trait_added as "
           "an observable), a probe of the dynamic trait, enumerated set / nested / dynamic cases.",
    "C10": " Extended: Map default and its shadow, zero-size Array default, a fault after the default was stored, pure "
           "query operations, the class's base-trait table in the class view.",
    "C13": " Extended: wildcards added at run time with add_class_trait (resolution kept per name), a trait_added "
           "listener that admits instance traits, trait definitions copied / pickled before use.",
    "C14": " Extended: a legacy depends_on cached property read while a copy is filled in, a delegated container of "
           "containers, traits given with add_trait (known finding F22).",
    "C19": " Extended: dynamic Range whose value= default faults, a compound trait with an adapting alternative, the "
           "validator of a synchronised partner.",
}
for _k, _v in ADDENDA.items():
    CLAIMED[_k]["text"] += _v


def main():
    checks = []
    for pid in ALL:
        if pid not in CLAIMED:
            continue
        c = CLAIMED[pid]
        checks.append({
            "property_id": pid,
            "quick_cmd": "./check %s quick" % pid,
            "thorough_cmd": "./check %s thorough" % pid,
            "evidence_file": "/verif/evidence/%s.json" % pid,
            "replay_cmd_template": "./check %s quick --replay {path}" % pid,
            "engine": "tlc+conformance",
            "level_claimed": {"category": c.get("level", "model_checking"), "text": c["text"],
                              "design_ref": "DESIGN.md " + c["design"]},
            "level_note": c["note"],
            "technique": c["technique"],
        })
    na = [{"property_id": p, "reason": NA.get(p, NOT_YET)} for p in ALL if p not in CLAIMED]
    m = {
        "version": 1,
        "setup_cmd": "./setup.sh",
        "hooks": {
            "guard": "TRAITS_VERIF_TRACE",
            "enable": "no hook is compiled in; checks import /repo's Python sources directly and compile "
                      "/repo/traits/ctraits.c into a scratch directory on every run (harness/build.py)",
            "baseline_off_cmd": "cd /repo && /venv/bin/python -m pytest -ra -q -p no:cacheprovider --timeout=900 "
                                "--continue-on-collection-errors",
            "source_commits": HOOK_COMMITS,
            "add_only": True,
        },
        "engines": [{"name": "tlc+conformance", "path": "/verif/check",
                     "serves_properties": sorted(CLAIMED),
                     "kind_free_text": "TLA+ specifications in /verif/spec checked by TLC 1.8; mode A: TLC state dumps / "
                                       "simulated behaviours replayed into the real code; mode B: recorded executions "
                                       "judged by Trace_*.tla"}],
        "checks": checks,
        "not_applicable": na,
        "notes": "All checks: exit 0 = held, exit 1 + VIOLATION line, exit 2 = machinery failure. Known findings in "
                 "/verif/known_findings.json. VERIF_SEED seeds every random choice.",
    }
    with open(os.path.join(HERE, "MANIFEST.json"), "w") as f:
        json.dump(m, f, indent=1)
    print("MANIFEST.json: %d claimed, %d not_applicable" % (len(checks), len(na)))


NA = {}
HOOK_COMMITS = []

if __name__ == "__main__":
    main()
