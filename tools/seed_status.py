#!/usr/bin/env python3
"""tools/seed_status.py -- one line per stored seeded change: does the patch still apply to /repo's HEAD, is it detected by
its owning check (seeded/RECHECK.json, written by tools/recheck_seeded.py) or by another check (meta.json `detected_by`,
written by tools/try_mutant.py --checks ...).  Writes seeded/STATUS.json and prints the totals."""
import glob
import json
import os

HERE = os.path.dirname(os.path.dirname(os.path.abspath(__file__)))
rc = json.load(open(os.path.join(HERE, "seeded", "RECHECK.json")))
out = {}
for d in sorted(glob.glob(os.path.join(HERE, "seeded", "C??-*"))):
    sid = os.path.basename(d)
    meta = json.load(open(os.path.join(d, "meta.json")))
    r = rc.get(sid, {})
    by = set(meta.get("detected_by") or [])
    own = sid.split("-")[0]
    if r.get("detected"):
        by.add(own)
    elif own in by and r and r.get("applies"):
        by.discard(own)          # the latest run of the owning check did not report it
    st = "does-not-apply" if r and not r.get("applies", True) else ("detected" if by else "open")
    if meta.get("obsolete"):
        st = "obsolete"
    out[sid] = {"status": st, "detected_by": sorted(by), "note": meta.get("note", "") or meta.get("obsolete", "")}
json.dump(out, open(os.path.join(HERE, "seeded", "STATUS.json"), "w"), indent=1)
tot = {}
for v in out.values():
    tot[v["status"]] = tot.get(v["status"], 0) + 1
print(tot)
print("open:", [k for k, v in out.items() if v["status"] == "open"])
print("other:", [(k, v["status"]) for k, v in out.items() if v["status"] not in ("open", "detected")])
