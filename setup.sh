#!/bin/sh
# Offline setup: nothing is downloaded or installed. Parse every specification with SANY so that a
# broken spec is reported here rather than as a machinery failure inside a check.
set -e
cd "$(dirname "$0")"
mkdir -p evidence replay
fail=0
tmpd=$(mktemp -d)          # (java.io.tmpdir of the SANY runs: removed below, nothing stays behind in /tmp)
for f in spec/*.tla; do
  m=$(basename "$f" .tla)
  if ! (cd spec && java -Djava.io.tmpdir="$tmpd" -cp /opt/veriftools/tla/tla2tools.jar:/opt/veriftools/tla/CommunityModules-deps.jar tla2sany.SANY "$m.tla" > /tmp/sany_$$.log 2>&1) || grep -q -E "Semantic errors|\*\*\* Errors|Parse Error|Fatal" /tmp/sany_$$.log; then
    echo "SANY FAILED: $m"; cat /tmp/sany_$$.log; fail=1
  fi
done
rm -f /tmp/sany_$$.log
rm -rf "$tmpd"
/venv/bin/python -c "import sys; sys.path.insert(0,'.'); import harness.tlaval, harness.tlc, harness.build, harness.core"
exit $fail
